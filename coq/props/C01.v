(* C01 - placeholder while the check is brought up; replaced by the property theorems. *)
From Coq Require Import NArith.
From V Require Import model.EncConfig.
Open Scope N_scope.
Theorem C01_stub : wrap_position 5 = 5.
Proof. reflexivity. Qed.
Print Assumptions C01_stub.
