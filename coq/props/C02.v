(* C02 - multi-threaded compression never returns success with wrong or truncated data.
   Property theorems only; every proof is `exact <lemma>`.  Model: model/Multi.v (CompressMulti,
   compress_part, get_range, the three spawners as CompressMulti sees them); proofs:
   proofs/Multi_proofs.v.  `Repaired` = the code as it is now (fix commits named in
   known_findings.json); the `_refuted` theorems keep the code as found.

   Reading guide
   * `compress_multi run_job job_bytes index_agrees cstate cat_init cat_stream cat_finish ver pr
     fuel ov sc p t n owned cap`: one call of CompressMulti with t jobs on n input bytes and an
     output buffer of cap bytes, under spawner/schedule/faults `sc`.  Outcomes: OPanic, OHang
     (a join never returns), OReturned {result; output bytes; input handed back}.
   * `execs_of ..` = the answers of the t jobs (compress_part) in index order;
     `cat_run cap chunks` = the concatenator fed the chunks in order, every call answering
     Success/NeedsMoreInput, then finish answering Success: the bytes it wrote.
   * The compressor inside a job, the comparison of a supplied index, and the concatenator are
     Section variables: the theorems hold for every behaviour of them. *)
From Coq Require Import NArith ZArith List Bool.
From V Require Import lib.Words gen.GenBound gen.GenMulti model.Bound model.Multi proofs.Multi_proofs.
Import ListNotations.
Open Scope N_scope.

(* the model the theorems are about is the code that is in /repo now: the version flags and the
   anchors below are read off the source on every check (gen/GenMulti.v) *)
Theorem C02_model_is_current :
  Current = Repaired /\ multi_get_range_is_floor_split = true /\ multi_job_flag_overrides = true /\
  multi_dev_profile_compares_hasher = true /\ multi_hands_input_back = true /\
  multi_dict_window_after_sanitize = true /\ MULTI_EARLY_RETURNS = 1.
Proof. exact current_is_repaired. Qed.
Print Assumptions C02_model_is_current.

(* get_range partitions [0, n): every chunk is an interval inside the input, chunk 0 starts at 0,
   the last chunk ends at n, each chunk starts where the previous one ended, and every chunk has
   floor(n/t) or floor(n/t)+1 bytes - for every thread count t >= 1 (so 1..16) and every n with
   t * n < 2^64, in both build profiles. *)
Theorem C02_ranges : forall pr t n, 0 < t -> t * n < 2 ^ 64 -> partition_stmt pr t n.
Proof. exact ranges_partition. Qed.
Print Assumptions C02_ranges.

(* the bound is exact: from t * n = 2^64 on, the product for the last chunk overflows (a panic
   in the dev profile).  For t <= 16 every n < 2^60 is inside. *)
Theorem C02_ranges_bound_exact : forall t n, 0 < t -> 2 ^ 64 <= t * n -> get_range Dev (t - 1) t n = Panic.
Proof. exact ranges_bound_exact. Qed.
Print Assumptions C02_ranges_bound_exact.

(* success with k bytes: every one of the t jobs returned a chunk, the output is exactly what the
   concatenator makes of those chunks in index order, k is its length, and the input is back *)
Theorem C02_success :
  forall run_job job_bytes index_agrees (cstate : Type) cat_init cat_stream cat_finish
         pr fuel ov sc p t n owned cap r k,
  compress_multi run_job job_bytes index_agrees cstate cat_init cat_stream cat_finish
                 Repaired pr fuel ov sc p t n owned cap = OReturned r ->
  r_result r = ROk k ->
  exists ex cs, execs_of run_job job_bytes index_agrees Repaired pr fuel ov p t n = Some ex /\
    length cs = N.to_nat t /\
    (forall i, (i < N.to_nat t)%nat -> nth i ex JHung = JReturned (JROk (chunk_at cs i))) /\
    cat_run cstate cat_init cat_stream cat_finish cap cs = Some (r_out r) /\
    k = lenN (r_out r) /\ r_back r = true.
Proof. exact multi_success. Qed.
Print Assumptions C02_success.

(* a job's chunk is what a call that reported the stream finished left in its buffer *)
Theorem C02_part_finished :
  forall run_job job_bytes ji pl fuel k c,
  part_loop run_job job_bytes Repaired ji pl fuel k = Some (JROk c) ->
  exists k', k <= k' /\ co_result (run_job ji pl k') = true /\ co_finished (run_job ji pl k') = true /\
             c = firstn (N.to_nat (co_out_offset (run_job ji pl k'))) (job_bytes ji pl).
Proof. exact (fun run_job job_bytes ji pl => part_loop_finished run_job job_bytes Repaired ji pl eq_refl). Qed.
Print Assumptions C02_part_finished.

(* compress_part decides as soon as a call finishes the stream, is refused, or leaves no room *)
Theorem C02_part_terminates :
  forall run_job job_bytes ji pl fuel k,
  (exists d, (d < fuel)%nat /\
     let c := run_job ji pl (k + N.of_nat d) in
     (co_result c && co_finished c) || negb (co_result c) || (co_avail_out c =? 0) = true) ->
  part_loop run_job job_bytes Repaired ji pl fuel k <> None.
Proof. exact (fun run_job job_bytes ji pl => part_loop_terminates run_job job_bytes Repaired ji pl eq_refl). Qed.
Print Assumptions C02_part_terminates.

(* every return path hands the input back, unless the spawner itself lost it (a view of the
   shared input or its final unwrap failed: a poisoned lock) - whatever the jobs answered,
   whichever joins failed *)
Theorem C02_handback :
  forall run_job job_bytes index_agrees (cstate : Type) cat_init cat_stream cat_finish
         pr fuel ov sc p t n owned cap r,
  compress_multi run_job job_bytes index_agrees cstate cat_init cat_stream cat_finish
                 Repaired pr fuel ov sc p t n owned cap = OReturned r ->
  s_view_fail sc = 0 -> s_unwrap_ok sc = true -> r_back r = true.
Proof. exact multi_handback. Qed.
Print Assumptions C02_handback.

(* enough room.  Full statement (DESIGN.md): a buffer of the advertised multi-threaded maximum
   and every job within its own buffer give success. *)
Definition C02_enough_stmt : Prop := enough_stmt.

(* It is false for arbitrary job outputs: the per-job buffers add up to more than the
   multi-threaded maximum (28 + 28 > 45 for two one-byte chunks), so the bound holds only because
   real chunks stay well below their buffers (later chunks carry no magic header) - an accounting
   fact about the encoder (C08_multi), decided on the real code by this check's search. *)
Theorem C02_enough_stmt_refuted : ~ C02_enough_stmt.
Proof. exact enough_stmt_refuted. Qed.
Print Assumptions C02_enough_stmt_refuted.

(* What is proved: success is decided by the chunks and the concatenator alone - if every job
   returned a chunk and the concatenator, given this buffer, accepts the chunks, the call
   succeeds with exactly those bytes, for every spawner and schedule. *)
Theorem C02_enough_partial :
  forall run_job job_bytes index_agrees (cstate : Type) cat_init cat_stream cat_finish
         pr fuel ov sc p t n cap ex cs out,
  0 < t -> sched_ok sc t ->
  execs_of run_job job_bytes index_agrees Repaired pr fuel ov p t n = Some ex ->
  ex = map (fun c => JReturned (JROk c)) cs ->
  cat_run cstate cat_init cat_stream cat_finish cap cs = Some out ->
  compress_multi run_job job_bytes index_agrees cstate cat_init cat_stream cat_finish
                 Repaired pr fuel ov sc p t n true cap = OReturned (mkRet (ROk (lenN out)) out true).
Proof. exact multi_enough. Qed.
Print Assumptions C02_enough_partial.

(* ---- the code as found ---- *)
(* compress_part took `compress_stream(..) == true` for "done": a chunk that ran out of room was
   handed on and the call reported success (replayed on the real code: quality 0, lgwin 11,
   magic, 2 threads, 22902 PRNG bytes: Ok(22950), undecodable) *)
Theorem C02_success_asfound_refuted :
  exists r, toy_multi AsFound (Some 0) None (toy_sched Inline [] None) 2 30 100 = OReturned r /\
            is_ok (r_result r) = true /\
            co_finished (toy_run (Some 0) None (mkJI 0 2 30 toy_params None)
                                 (mkPlan 0 15 0 toy_params (mkDD toy_params false 0 0 HFresh)) 0) = false.
Proof. exact asfound_accepts_unfinished. Qed.
Print Assumptions C02_success_asfound_refuted.

(* with only that check added, the stitching loop still let the next chunk's Ok overwrite the
   error: success with the failed chunk missing *)
Theorem C02_success_overwrite_refuted :
  exists r, toy_multi (mkVersion true false true true true) None (Some 0) (toy_sched Inline [] None) 2 30 100
            = OReturned r /\ r_result r = ROk 2 /\ r_out r = [1; 1].
Proof. exact overwritten_error_refuted. Qed.
Print Assumptions C02_success_overwrite_refuted.

(* a failed join returned at once: the input stayed inside the spawner *)
Theorem C02_handback_asfound_refuted :
  exists r, toy_multi AsFound None None (toy_sched Inline [] (Some 0)) 3 30 100 = OReturned r /\ r_back r = false.
Proof. exact asfound_join_failure_keeps_input. Qed.
Print Assumptions C02_handback_asfound_refuted.

(* non-vacuity: three jobs on a reused worker pool delivering out of order, success *)
Example C02_nonvacuous :
  toy_multi Repaired None None (toy_sched Pool [1; 0] None) 3 30 100
  = OReturned (mkRet (ROk 6) [0; 1; 1; 2; 2; 2] true) /\
  toy_multi Repaired None None (toy_sched Inline [] (Some 0)) 3 30 100
  = OReturned (mkRet (RErr OtherThreadPanic) [] true) /\
  partition_stmt Dev 7 12288.
Proof.
  split; [exact toy_success|]. split; [exact repaired_join_failure_hands_back|].
  apply ranges_partition; [reflexivity|reflexivity].
Qed.
