(* C03 - concatenated appendable/catable streams decode to the concatenated contents.
   Property theorems only.  The model (model/Concat.v) is the repaired src/concat/mod.rs;
   spec/ConcatSpec.concat_spec is the bit-level meaning of concatenation (written from RFC 7932,
   not from the code). *)
From Coq Require Import NArith List.
From V Require Import lib.Words model.Concat model.ConcatRun spec.ConcatSpec proofs.Concat_proofs proofs.Concat_inv
  proofs.Concat_run proofs.Concat_findings proofs.Concat_tail.
Import ListNotations.
Open Scope N_scope.

(* The full bit-level statement: for members of the appendable/catable shape with non-increasing
   windows (exactly the lists on which concat_spec is defined), the one-shot run succeeds and emits
   the bytes concat_spec describes: window field and body of the first member, then for every later
   member its first meta-block header shifted behind the previous member's last data bit, zero
   padding to the byte boundary, its remaining bytes verbatim, and one final end marker. *)
Definition one_shot (ms : list (list N)) : list task :=
  flat_map (fun m => TFile :: match m with [] => [] | _ => [TChunk m] end) ms ++ [TFinish].
Definition C03_bits_stmt : Prop :=
  forall (override : option N) (ms : list (list N)) (expected : list N) (fuel : nat) (cap : N),
    Forall bytes_ok ms -> (forall w, override = Some w -> 10 <= w /\ w <= 30) ->
    concat_spec override ms = Some expected ->
    lenN expected + 16 <= cap -> (4 * length ms + 8 <= fuel)%nat ->
    let r := run_native fuel [cap] false false [] (one_shot ms) (init override) in
    rr_final r = Done Success /\ rr_emitted r = expected.
(* STATUS.  The statement above is FALSE of the faithful model (C03_bits_stmt_refuted, at the end of this
   file): concat_spec is also defined on 5/6-byte strings whose end marker lies inside the look-ahead
   bytes, which are not Brotli streams and on which the concatenator's 2-byte tail logic differs.
   With the one extra hypothesis `markers_ok override ms = true` (spec/ConcatMarker.v; it holds for
   every member of 7 or more bytes, C03_marker_ok_long) the statement is PROVED as C03_bits, and
   for every slicing of inputs and outputs and every save/restore schedule as C03_bits_any_slicing
   (through C12's slicing theorems).  The check applies the extracted concat_spec and markers_ok to
   every generated list as well, and two independent decoders judge the concatenation (the
   decoder-level statement C03_sem is not proved). *)
Theorem C03_bits_partial : forall fuel caps percall rall rs tasks s0,
  Inv s0 -> tasks_ok (Started s0) tasks ->
  rr_final (run_native fuel caps percall rall rs tasks s0) <> Panicked.
Proof. exact run_native_never_panics. Qed.
Print Assumptions C03_bits_partial.

(* A member shorter than the 5-byte look-ahead (necessarily an empty stream), fed in one buffer after
   a member whose last two bytes (a, b) end in ISLAST, ISLASTEMPTY - all 65 536 pairs are covered,
   whatever the other fields of the state and whatever the output buffer - is consumed with
   NeedsMoreInput and the following `finish` succeeds and emits exactly a, b at the cursor. *)
Theorem C03_empty_members : forall a b any bo0 ws c out off,
  a < 256 -> b < 256 -> end_marker_ok a b = true -> lenN c < 5 -> off + 2 <= lenN out ->
  exists r g, stream (new_brotli_file (mkBC a b 2 false any bo0 ws None)) c 0 out off = Val r /\
    r_rc r = NeedsMoreInput /\ r_in r = lenN c /\
    finish (r_s r) (r_out r) (r_off r) = Val g /\ f_rc g = Success /\
    f_off g = off + 2 /\ f_out g = takeN off out ++ [a; b] ++ dropN (off + 2) out.
Proof. exact empty_member_keeps_tail_spec. Qed.
Print Assumptions C03_empty_members.

(* Every supported window override 10..30: `finish` alone, `finish` after one empty member, and
   after two empty members, all emit concat_spec (Some w) [] = the window field of w followed by
   ISLAST, ISLASTEMPTY (override_ok w spells out these four equalities). *)
Theorem C03_override_empty : forall w, 10 <= w -> w <= 30 -> override_ok w = true.
Proof. exact override_empty. Qed.
Print Assumptions C03_override_empty.

(* The statement was false of the code before the repairs 3985c2c, 43a0d2f, a559e26, in three
   ways (each replayed on the real pre-fix code; fixed, see known_findings.json), and holds of
   the repaired model on the same witnesses. *)
Theorem C03_bits_refuted_before_fix_straddle :
  result (run_orig 100 [64] false false [] [TFile; TChunk [59]; TFinish] (o_init (Some 15))) = (Done Success, [113; 128; 128]) /\
  concat_spec (Some 15) [[59]] = Some [241; 1].
Proof. exact C03_bits_refuted_orig_straddle. Qed.
Print Assumptions C03_bits_refuted_before_fix_straddle.

Theorem C03_bits_refuted_before_fix_w16 :
  result (run_orig 100 [64] false false [] [TFinish] (o_init (Some 16))) = (Done Success, [7]) /\
  concat_spec (Some 16) [] = Some [6] /\ rfc_wbits 7 = Some (20, 4).
Proof. exact C03_bits_refuted_orig_w16. Qed.
Print Assumptions C03_bits_refuted_before_fix_w16.

Theorem C03_bits_refuted_before_fix_trailing :
  result (run_orig 100 [64] false false [] [TFile; TChunk [129; 1]; TFinish] (o_init (Some 30))) = (Done Success, [17; 222; 30]) /\
  concat_spec (Some 30) [[129; 1]] = Some [17; 222].
Proof. exact C03_bits_refuted_orig_trailing. Qed.
Print Assumptions C03_bits_refuted_before_fix_trailing.

(* The two known (recorded, not repaired) classes, see known_findings.json:
   header longer than the look-ahead - outside concat_spec's domain, answered with an error code;
   mixed stream formats - the bit-level statement still holds, the decoded content does not. *)
Theorem C03_known_header_exceeds_lookahead :
  KnownClass_header_exceeds_lookahead None [m_large_first; m_large_meta3] /\
  rr_final (run_native 100 [64] false false [] [TFile; TChunk m_large_first; TFile; TChunk m_large_meta3; TFinish] (init None))
    = Done BrotliFileNotCraftedForConcatenation.
Proof. exact known_header_exceeds_lookahead. Qed.
Print Assumptions C03_known_header_exceeds_lookahead.

Theorem C03_known_mixed_formats :
  KnownClass_mixed_formats (Some 30) [[11; 0; 128; 97; 3]] /\
  rr_final (run_native 100 [64] false false [] [TFile; TChunk [11; 0; 128; 97; 3]; TFinish] (init (Some 30))) = Done Success.
Proof. exact known_mixed_formats. Qed.
Print Assumptions C03_known_mixed_formats.

Theorem C03_bits_on_former_witnesses :
  Some (rr_emitted (run_native 100 [64] false false [] [TFile; TChunk [59]; TFinish] (init (Some 15)))) = concat_spec (Some 15) [[59]] /\
  Some (rr_emitted (run_native 100 [64] false false [] [TFile; TChunk [129; 1]; TFinish] (init (Some 30)))) = concat_spec (Some 30) [[129; 1]].
Proof. exact (conj C03_straddle_fixed C03_trailing_fixed). Qed.
Print Assumptions C03_bits_on_former_witnesses.

(* ------------------------------------------------------------------ the bit-level theorem *)
From V Require Import spec.ConcatMarker proofs.Concat_delay proofs.Concat_glue proofs.Concat_bitlib proofs.Concat_hdr
  proofs.Concat_strip proofs.Concat_bits proofs.Concat_final proofs.Concat_anyslice.

(* C03_bits_stmt as written above is FALSE of the faithful model: concat_spec only inspects a member's
   window field, the shape of its first header and the two end-marker bits, so it is also defined on
   byte strings that are not Brotli streams and whose "end marker" lies inside the five look-ahead
   bytes.  Witness: the five bytes 0b 00 80 80 01 (marker straddling bytes 3 and 4) followed by any
   member - the specification is defined, the concatenator answers BrotliFileNotCraftedForAppend. *)
Theorem C03_bits_stmt_refuted : ~ C03_bits_stmt.
Proof. exact bits_stmt_refuted. Qed.
Print Assumptions C03_bits_stmt_refuted.

Theorem C03_bits_stmt_refuted_witness :
  concat_spec None [[11; 0; 128; 128; 1]; [59]] = Some [11; 0; 128; 128; 1] /\
  rr_final (run_native 16 [21] false false [] (one_shot [[11; 0; 128; 128; 1]; [59]]) (init None)) = Done BrotliFileNotCraftedForAppend /\
  markers_ok None [[11; 0; 128; 128; 1]; [59]] = false.
Proof. exact straddle5_facts. Qed.
Print Assumptions C03_bits_stmt_refuted_witness.

(* the other two shapes of the same looseness: marker bits in the padding of the header's last source
   byte / marker straddling bytes 4 and 5 of a six-byte string whose header fills five bytes: Success,
   but the marker bits are dropped *)
Theorem C03_bits_stmt_refuted_more :
  (concat_spec None [m_large_first; [17; 22; 0; 0; 194]] = Some [17; 22; 2; 0; 2; 97; 0; 0; 8; 3] /\
   result (run_native 16 [30] false false [] (one_shot [m_large_first; [17; 22; 0; 0; 194]]) (init None))
     = (Done Success, [17; 22; 2; 0; 2; 97; 0; 0; 8]) /\
   markers_ok None [m_large_first; [17; 22; 0; 0; 194]] = false) /\
  (concat_spec (Some 22) [[17; 150; 0; 0; 160; 1]] = Some [43; 0; 0; 8; 3] /\
   result (run_native 16 [30] false false [] (one_shot [[17; 150; 0; 0; 160; 1]]) (init (Some 22)))
     = (Done Success, [43; 0; 0; 8; 1]) /\
   markers_ok (Some 22) [[17; 150; 0; 0; 160; 1]] = false).
Proof. exact marker_in_header_witnesses. Qed.
Print Assumptions C03_bits_stmt_refuted_more.

(* The strongest true variant: the added hypothesis is `markers_ok override ms = true`
   (spec/ConcatMarker.v, executable): in every member of at least five bytes the end marker starts at
   or after bit 8 * max 4 src_bytes, src_bytes = the look-ahead bytes occupied by window field + first
   header when that header is shifted.  Every real stream satisfies it (content after a metadata /
   uncompressed header is byte-aligned, so the final empty meta-block starts at or after that byte
   boundary); it can only fail for strings of 5 or 6 bytes (C03_marker_ok_long).  With it, the
   one-shot run answers Success and emits exactly the bytes of the bit-level specification:
   window field and body of the first member, every later member's first header shifted behind the
   previous member's last data bit (realign/copy_whole = the bit-shifting lemma
   proofs/Concat_hdr.realign_val: the header register holds partial byte + header * 2^offset), zero
   padding, the remaining bytes verbatim, one final end marker. *)
Definition C03_bits_marked_stmt : Prop :=
  forall (override : option N) (ms : list (list N)) (expected : list N) (fuel : nat) (cap : N),
    Forall bytes_ok ms -> (forall w, override = Some w -> 10 <= w /\ w <= 30) ->
    markers_ok override ms = true ->
    concat_spec override ms = Some expected ->
    lenN expected + 16 <= cap -> (4 * length ms + 8 <= fuel)%nat ->
    let r := run_native fuel [cap] false false [] (one_shot ms) (init override) in
    rr_final r = Done Success /\ rr_emitted r = expected.
Theorem C03_bits : C03_bits_marked_stmt.
Proof. exact one_shot_bits. Qed.
Print Assumptions C03_bits.

(* ... and so does EVERY slicing (C03_bits + C12_slicing + C12_restore): the members cut into input
   buffers in any way (script_of), output buffers of any sizes including 0, one kept until full or a
   fresh one per call, any save/restore schedule, any call budget that is not exhausted. *)
Theorem C03_bits_any_slicing : forall override ms expected ts fuel caps pc rall rs,
  Forall bytes_ok ms -> (forall w, override = Some w -> 10 <= w /\ w <= 30) ->
  markers_ok override ms = true -> concat_spec override ms = Some expected ->
  script_of ms ts ->
  rr_final (run_native fuel caps pc rall rs ts (init override)) <> Looped ->
  rr_final (run_native fuel caps pc rall rs ts (init override)) = Done Success /\
  rr_emitted (run_native fuel caps pc rall rs ts (init override)) = expected.
Proof. exact bits_any_slicing. Qed.
Print Assumptions C03_bits_any_slicing.

(* the side condition holds for every byte string of seven or more bytes *)
Theorem C03_marker_ok_long : forall later m, 7 <= lenN m -> member_marker_ok later m = true.
Proof. exact marker_ok_long. Qed.
Print Assumptions C03_marker_ok_long.

(* why streams satisfy the side condition: a shifted first header (metadata or uncompressed) is
   followed by byte-aligned content and the final empty meta-block, so a stream of six or more bytes has
   at least two bytes after the header's source bytes; and in a stream of exactly five bytes the marker
   lies inside the last byte (which then is not 1) behind a header of at most four bytes *)
Theorem C03_marker_ok_room : forall later m, 6 <= lenN m ->
  (forall lgwin wlen hlen, rfc_wbits (byte_at m 0 + 256 * byte_at m 1) = Some (lgwin, wlen) ->
     first_header_len (skipn (N.to_nat wlen) (bits_of_bytes (takeN 6 m))) = Some hlen ->
     (wlen + hlen + 7) / 8 + 2 <= lenN m) ->
  member_marker_ok later m = true.
Proof. exact marker_ok_room. Qed.
Print Assumptions C03_marker_ok_room.

Theorem C03_marker_ok_five : forall later m, lenN m = 5 -> byte_at m 4 <> 1 -> bytes_ok m ->
  (forall lgwin wlen hlen, rfc_wbits (byte_at m 0 + 256 * byte_at m 1) = Some (lgwin, wlen) ->
     first_header_len (skipn (N.to_nat wlen) (bits_of_bytes (takeN 6 m))) = Some hlen ->
     (wlen + hlen + 7) / 8 <= 4) ->
  member_marker_ok later m = true.
Proof. exact marker_ok_five. Qed.
Print Assumptions C03_marker_ok_five.

(* the relation the induction carries from member to member, for one call of `stream` on a whole
   member with room in the output: acc = the specification's accumulator, E = all bytes written *)
Theorem C03_member_step : forall acc E s m out acc',
  Rel acc E s -> bytes_ok m -> m <> [] -> add_member acc m = Some acc' -> member_marker_ok (later_of acc) m = true ->
  bytes_ok out -> takeN (lenN E) out = E -> N.of_nat (blen acc) / 8 + lenN m + 8 <= lenN out ->
  exists r E', stream (new_brotli_file s) m 0 out (lenN E) = Val r /\ r_rc r = NeedsMoreInput /\
    lenN (r_out r) = lenN out /\ bytes_ok (r_out r) /\ r_off r = lenN E' /\ takeN (lenN E') (r_out r) = E' /\
    Rel acc' E' (r_s r).
Proof. exact stream_member. Qed.
Print Assumptions C03_member_step.

Theorem C03_finish_step : forall acc E s out,
  Rel acc E s -> takeN (lenN E) out = E -> lenN E + 2 <= lenN out ->
  exists f, finish s out (lenN E) = Val f /\ f_rc f = Success /\ takeN (f_off f) (f_out f) = expected_of acc.
Proof. exact finish_Rel. Qed.
Print Assumptions C03_finish_step.

(* the bit-shifting lemma for the header register: after `realign` over n = ceil(hlen / 8) bytes the
   register holds, byte by byte, (partial byte l0) + (header bits c) * 2^last_byte_bit_offset *)
Theorem C03_realign : forall c l0 bo n, bo < 8 -> l0 < 2 ^ bo -> (1 <= n <= 5)%nat ->
  exists rh, realign n 0 c bo [l0; 0; 0; 0; 0; 0] = Val rh /\ lenN rh = 6 /\
    forall j, j <= N.of_nat n -> byte_at rh j = ((l0 + c * 2 ^ bo) / 2 ^ (8 * j)) mod 256.
Proof. exact realign_val. Qed.
Print Assumptions C03_realign.

(* end-marker stripping = the specification's strip_end_marker, on all 65 536 two-byte tails *)
Theorem C03_strip : forall a b X, a < 256 -> b < 256 -> strip_end_marker (bits_of_bytes [a; b]) = Some X ->
  exists e l0 l1 bo, strip2 a b = Some (e, l0, l1, bo) /\
    bits_of_bytes e ++ byte_bits (N.to_nat bo) l0 = X /\ san_ok l0 l1 bo = true /\ bytes_ok e /\ lenN e <= 1.
Proof. exact strip2_bits. Qed.
Print Assumptions C03_strip.

(* Non-vacuity: four members (a 10-byte appendable stream, a 9-byte catable one, an empty one, a
   5-byte catable one); all hypotheses of C03_bits hold and the run emits the specified bytes *)
Example C03_bits_hypotheses_satisfiable :
  Forall bytes_ok ms_ex /\ markers_ok None ms_ex = true /\
  concat_spec None ms_ex = Some [139; 2; 128; 72; 46; 21; 202; 231; 80; 88; 0; 8; 104; 101; 108; 108; 111; 0; 0; 8; 97; 3] /\
  result (run_native 24 [38] false false [] (one_shot ms_ex) (init None)) =
    (Done Success, [139; 2; 128; 72; 46; 21; 202; 231; 80; 88; 0; 8; 104; 101; 108; 108; 111; 0; 0; 8; 97; 3]).
Proof. exact bits_hypotheses_satisfiable. Qed.
