(* C03 - concatenated appendable/catable streams decode to the concatenated contents.
   Property theorems only.  The model (model/Concat.v) is the repaired src/concat/mod.rs;
   spec/ConcatSpec.concat_spec is the bit-level meaning of concatenation (written from RFC 7932,
   not from the code). *)
From Coq Require Import NArith List.
From V Require Import lib.Words model.Concat model.ConcatRun spec.ConcatSpec proofs.Concat_proofs proofs.Concat_inv
  proofs.Concat_run proofs.Concat_findings proofs.Concat_tail.
Import ListNotations.
Open Scope N_scope.

(* The full bit-level statement: for members of the appendable/catable shape with non-increasing
   windows (exactly the lists on which concat_spec is defined), the one-shot run succeeds and emits
   the bytes concat_spec describes: window field and body of the first member, then for every later
   member its first meta-block header shifted behind the previous member's last data bit, zero
   padding to the byte boundary, its remaining bytes verbatim, and one final end marker. *)
Definition one_shot (ms : list (list N)) : list task :=
  flat_map (fun m => TFile :: match m with [] => [] | _ => [TChunk m] end) ms ++ [TFinish].
Definition C03_bits_stmt : Prop :=
  forall (override : option N) (ms : list (list N)) (expected : list N) (fuel : nat) (cap : N),
    Forall bytes_ok ms -> (forall w, override = Some w -> 10 <= w /\ w <= 30) ->
    concat_spec override ms = Some expected ->
    lenN expected + 16 <= cap -> (4 * length ms + 8 <= fuel)%nat ->
    let r := run_native fuel [cap] false false [] (one_shot ms) (init override) in
    rr_final r = Done Success /\ rr_emitted r = expected.
(* Proved of the statement so far: the run never panics and keeps the invariant (C03_bits_partial);
   the window field is read as RFC 7932 says (C16_parse); empty members in any position leave the
   stream intact: for EVERY tail (a, b) ending in the end marker, at all 8 bit alignments incl. the
   straddling one, stripping the marker and re-appending it at finish gives back exactly (a, b)
   (C03_empty_members), and for every supported window override the initial pseudo-stream is the
   RFC 7932 empty stream of that window, with or without empty members fed through it
   (C03_override_empty); the statement holds on the witnesses below, which are the cases the code got
   wrong before the repairs.  Missing: the general
   bit-shifting lemma for realign/copy_whole (that realigned_header holds the header bits at offset
   last_byte_bit_offset followed by the whole bytes) and the induction over members; until then the
   statement is checked on every generated list by checks/c03.py (concat_spec applied to the
   implementation's output, plus two independent decoders). *)
Theorem C03_bits_partial : forall fuel caps percall rall rs tasks s0,
  Inv s0 -> tasks_ok (Started s0) tasks ->
  rr_final (run_native fuel caps percall rall rs tasks s0) <> Panicked.
Proof. exact run_native_never_panics. Qed.
Print Assumptions C03_bits_partial.

(* A member shorter than the 5-byte look-ahead (necessarily an empty stream), fed in one buffer after
   a member whose last two bytes (a, b) end in ISLAST, ISLASTEMPTY - all 65 536 pairs are covered,
   whatever the other fields of the state and whatever the output buffer - is consumed with
   NeedsMoreInput and the following `finish` succeeds and emits exactly a, b at the cursor. *)
Theorem C03_empty_members : forall a b any bo0 ws c out off,
  a < 256 -> b < 256 -> end_marker_ok a b = true -> lenN c < 5 -> off + 2 <= lenN out ->
  exists r g, stream (new_brotli_file (mkBC a b 2 false any bo0 ws None)) c 0 out off = Val r /\
    r_rc r = NeedsMoreInput /\ r_in r = lenN c /\
    finish (r_s r) (r_out r) (r_off r) = Val g /\ f_rc g = Success /\
    f_off g = off + 2 /\ f_out g = takeN off out ++ [a; b] ++ dropN (off + 2) out.
Proof. exact empty_member_keeps_tail_spec. Qed.
Print Assumptions C03_empty_members.

(* Every supported window override 10..30: `finish` alone, `finish` after one empty member, and
   after two empty members, all emit concat_spec (Some w) [] = the window field of w followed by
   ISLAST, ISLASTEMPTY (override_ok w spells out these four equalities). *)
Theorem C03_override_empty : forall w, 10 <= w -> w <= 30 -> override_ok w = true.
Proof. exact override_empty. Qed.
Print Assumptions C03_override_empty.

(* The statement was false of the code before the repairs 3985c2c, 43a0d2f, a559e26, in three
   ways (each replayed on the real pre-fix code; fixed, see known_findings.json), and holds of
   the repaired model on the same witnesses. *)
Theorem C03_bits_refuted_before_fix_straddle :
  result (run_orig 100 [64] false false [] [TFile; TChunk [59]; TFinish] (o_init (Some 15))) = (Done Success, [113; 128; 128]) /\
  concat_spec (Some 15) [[59]] = Some [241; 1].
Proof. exact C03_bits_refuted_orig_straddle. Qed.
Print Assumptions C03_bits_refuted_before_fix_straddle.

Theorem C03_bits_refuted_before_fix_w16 :
  result (run_orig 100 [64] false false [] [TFinish] (o_init (Some 16))) = (Done Success, [7]) /\
  concat_spec (Some 16) [] = Some [6] /\ rfc_wbits 7 = Some (20, 4).
Proof. exact C03_bits_refuted_orig_w16. Qed.
Print Assumptions C03_bits_refuted_before_fix_w16.

Theorem C03_bits_refuted_before_fix_trailing :
  result (run_orig 100 [64] false false [] [TFile; TChunk [129; 1]; TFinish] (o_init (Some 30))) = (Done Success, [17; 222; 30]) /\
  concat_spec (Some 30) [[129; 1]] = Some [17; 222].
Proof. exact C03_bits_refuted_orig_trailing. Qed.
Print Assumptions C03_bits_refuted_before_fix_trailing.

(* The two known (recorded, not repaired) classes, see known_findings.json:
   header longer than the look-ahead - outside concat_spec's domain, answered with an error code;
   mixed stream formats - the bit-level statement still holds, the decoded content does not. *)
Theorem C03_known_header_exceeds_lookahead :
  KnownClass_header_exceeds_lookahead None [m_large_first; m_large_meta3] /\
  rr_final (run_native 100 [64] false false [] [TFile; TChunk m_large_first; TFile; TChunk m_large_meta3; TFinish] (init None))
    = Done BrotliFileNotCraftedForConcatenation.
Proof. exact known_header_exceeds_lookahead. Qed.
Print Assumptions C03_known_header_exceeds_lookahead.

Theorem C03_known_mixed_formats :
  KnownClass_mixed_formats (Some 30) [[11; 0; 128; 97; 3]] /\
  rr_final (run_native 100 [64] false false [] [TFile; TChunk [11; 0; 128; 97; 3]; TFinish] (init (Some 30))) = Done Success.
Proof. exact known_mixed_formats. Qed.
Print Assumptions C03_known_mixed_formats.

Theorem C03_bits_on_former_witnesses :
  Some (rr_emitted (run_native 100 [64] false false [] [TFile; TChunk [59]; TFinish] (init (Some 15)))) = concat_spec (Some 15) [[59]] /\
  Some (rr_emitted (run_native 100 [64] false false [] [TFile; TChunk [129; 1]; TFinish] (init (Some 30)))) = concat_spec (Some 30) [[129; 1]].
Proof. exact (conj C03_straddle_fixed C03_trailing_fixed). Qed.
Print Assumptions C03_bits_on_former_witnesses.
