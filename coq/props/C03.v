(* C03 - concatenated appendable/catable streams decode to the concatenated contents.
   Property theorems only. *)
From Coq Require Import NArith List.
From V Require Import lib.Words model.Concat model.ConcatRun spec.ConcatSpec proofs.Concat_proofs.
Import ListNotations.
Open Scope N_scope.

(* placeholder while the bit-level theorems are being built: the parser used for the window
   check of every later member is the RFC's *)
Theorem C03_window_field : forall b0 b1 rest, b0 < 256 -> b1 < 256 ->
  parse_window_size (b0 :: b1 :: rest) = Val (rfc_wbits (b0 + 256 * b1)).
Proof. exact parse_window_size_rfc. Qed.
Print Assumptions C03_window_field.
