(* C04 - a completed flush makes all prior input decodable; metadata is transparent.
   Property theorems only.  What is proved here is the encoder-side half of the property:
   byte alignment and "everything handed to the back end" at a completed flush, and the
   bit-exact metadata header against the RFC reader.  That the back end's meta-blocks decode
   to the input is C01's hypothesis; on every run it is checked by decoding the emitted
   prefix after every completed flush with an independent streaming decoder. *)
From Coq Require Import NArith List.
From V Require Import lib.Words model.Stream spec.MetaHeader proofs.Stream_proofs proofs.MetaHeader_proofs.
Import ListNotations.
Open Scope N_scope.

(* A flush that has completed in the documented sense (the call returns true, all of its
   input is consumed, nothing is pending) leaves no sub-byte carry (the stream so far ends
   on a byte boundary), is back in the processing state, and every input byte accepted so
   far has been handed to the back end (last_flush_pos = input_pos) -- for EVERY sequence
   of back-end answers satisfying answer_ok, every input size and every output capacity. *)
Theorem C04_aligned : forall s payload offered capn s' x',
  initialized s = true -> rem_meta s = U32MAX -> all_ok (oracle s) ->
  (sstate_ s = SProcessing \/ (sstate_ s = SFlushRequested /\ last_flush_pos s = input_pos s)) ->
  last_flush_pos s <= input_pos s ->
  compress_stream s OpFlush payload offered capn = Done (true, s', x') ->
  avail_in x' = 0 -> avail_out_ s' = 0 ->
  last_bytes_bits s' = 0 /\ sstate_ s' = SProcessing /\ next_out s' = NoNone /\
  (last_flush_pos s' = input_pos s' \/
   (input_pos s' = input_pos s /\ last_flush_pos s' = last_flush_pos s)).
Proof. exact flush_completed_aligned. Qed.
Print Assumptions C04_aligned.

(* The metadata block header written for a payload of n <= 2^24 bytes after any sub-byte
   carry (up to the 14 bits of a large-window stream header) is read back by the RFC 7932
   section 9.2 reader as "skip exactly n bytes", ends byte-aligned (zero fill bits), and
   leaves the carried bits untouched. *)
Theorem C04_metadata_header : forall lb lbb n, lbb < 15 -> lb < 2 ^ lbb -> n <= 2 ^ 24 ->
  rfc_read_metadata_header (fst (metadata_header_bits lb lbb n)) lbb
    = Some (n, 8 * ((snd (metadata_header_bits lb lbb n) + 7) / 8))
  /\ fst (metadata_header_bits lb lbb n) mod 2 ^ lbb = lb.
Proof. exact metadata_header_correct. Qed.
Print Assumptions C04_metadata_header.

(* As found (before fix 1446edb) the statement was false at n = 1: the header announced an
   empty block, so the payload byte was parsed as the next meta-block header. *)
Theorem C04_metadata_header_asfound_refuted :
  exists lb lbb, lbb < 8 /\ lb < 2 ^ lbb /\
    rfc_read_metadata_header (fst (metadata_header_bits_asfound lb lbb 1)) lbb = Some (0, 8).
Proof. exact metadata_header_asfound_refuted. Qed.
Print Assumptions C04_metadata_header_asfound_refuted.

(* Oversized metadata is refused (shared with C20). *)
Theorem C04_metadata_oversize : forall s payload offered capn,
  initialized s = true -> rem_meta s = U32MAX -> 2 ^ 24 < offered ->
  compress_stream s OpMeta payload offered capn = Done (false, update_size_hint s 0, io0 offered capn).
Proof. exact metadata_oversize_refused. Qed.
Print Assumptions C04_metadata_oversize.

(* Non-vacuity: a concrete flush that completes in one call on a state with a 3-bit carry. *)
Example C04_aligned_example :
  let a := {| a_fast := false; a_is_last := false; a_force_flush := true; a_result := true; a_inplace := false;
              a_block := 0; a_out := [11; 22; 5]; a_lb := 5; a_lbb := 3; a_ipos := 10; a_lfp := 10; a_lpp := 10;
              a_hint := 10; a_no := NoDyn 0 |} in
  let s0 := ensure_initialized init_st in
  let s1 := upd_pos (upd_misc s0 false [a]) 10 0 0 in
  match compress_stream s1 OpFlush [] 0 100 with
  | Done (true, s', x') => avail_in x' = 0 /\ avail_out_ s' = 0 /\ last_bytes_bits s' = 0 /\ produced x' = [11; 22; 5; 53; 0]
  | _ => False
  end.
Proof. vm_compute. repeat split; reflexivity. Qed.

(* ---------------------------------------------------------------- a completed flush makes all prior input decodable *)
(* Appended by the composition proof (proofs/Roundtrip_prefix.v, on top of the C01 composition proofs/Roundtrip_*.v).
   Scripts are lists over any call type C with projections (operation, bytes offered, output capacity); g_run_calls,
   g_input, g_ann are the run, the input (metadata payloads filtered out) and the consumed answers with the pending bits
   each was invoked on (proofs/Roundtrip_defs.v).  Premises about the recorded answers as in C01: answer_ok3s, kept_ann
   (booleans), faithful_ann (the heuristics hypothesis; on the quality 0/1 path for the answers repositioned at the
   running sums of their blocks), meta_bytes_ok (metadata payloads are bytes).
   [at_rest s'] is the boolean description of the encoder after a completed FLUSH or EMIT_METADATA call: initialised,
   not finished, nothing pending (avail_out_ = 0), on a byte boundary (last_bytes_bits = 0 - C04_aligned) and, on the
   main path, everything flushed (last_flush_pos = input_pos - C04_aligned).
   Conclusion: the emitted bytes are whole bytes whose bits the decoder spec reads as  stream header, then n meta-block
   steps that consume ALL remaining bits and end with Continue (a meta-block boundary: the decoder waits for more),
   with exactly the input offered so far as output.  Padding and metadata blocks are skipped on the way. *)
From Coq Require Import ZArith Bool.
From V Require Import lib.PMap spec.PrefixCode spec.Decoder model.MetaBlockHeader proofs.Slicing_proofs
  proofs.Roundtrip_defs proofs.Roundtrip_prefix proofs.Roundtrip_example proofs.Roundtrip_examplep.
Import ListNotations.
Open Scope N_scope.

Theorem C04_flush_prefix_decodes : forall dict_word transform_tbl (C : Type) (c_op : C -> opk) (c_in : C -> list N) (c_cap : C -> N)
    (params : list (N * N)) (cs : list C) (answers : list answer) s' emitted B,
  let s0 := state0 params answers in
  let s1 := ensure_initialized s0 in
  let input := g_input C c_op c_in cs in
  forallb answer_ok3s answers = true ->
  meta_bytes_ok C c_op c_in cs = true -> lenN input < 2 ^ 64 ->
  kept_ann (g_ann C c_op c_in c_cap s0 cs) = true ->
  faithful_ann dict_word transform_tbl B (large_window s1) (stream_wbits s1) input 0
               (if fastcond s1 then repos 0 (g_ann C c_op c_in c_cap s0 cs) else g_ann C c_op c_in c_cap s0 cs) ->
  g_run_calls C c_op c_in c_cap s0 cs [] = Done (true, s', emitted) -> at_rest s' = true ->
  exists rbits n sD,
    read_wbits true (bytes_bits emitted) = Ok ((stream_wbits s1, large_window s1), rbits) /\ (n <= length rbits)%nat /\
    loop_n (N.of_nat n) (meta_block dict_word transform_tbl (large_window s1) (2 ^ stream_wbits s1 - 16) B)
           {| d_out := o_init []; d_ring := ring_init; d_info := PE; d_bits := rbits |} = Continue sD /\
    d_bits sD = [] /\ rev' (o_rev (d_out sD)) = input.
Proof. exact prefix_all_paths. Qed.
Print Assumptions C04_flush_prefix_decodes.

(* metadata is transparent: two scripts with the same non-metadata calls (they differ only in inserted EMIT_METADATA
   calls), run on the same parameters and answers, both at rest: both prefixes decode, to the same bytes *)
Theorem C04_metadata_transparent : forall dict_word transform_tbl (C : Type) (c_op : C -> opk) (c_in : C -> list N) (c_cap : C -> N)
    (params : list (N * N)) (cs1 cs2 : list C) (answers : list answer) s1' e1 s2' e2 B,
  let s0 := state0 params answers in
  let s1 := ensure_initialized s0 in
  filter (fun c => negb (opk_eqb (c_op c) OpMeta)) cs1 = filter (fun c => negb (opk_eqb (c_op c) OpMeta)) cs2 ->
  forallb answer_ok3s answers = true -> lenN (g_input C c_op c_in cs1) < 2 ^ 64 ->
  meta_bytes_ok C c_op c_in cs1 = true -> meta_bytes_ok C c_op c_in cs2 = true ->
  kept_ann (g_ann C c_op c_in c_cap s0 cs1) = true -> kept_ann (g_ann C c_op c_in c_cap s0 cs2) = true ->
  faithful_ann dict_word transform_tbl B (large_window s1) (stream_wbits s1) (g_input C c_op c_in cs1) 0
               (if fastcond s1 then repos 0 (g_ann C c_op c_in c_cap s0 cs1) else g_ann C c_op c_in c_cap s0 cs1) ->
  faithful_ann dict_word transform_tbl B (large_window s1) (stream_wbits s1) (g_input C c_op c_in cs2) 0
               (if fastcond s1 then repos 0 (g_ann C c_op c_in c_cap s0 cs2) else g_ann C c_op c_in c_cap s0 cs2) ->
  g_run_calls C c_op c_in c_cap s0 cs1 [] = Done (true, s1', e1) -> at_rest s1' = true ->
  g_run_calls C c_op c_in c_cap s0 cs2 [] = Done (true, s2', e2) -> at_rest s2' = true ->
  g_input C c_op c_in cs1 = g_input C c_op c_in cs2 /\
  exists r1 n1 d1 r2 n2 d2,
    read_wbits true (bytes_bits e1) = Ok ((stream_wbits s1, large_window s1), r1) /\
    loop_n (N.of_nat n1) (meta_block dict_word transform_tbl (large_window s1) (2 ^ stream_wbits s1 - 16) B)
           {| d_out := o_init []; d_ring := ring_init; d_info := PE; d_bits := r1 |} = Continue d1 /\ d_bits d1 = [] /\
    read_wbits true (bytes_bits e2) = Ok ((stream_wbits s1, large_window s1), r2) /\
    loop_n (N.of_nat n2) (meta_block dict_word transform_tbl (large_window s1) (2 ^ stream_wbits s1 - 16) B)
           {| d_out := o_init []; d_ring := ring_init; d_info := PE; d_bits := r2 |} = Continue d2 /\ d_bits d2 = [] /\
    rev' (o_rev (d_out d1)) = rev' (o_rev (d_out d2)) /\ rev' (o_rev (d_out d1)) = g_input C c_op c_in cs1.
Proof. exact metadata_transparent. Qed.
Print Assumptions C04_metadata_transparent.

(* non-vacuity: default parameters, calls as triples (operation, bytes, capacity):
   px_script = [FLUSH [104;105] cap 3; FLUSH [] cap 100; EMIT_METADATA [1;2;3] cap 100; FLUSH [33] cap 100] - two completed
   flushes with a metadata block between them, two answers; px_emitted = 8B 00 80 68 69 96 00 01 02 03 00 00 08 21; every
   premise holds, the encoder is at rest, and the prefix decodes to ex_input = [104;105;33] with no bits left *)
Example C04_flush_prefix_decodes_example : forall dict_word transform_tbl,
  let s0 := state0 [] px_answers in
  let s1 := ensure_initialized s0 in
  forallb answer_ok3s px_answers = true /\ meta_bytes_ok _ t_op t_in px_script = true /\ fastcond s1 = false
  /\ kept_ann (g_ann _ t_op t_in t_cap s0 px_script) = true
  /\ large_window s1 = false /\ stream_wbits s1 = 22 /\ g_input _ t_op t_in px_script = ex_input
  /\ (forall B, faithful_ann dict_word transform_tbl B (large_window s1) (stream_wbits s1) ex_input 0 (g_ann _ t_op t_in t_cap s0 px_script))
  /\ (exists s', g_run_calls _ t_op t_in t_cap s0 px_script [] = Done (true, s', px_emitted) /\ at_rest s' = true)
  /\ forall B, exists rbits n sD,
       read_wbits true (bytes_bits px_emitted) = Ok ((22, false), rbits) /\ (n <= length rbits)%nat /\
       loop_n (N.of_nat n) (meta_block dict_word transform_tbl false (2 ^ 22 - 16) B)
              {| d_out := o_init []; d_ring := ring_init; d_info := PE; d_bits := rbits |} = Continue sD /\
       d_bits sD = [] /\ rev' (o_rev (d_out sD)) = ex_input.
Proof. exact prefix_example. Qed.

(* ---------------------------------------------------------------- 'completed FLUSH' => at rest, for every preceding script *)
(* The link between C04_aligned (one FLUSH call, premises about the state before it) and C04_flush_prefix_decodes (the
   boolean at_rest on the final state): for EVERY script cs of PROCESS / FLUSH / FINISH / EMIT_METADATA calls run from the
   initial state, on either path, if the script is followed by a FLUSH call that returns true with all its input consumed
   (g_run_calls demands that of every call) and nothing is pending afterwards (has_more_output = false: the flush has
   completed) and the stream is not finished, the encoder is at rest.  Only answer_ok is needed of the answers. *)
From V Require Import proofs.Roundtrip_rest.
Theorem C04_completed_flush_at_rest : forall (C : Type) (c_op : C -> opk) (c_in : C -> list N) (c_cap : C -> N)
    (params : list (N * N)) (cs : list C) (c : C) (answers : list answer) s' emitted,
  let s0 := state0 params answers in
  forallb answer_ok answers = true ->
  c_op c = OpFlush ->
  g_run_calls C c_op c_in c_cap s0 (cs ++ [c]) [] = Done (true, s', emitted) ->
  has_more_output s' = false -> sstate_ s' <> SFinished ->
  at_rest s' = true.
Proof. exact completed_flush_at_rest. Qed.
Print Assumptions C04_completed_flush_at_rest.

(* ... hence C04_flush_prefix_decodes in the 'last call is a completed FLUSH' phrasing, both paths *)
Theorem C04_completed_flush_prefix_decodes : forall (C : Type) (c_op : C -> opk) (c_in : C -> list N) (c_cap : C -> N)
    dict_word transform_tbl (params : list (N * N)) (cs : list C) (c : C) (answers : list answer) s' emitted B,
  let s0 := state0 params answers in
  let s1 := ensure_initialized s0 in
  let input := g_input C c_op c_in (cs ++ [c]) in
  forallb answer_ok3s answers = true ->
  meta_bytes_ok C c_op c_in (cs ++ [c]) = true -> lenN input < 2 ^ 64 ->
  kept_ann (g_ann C c_op c_in c_cap s0 (cs ++ [c])) = true ->
  faithful_ann dict_word transform_tbl B (large_window s1) (stream_wbits s1) input 0
               (if fastcond s1 then repos 0 (g_ann C c_op c_in c_cap s0 (cs ++ [c])) else g_ann C c_op c_in c_cap s0 (cs ++ [c])) ->
  c_op c = OpFlush ->
  g_run_calls C c_op c_in c_cap s0 (cs ++ [c]) [] = Done (true, s', emitted) ->
  has_more_output s' = false -> sstate_ s' <> SFinished ->
  exists rbits n sD,
    read_wbits true (bytes_bits emitted) = Ok ((stream_wbits s1, large_window s1), rbits) /\ (n <= length rbits)%nat /\
    loop_n (N.of_nat n) (meta_block dict_word transform_tbl (large_window s1) (2 ^ stream_wbits s1 - 16) B)
           {| d_out := o_init []; d_ring := ring_init; d_info := PE; d_bits := rbits |} = Continue sD /\
    d_bits sD = [] /\ rev' (o_rev (d_out sD)) = input.
Proof. exact completed_flush_prefix_decodes. Qed.
Print Assumptions C04_completed_flush_prefix_decodes.
