(* C04 - a completed flush makes all prior input decodable; metadata is transparent.
   Property theorems only.  What is proved here is the encoder-side half of the property:
   byte alignment and "everything handed to the back end" at a completed flush, and the
   bit-exact metadata header against the RFC reader.  That the back end's meta-blocks decode
   to the input is C01's hypothesis; on every run it is checked by decoding the emitted
   prefix after every completed flush with an independent streaming decoder. *)
From Coq Require Import NArith List.
From V Require Import lib.Words model.Stream spec.MetaHeader proofs.Stream_proofs proofs.MetaHeader_proofs.
Import ListNotations.
Open Scope N_scope.

(* A flush that has completed in the documented sense (the call returns true, all of its
   input is consumed, nothing is pending) leaves no sub-byte carry (the stream so far ends
   on a byte boundary), is back in the processing state, and every input byte accepted so
   far has been handed to the back end (last_flush_pos = input_pos) -- for EVERY sequence
   of back-end answers satisfying answer_ok, every input size and every output capacity. *)
Theorem C04_aligned : forall s payload offered capn s' x',
  initialized s = true -> rem_meta s = U32MAX -> all_ok (oracle s) ->
  (sstate_ s = SProcessing \/ (sstate_ s = SFlushRequested /\ last_flush_pos s = input_pos s)) ->
  last_flush_pos s <= input_pos s ->
  compress_stream s OpFlush payload offered capn = Done (true, s', x') ->
  avail_in x' = 0 -> avail_out_ s' = 0 ->
  last_bytes_bits s' = 0 /\ sstate_ s' = SProcessing /\ next_out s' = NoNone /\
  (last_flush_pos s' = input_pos s' \/
   (input_pos s' = input_pos s /\ last_flush_pos s' = last_flush_pos s)).
Proof. exact flush_completed_aligned. Qed.
Print Assumptions C04_aligned.

(* The metadata block header written for a payload of n <= 2^24 bytes after any sub-byte
   carry (up to the 14 bits of a large-window stream header) is read back by the RFC 7932
   section 9.2 reader as "skip exactly n bytes", ends byte-aligned (zero fill bits), and
   leaves the carried bits untouched. *)
Theorem C04_metadata_header : forall lb lbb n, lbb < 15 -> lb < 2 ^ lbb -> n <= 2 ^ 24 ->
  rfc_read_metadata_header (fst (metadata_header_bits lb lbb n)) lbb
    = Some (n, 8 * ((snd (metadata_header_bits lb lbb n) + 7) / 8))
  /\ fst (metadata_header_bits lb lbb n) mod 2 ^ lbb = lb.
Proof. exact metadata_header_correct. Qed.
Print Assumptions C04_metadata_header.

(* As found (before fix 1446edb) the statement was false at n = 1: the header announced an
   empty block, so the payload byte was parsed as the next meta-block header. *)
Theorem C04_metadata_header_asfound_refuted :
  exists lb lbb, lbb < 8 /\ lb < 2 ^ lbb /\
    rfc_read_metadata_header (fst (metadata_header_bits_asfound lb lbb 1)) lbb = Some (0, 8).
Proof. exact metadata_header_asfound_refuted. Qed.
Print Assumptions C04_metadata_header_asfound_refuted.

(* Oversized metadata is refused (shared with C20). *)
Theorem C04_metadata_oversize : forall s payload offered capn,
  initialized s = true -> rem_meta s = U32MAX -> 2 ^ 24 < offered ->
  compress_stream s OpMeta payload offered capn = Done (false, update_size_hint s 0, io0 offered capn).
Proof. exact metadata_oversize_refused. Qed.
Print Assumptions C04_metadata_oversize.

(* Non-vacuity: a concrete flush that completes in one call on a state with a 3-bit carry. *)
Example C04_aligned_example :
  let a := {| a_fast := false; a_is_last := false; a_force_flush := true; a_result := true; a_inplace := false;
              a_block := 0; a_out := [11; 22; 5]; a_lb := 5; a_lbb := 3; a_ipos := 10; a_lfp := 10; a_lpp := 10;
              a_hint := 10; a_no := NoDyn 0 |} in
  let s0 := ensure_initialized init_st in
  let s1 := upd_pos (upd_misc s0 false [a]) 10 0 0 in
  match compress_stream s1 OpFlush [] 0 100 with
  | Done (true, s', x') => avail_in x' = 0 /\ avail_out_ s' = 0 /\ last_bytes_bits s' = 0 /\ produced x' = [11; 22; 5; 53; 0]
  | _ => False
  end.
Proof. vm_compute. repeat split; reflexivity. Qed.
