(* C05 - output bytes depend on input, settings and call points only, not on buffering.
   Property theorems only.

   What is a theorem here: the two ways of handing output to the caller (pushing into the
   buffer of a stream call, take_output) deliver the same bytes and leave the same encoder
   state, for every state and every amount (C05_push_take).  The full statement -- for a fixed
   sequence of (operation, chunk) calls the emitted bytes and the sequence of back-end
   requests are the same for every output-capacity schedule -- is kept below as
   C05_out_slicing_stmt; AS STATED it is false (C05_out_slicing_stmt_refuted below: its driver
   stops a PROCESS call as soon as the input is consumed, with bytes still pending).  The
   corrected statement drives every logical call to quiescence ([drive_q]: repeat the call with
   the unconsumed input until it returns with all input consumed and nothing pending) and is
   PROVED (second half of this file):
   C05_out_slicing_main / _main_seq (quality >= 2 or catable or magic, no metadata calls: same
   bytes, IDENTICAL final state, hence identical sequence of back-end answers consumed);
   C05_out_slicing_meta / _meta_seq (same path, metadata calls included: same bytes, logically
   equal final states, answer lists that agree up to the cursor an empty answer records);
   C05_out_slicing_fast / _fast_seq (quality 0/1, no metadata calls: same bytes, logically equal
   final states, answer lists that agree up to the recorded in-place flag);
   C05_out_slicing_q : C05_out_slicing_q_stmt = the corrected full statement: both paths, all four
   operations (metadata on a quality-0/1 encoder included), any sequence of logical calls.
   Not covered: schedules that interleave take_output with stream calls (C05_push_take relates
   the two step by step), and non-quiescent drivers, for which the request sequence does depend
   on the schedule (C05_nonquiescent_requests_differ).
   On every run the property is additionally decided on
   the real encoder by differential runs (output capacities 1, 2, mixed with 0, ample,
   take-output, four allocators / ABIs, two build profiles, wrappers) and the model is checked
   to reproduce the implementation's back-end request sequence under three output slicings. *)
From Coq Require Import NArith ZArith List Bool Lia.
From V Require Import lib.Words model.Stream proofs.Stream_proofs proofs.NoPanic_proofs
                      proofs.Slicing_proofs proofs.Slicing_fast proofs.Slicing_meta proofs.Slicing_fastmeta.
Import ListNotations.
Open Scope N_scope.

Theorem C05_push_take : forall s x n,
  avail_out_ s <> 0 -> n <> 0 -> cap x = n ->
  (sstate_ s = SFlushRequested -> last_bytes_bits s = 0) ->
  N.min (avail_out_ s) n <= lenN (view s) ->
  let k := N.min (avail_out_ s) n in
  exists s1 x1,
    inject_flush_or_push_output s x = Done (Some (s1, x1))
    /\ produced x1 = produced x ++ takeN k (view s)
    /\ avail_in x1 = avail_in x /\ in_off x1 = in_off x
    /\ take_output s n = Done (takeN k (view s), check_flush_complete s1).
Proof. exact push_take_same. Qed.
Print Assumptions C05_push_take.

(* driving one logical call (operation, chunk) to completion under a schedule of output
   capacities: repeat the stream call with the unconsumed input until the input is consumed
   and (for flush / finish) nothing is pending; returns the bytes delivered and the state *)
Fixpoint drive (fuel : nat) (s : st) (op : opk) (chunk : N) (caps : list N) (acc : list N)
  : option (list N * st) :=
  match fuel, caps with
  | O, _ | _, [] => None
  | S f, c :: rest =>
    match compress_stream s op [] chunk c with
    | Done (true, s', x) =>
        let left := chunk - in_off x in
        if (left =? 0) && (match op with OpProcess => true | _ => negb (has_more_output s') end)
        then Some (acc ++ produced x, s')
        else drive f s' op left rest (acc ++ produced x)
    | _ => None
    end
  end.

(* the full property, for one logical call; the sequence-of-calls version follows by
   induction.  Two schedules that both complete deliver the same bytes, consume the same
   back-end answers and end in the same observable state. *)
Definition C05_out_slicing_stmt : Prop :=
  forall fuel s op chunk caps caps' out out' s1 s2,
    initialized s = true ->
    drive fuel s op chunk caps [] = Some (out, s1) ->
    drive fuel s op chunk caps' [] = Some (out', s2) ->
    out = out' /\ oracle s1 = oracle s2 /\ sstate_ s1 = sstate_ s2 /\ input_pos s1 = input_pos s2
    /\ last_flush_pos s1 = last_flush_pos s2 /\ last_bytes s1 = last_bytes s2
    /\ last_bytes_bits s1 = last_bytes_bits s2.

(* Non-vacuity of C05_push_take: a state with 3 pending bytes, 2 requested. *)
Example C05_push_take_example :
  let s0 := ensure_initialized init_st in
  let s := upd_out s0 (NoDyn 0) [7; 8; 9] 600 (tiny s0) 3 0 in
  take_output s 2 = Done ([7; 8], upd_out s (NoDyn 2) [7; 8; 9] 600 (tiny s0) 1 2).
Proof. vm_compute. reflexivity. Qed.

(* ====================================================================================== *)
(* Output-slicing independence under quiescent driving                                       *)
(* ====================================================================================== *)

(* The statement above is too strong as written: [drive] declares a PROCESS call complete when
   its input is consumed, so a schedule that offered no room still has the block's bytes
   pending.  (The deeper obstacle, found while attempting the proof: once PROCESS calls are not
   driven to quiescence, WHEN the back end runs depends on the schedule - a block that one
   schedule encodes with force_flush = false is encoded by another inside the following
   FLUSH.) *)
Definition c05_ans_block : answer :=
  {| a_fast := false; a_is_last := false; a_force_flush := false; a_result := true; a_inplace := false;
     a_block := 0; a_out := [1; 2; 3]; a_lb := 0; a_lbb := 0; a_ipos := 262144; a_lfp := 0; a_lpp := 262144;
     a_hint := 262144; a_no := NoDyn 0 |}.

Theorem C05_out_slicing_stmt_refuted : ~ C05_out_slicing_stmt.
Proof.
  intros H.
  pose (s := upd_misc (ensure_initialized init_st) false [c05_ans_block]).
  assert (E1 : exists s1, drive 1 s OpProcess 262144 [10] [] = Some ([1; 2; 3], s1)) by (vm_compute; eexists; reflexivity).
  assert (E2 : exists s2, drive 1 s OpProcess 262144 [0] [] = Some ([], s2)) by (vm_compute; eexists; reflexivity).
  destruct E1 as [s1 E1]. destruct E2 as [s2 E2].
  destruct (H 1%nat s OpProcess 262144 [10] [0] _ _ s1 s2 eq_refl E1 E2) as [K _]. discriminate K.
Qed.
Print Assumptions C05_out_slicing_stmt_refuted.

(* [drive_q s op payload chunk caps acc] (proofs/Slicing_proofs.v): one logical call driven to
   quiescence - compress_stream is repeated with the unconsumed input, one capacity of [caps]
   per call, until a call returns true with all input consumed and nothing pending; None if a
   call fails, returns false, or the capacities run out first.  [drive_seq] chains logical calls
   (operation, input size, payload), each with its own capacity list.

   Main path (stream_loop).  Two capacity schedules that both drive the same logical call to
   quiescence from the same state deliver the same bytes and end in the SAME state - in
   particular the same remaining answer list: the back end was asked the same questions. *)
Theorem C05_out_slicing_main : forall s op payload chunk caps caps' acc out out' s1 s2,
  initialized s = true -> inv s -> all_ok2 (oracle s) -> fastcond s = false -> op <> OpMeta ->
  drive_q s op payload chunk caps acc = Some (out, s1) ->
  drive_q s op payload chunk caps' acc = Some (out', s2) ->
  out = out' /\ s1 = s2.
Proof. exact out_slicing_call. Qed.
Print Assumptions C05_out_slicing_main.

Theorem C05_out_slicing_main_seq : forall calls s capss capss' acc out out' s1 s2,
  initialized s = true -> inv s -> all_ok2 (oracle s) -> fastcond s = false ->
  Forall (fun c => fst (fst c) <> OpMeta) calls ->
  drive_seq s calls capss acc = Some (out, s1) ->
  drive_seq s calls capss' acc = Some (out', s2) ->
  out = out' /\ s1 = s2.
Proof. exact out_slicing_seq. Qed.
Print Assumptions C05_out_slicing_main_seq.

(* One-pass/two-pass path (fast_loop, quality 0/1, not catable, no magic).  The physical layout
   (in place vs staged, where padding goes) and the recorded a_inplace flag depend on the
   capacity offered, so the two runs start from logically equal states [leq s t] (all logical
   fields equal, same pending bytes, answer lists equal after erasing a_inplace; see
   C05_leq_fields) and end in logically equal states with the same bytes delivered. *)
Theorem C05_out_slicing_fast : forall s t op payload chunk caps caps' acc out out' s1 t1,
  initialized s = true -> inv s -> all_ok2 (oracle s) -> fastcond s = true ->
  initialized t = true -> inv t -> all_ok2 (oracle t) ->
  leq s t -> op <> OpMeta ->
  drive_q s op payload chunk caps acc = Some (out, s1) ->
  drive_q t op payload chunk caps' acc = Some (out', t1) ->
  out = out' /\ leq s1 t1 /\ avail_out_ s1 = 0 /\ avail_out_ t1 = 0.
Proof. exact out_slicing_call_fast. Qed.
Print Assumptions C05_out_slicing_fast.

Theorem C05_out_slicing_fast_seq : forall calls s t capss capss' acc out out' s1 t1,
  initialized s = true -> inv s -> all_ok2 (oracle s) -> fastcond s = true ->
  initialized t = true -> inv t -> all_ok2 (oracle t) ->
  leq s t ->
  Forall (fun c => fst (fst c) <> OpMeta) calls ->
  drive_seq s calls capss acc = Some (out, s1) ->
  drive_seq t calls capss' acc = Some (out', t1) ->
  out = out' /\ leq s1 t1 /\ fastcond s1 = true.
Proof. exact out_slicing_seq_fast. Qed.
Print Assumptions C05_out_slicing_fast_seq.

Theorem C05_leq_fields : forall s t, leq s t ->
  quality s = quality t /\ lgwin s = lgwin t /\ lgblock s = lgblock t /\ size_hint s = size_hint t
  /\ sstate_ s = sstate_ t /\ rem_meta s = rem_meta t
  /\ input_pos s = input_pos t /\ last_flush_pos s = last_flush_pos t /\ last_processed_pos s = last_processed_pos t
  /\ last_bytes s = last_bytes t /\ last_bytes_bits s = last_bytes_bits t
  /\ last_emitted s = last_emitted t /\ first_pending s = first_pending t
  /\ wadd64 (total_out_ s) (avail_out_ s) = wadd64 (total_out_ t) (avail_out_ t)
  /\ map erase (oracle s) = map erase (oracle t)
  /\ pend s = pend t.
Proof. exact leq_fields. Qed.
Print Assumptions C05_leq_fields.

(* Main path with metadata calls.  meta_loop moves the payload straight into the caller's
   buffer when there is room and through the 16-byte tiny buffer when there is none, so after a
   metadata block the cursor and the tiny buffer depend on the schedule, and a later encode that
   emits nothing records that cursor (a_no).  The runs therefore start from logically equal
   states [leqB s t] (every field except cursor / storage contents / tiny buffer, same pending
   bytes, answer lists equal after erasing a_no; see C05_leqB_fields) and end in logically equal
   states.  [readyM] = initialized, inv, all_ok2, not the quality-0/1 path, meta_ok. *)
Theorem C05_out_slicing_meta : forall s t op payload chunk caps caps' acc out out' s1 t1,
  readyM s -> readyM t -> leqB s t -> (op = OpMeta -> chunk <= lenN payload) ->
  drive_q s op payload chunk caps acc = Some (out, s1) ->
  drive_q t op payload chunk caps' acc = Some (out', t1) ->
  out = out' /\ leqB s1 t1 /\ readyM s1 /\ readyM t1.
Proof. exact out_slicing_call_meta. Qed.
Print Assumptions C05_out_slicing_meta.

Theorem C05_out_slicing_meta_seq : forall calls s t capss capss' acc out out' s1 t1,
  readyM s -> readyM t -> leqB s t ->
  Forall (fun c => fst (fst c) = OpMeta -> snd (fst c) <= lenN (snd c)) calls ->
  drive_seq s calls capss acc = Some (out, s1) ->
  drive_seq t calls capss' acc = Some (out', t1) ->
  out = out' /\ leqB s1 t1 /\ readyM s1 /\ readyM t1.
Proof. exact out_slicing_seq_meta. Qed.
Print Assumptions C05_out_slicing_meta_seq.

Theorem C05_leqB_fields : forall s t, leqB s t ->
  quality s = quality t /\ lgwin s = lgwin t /\ lgblock s = lgblock t /\ size_hint s = size_hint t
  /\ sstate_ s = sstate_ t /\ rem_meta s = rem_meta t
  /\ input_pos s = input_pos t /\ last_flush_pos s = last_flush_pos t /\ last_processed_pos s = last_processed_pos t
  /\ last_bytes s = last_bytes t /\ last_bytes_bits s = last_bytes_bits t
  /\ last_emitted s = last_emitted t /\ first_pending s = first_pending t
  /\ storage_size s = storage_size t
  /\ wadd64 (total_out_ s) (avail_out_ s) = wadd64 (total_out_ t) (avail_out_ t)
  /\ map erase_no (oracle s) = map erase_no (oracle t)
  /\ pend s = pend t.
Proof. exact leqB_fields. Qed.
Print Assumptions C05_leqB_fields.

(* The corrected full statement: any sequence of logical calls (metadata included), either
   path, logically equal start states ([leqU] = leq on the quality-0/1 path, leqB otherwise).
   [slicing_pre_full s] = initialized, inv, all_ok2 (oracle s), meta_ok, and on the quality-0/1
   path input_pos = last_flush_pos (menc s = false: true of every state such an encoder
   reaches, since that path never moves either counter); all of it is re-established. *)
Definition C05_out_slicing_q_stmt : Prop :=
  forall calls s t capss capss' acc out out' s1 t1,
  slicing_pre_full s -> slicing_pre_full t -> leqU s t ->
  Forall (fun c => fst (fst c) = OpMeta -> snd (fst c) <= lenN (snd c)) calls ->
  drive_seq s calls capss acc = Some (out, s1) ->
  drive_seq t calls capss' acc = Some (out', t1) ->
  out = out' /\ leqU s1 t1 /\ slicing_pre_full s1 /\ slicing_pre_full t1.

Theorem C05_out_slicing_q : C05_out_slicing_q_stmt.
Proof. exact out_slicing_full. Qed.
Print Assumptions C05_out_slicing_q.

(* the hypotheses hold for every encoder that has only seen set_parameter calls *)
Theorem C05_slicing_pre_initial : forall s o,
  fresh s -> initialized s = false -> input_pos s = last_flush_pos s -> magic s = false -> all_ok2 o ->
  slicing_pre_full (upd_misc (ensure_initialized s) (last_emitted s) o).
Proof. exact slicing_pre_initial. Qed.
Print Assumptions C05_slicing_pre_initial.

(* ---- non-vacuity: concrete states, different capacity schedules, by computation ---- *)
Definition c05_ans1 : answer :=
  {| a_fast := false; a_is_last := false; a_force_flush := true; a_result := true; a_inplace := false;
     a_block := 0; a_out := [11; 12; 13; 14; 15]; a_lb := 5; a_lbb := 3; a_ipos := 10; a_lfp := 10; a_lpp := 10;
     a_hint := 10; a_no := NoDyn 0 |}.
Definition c05_ans2 : answer :=
  {| a_fast := false; a_is_last := true; a_force_flush := false; a_result := true; a_inplace := false;
     a_block := 0; a_out := [3]; a_lb := 0; a_lbb := 0; a_ipos := 10; a_lfp := 10; a_lpp := 10;
     a_hint := 10; a_no := NoDyn 0 |}.
Definition c05_ex_main : st := upd_misc (ensure_initialized init_st) false [c05_ans1; c05_ans2].
Definition c05_ex_calls : list (opk * N * list N) := [(OpProcess, 5, []); (OpFlush, 5, []); (OpFinish, 0, [])].


(* process 5 bytes, 5 more and flush (5 bytes + 2 bytes of padding), finish (1 byte): ample
   buffers vs. buffers of 0, 1, 2 bytes *)
Example C05_out_slicing_main_example :
  initialized c05_ex_main = true /\ inv c05_ex_main /\ all_ok2 (oracle c05_ex_main) /\ fastcond c05_ex_main = false
  /\ exists sf,
       drive_seq c05_ex_main c05_ex_calls [[7]; [100]; [100]] [] = Some ([11; 12; 13; 14; 15; 53; 0; 3], sf)
    /\ drive_seq c05_ex_main c05_ex_calls [[0]; [0; 2; 0; 1; 10]; [0; 1]] [] = Some ([11; 12; 13; 14; 15; 53; 0; 3], sf)
    /\ oracle sf = [] /\ sstate_ sf = SFinished.
Proof.
  split; [reflexivity|]. split; [apply inv_upd_misc; exact inv_init|].
  split; [repeat constructor; vm_compute; reflexivity|]. split; [reflexivity|].
  eexists. split; [vm_compute; reflexivity|]. split; [vm_compute; reflexivity|]. split; reflexivity.
Qed.

Definition c05_fa1 (ip : bool) : answer :=
  {| a_fast := true; a_is_last := false; a_force_flush := false; a_result := true; a_inplace := ip;
     a_block := 100; a_out := [21; 22; 23; 24; 25; 26]; a_lb := 5; a_lbb := 3; a_ipos := 0; a_lfp := 0; a_lpp := 0;
     a_hint := 0; a_no := NoNone |}.
Definition c05_fa2 (ip : bool) : answer :=
  {| a_fast := true; a_is_last := true; a_force_flush := false; a_result := true; a_inplace := ip;
     a_block := 0; a_out := [3]; a_lb := 0; a_lbb := 0; a_ipos := 0; a_lfp := 0; a_lpp := 0;
     a_hint := 0; a_no := NoNone |}.
Definition c05_ex_q0 : st := ensure_initialized (snd (set_parameter init_st 1 0)).
Definition c05_ex_fs : st := upd_misc c05_ex_q0 false [c05_fa1 true; c05_fa2 true].
Definition c05_ex_ft : st := upd_misc c05_ex_q0 false [c05_fa1 false; c05_fa2 false].
Definition c05_ex_fcalls : list (opk * N * list N) := [(OpProcess, 100, []); (OpFlush, 0, []); (OpFinish, 0, [])].

(* quality 0: ample buffers (blocks compressed in place, padding via the tiny buffer) vs. small
   buffers (blocks staged, padding behind them); the final cursors differ, the logical states
   and the bytes do not *)
Example C05_out_slicing_fast_example :
  initialized c05_ex_fs = true /\ inv c05_ex_fs /\ all_ok2 (oracle c05_ex_fs) /\ fastcond c05_ex_fs = true
  /\ initialized c05_ex_ft = true /\ inv c05_ex_ft /\ all_ok2 (oracle c05_ex_ft) /\ leq c05_ex_fs c05_ex_ft
  /\ exists sf tf,
       drive_seq c05_ex_fs c05_ex_fcalls [[1000]; [100]; [600]] [] = Some ([21; 22; 23; 24; 25; 26; 53; 0; 3], sf)
    /\ drive_seq c05_ex_ft c05_ex_fcalls [[2; 0; 3; 700]; [0; 1; 5]; [0; 1]] [] = Some ([21; 22; 23; 24; 25; 26; 53; 0; 3], tf)
    /\ next_out sf = NoNone /\ next_out tf = NoDyn 1.
Proof.
  assert (Hq : inv c05_ex_q0).
  { pose proof (fresh_inv (snd (set_parameter init_st 1 0)) (fresh_set_parameter _ 1 0 fresh_init) eq_refl) as [H _]. exact H. }
  split; [reflexivity|]. split; [apply inv_upd_misc; exact Hq|].
  split; [repeat constructor; vm_compute; reflexivity|]. split; [reflexivity|].
  split; [reflexivity|]. split; [apply inv_upd_misc; exact Hq|].
  split; [repeat constructor; vm_compute; reflexivity|]. split; [split; vm_compute; reflexivity|].
  eexists. eexists. split; [vm_compute; reflexivity|]. split; [vm_compute; reflexivity|]. split; reflexivity.
Qed.

Definition c05_m1 : answer :=
  {| a_fast := false; a_is_last := false; a_force_flush := true; a_result := true; a_inplace := false;
     a_block := 0; a_out := [11; 12; 13]; a_lb := 5; a_lbb := 3; a_ipos := 5; a_lfp := 5; a_lpp := 5;
     a_hint := 5; a_no := NoDyn 0 |}.
Definition c05_ex_meta : st := upd_misc (ensure_initialized init_st) false [c05_m1].
Definition c05_ex_payload : list N :=
  [100; 101; 102; 103; 104; 105; 106; 107; 108; 109; 110; 111; 112; 113; 114; 115; 116; 117; 118; 119].
Definition c05_ex_mcalls : list (opk * N * list N) := [(OpProcess, 5, []); (OpMeta, 20, c05_ex_payload)].

(* 5 bytes of input, then a 20-byte metadata block (flushes the input: 3 bytes, then a 3-byte
   header, then the payload): ample buffers vs. buffers of 0..3 bytes, where the payload goes
   through the tiny buffer; the final cursors and tiny buffers differ, the logical states and
   the bytes do not *)
Example C05_out_slicing_meta_example :
  readyM c05_ex_meta
  /\ exists sf tf,
       drive_seq c05_ex_meta c05_ex_mcalls [[100]; [100]] []
       = Some ([11; 12; 13; 181; 38; 0] ++ c05_ex_payload, sf)
    /\ drive_seq c05_ex_meta c05_ex_mcalls [[0]; [0; 1; 0; 3; 0; 0; 2; 30]] []
       = Some ([11; 12; 13; 181; 38; 0] ++ c05_ex_payload, tf)
    /\ next_out sf = NoTiny 3 /\ next_out tf = NoTiny 16 /\ tiny sf <> tiny tf /\ leqB sf tf.
Proof.
  split.
  - split; [reflexivity|]. split; [apply inv_upd_misc; exact inv_init|].
    split; [repeat constructor; vm_compute; reflexivity|]. split; [reflexivity|].
    intros [H|H]; discriminate H.
  - eexists. eexists. split; [vm_compute; reflexivity|]. split; [vm_compute; reflexivity|].
    split; [reflexivity|]. split; [reflexivity|]. split; [intros H; discriminate H|].
    split; vm_compute; reflexivity.
Qed.

(* quality 0 with a metadata block between the data and the end of the stream *)
Definition c05_ex_fmcalls : list (opk * N * list N) :=
  [(OpProcess, 100, []); (OpMeta, 20, c05_ex_payload); (OpFinish, 0, [])].

Example C05_out_slicing_q_example :
  slicing_pre_full c05_ex_fs /\ slicing_pre_full c05_ex_ft /\ leqU c05_ex_fs c05_ex_ft
  /\ exists sf tf,
       drive_seq c05_ex_fs c05_ex_fmcalls [[1000]; [100]; [600]] []
       = Some ([21; 22; 23; 24; 25; 26; 181; 38; 0] ++ c05_ex_payload ++ [3], sf)
    /\ drive_seq c05_ex_ft c05_ex_fmcalls [[2; 0; 3; 700]; [0; 1; 0; 3; 0; 0; 2; 30]; [0; 1]] []
       = Some ([21; 22; 23; 24; 25; 26; 181; 38; 0] ++ c05_ex_payload ++ [3], tf)
    /\ next_out sf = NoTiny 3 /\ next_out tf = NoDyn 1.
Proof.
  assert (Hq : inv c05_ex_q0).
  { pose proof (fresh_inv (snd (set_parameter init_st 1 0)) (fresh_set_parameter _ 1 0 fresh_init) eq_refl) as [H _]. exact H. }
  assert (P : forall o, all_ok2 o -> slicing_pre_full (upd_misc c05_ex_q0 false o)).
  { intros o Ho. split; [reflexivity|]. split; [apply inv_upd_misc; exact Hq|]. split; [exact Ho|].
    split; [intros [H|H]; discriminate H|reflexivity]. }
  split; [apply P; repeat constructor; vm_compute; reflexivity|].
  split; [apply P; repeat constructor; vm_compute; reflexivity|].
  split; [split; vm_compute; reflexivity|].
  eexists. eexists. split; [vm_compute; reflexivity|]. split; [vm_compute; reflexivity|]. split; reflexivity.
Qed.

(* Why quiescent driving is needed: the same two PROCESS calls of one full block each, offered no
   room.  Driven to quiescence, the second block is encoded with force_flush = false (both
   recorded answers are consumed).  A driver that moves on as soon as the input is consumed
   leaves the second block unencoded behind the pending bytes of the first, and the following
   FLUSH asks the back end for that block with force_flush = true: a different request
   (Mismatch 13 against the recorded one).  The schedule-independence of the request sequence
   is a property of quiescent drivers only. *)
Definition c05_ans_block2 : answer :=
  {| a_fast := false; a_is_last := false; a_force_flush := false; a_result := true; a_inplace := false;
     a_block := 0; a_out := [4; 5]; a_lb := 0; a_lbb := 0; a_ipos := 524288; a_lfp := 0; a_lpp := 524288;
     a_hint := 262144; a_no := NoDyn 0 |}.
Definition c05_ex_nq : st := upd_misc (ensure_initialized init_st) false [c05_ans_block; c05_ans_block2].

Example C05_nonquiescent_requests_differ :
  (exists sA, drive_seq c05_ex_nq [(OpProcess, 262144, []); (OpProcess, 262144, [])] [[0; 10]; [0; 10]] []
              = Some ([1; 2; 3; 4; 5], sA) /\ oracle sA = [])
  /\ exists s1 x1 s2 x2,
       compress_stream c05_ex_nq OpProcess [] 262144 0 = Done (true, s1, x1) /\ in_off x1 = 262144
    /\ compress_stream s1 OpProcess [] 262144 0 = Done (true, s2, x2) /\ in_off x2 = 262144
    /\ oracle s2 = [c05_ans_block2]
    /\ compress_stream s2 OpFlush [] 0 100 = Mismatch 13.
Proof.
  split.
  - eexists. split; [vm_compute; reflexivity|reflexivity].
  - eexists. eexists. eexists. eexists.
    split; [vm_compute; reflexivity|]. split; [reflexivity|].
    split; [vm_compute; reflexivity|]. split; [reflexivity|]. split; [reflexivity|].
    vm_compute. reflexivity.
Qed.
