(* C05 - output bytes depend on input, settings and call points only, not on buffering.
   Property theorems only.

   What is a theorem here: the two ways of handing output to the caller (pushing into the
   buffer of a stream call, take_output) deliver the same bytes and leave the same encoder
   state, for every state and every amount (C05_push_take).  The full statement -- for a fixed
   sequence of (operation, chunk) calls the emitted bytes and the sequence of back-end
   requests are the same for every output-capacity schedule -- is kept below as
   C05_out_slicing_stmt and is NOT yet proved in Coq; on every run it is decided on the real
   encoder by differential runs (output capacities 1, 2, mixed with 0, ample, take-output,
   four allocators / ABIs, two build profiles, wrappers) and the model is checked to
   reproduce the implementation's back-end request sequence under three output slicings. *)
From Coq Require Import NArith List Bool.
From V Require Import lib.Words model.Stream proofs.Stream_proofs.
Import ListNotations.
Open Scope N_scope.

Theorem C05_push_take : forall s x n,
  avail_out_ s <> 0 -> n <> 0 -> cap x = n ->
  (sstate_ s = SFlushRequested -> last_bytes_bits s = 0) ->
  N.min (avail_out_ s) n <= lenN (view s) ->
  let k := N.min (avail_out_ s) n in
  exists s1 x1,
    inject_flush_or_push_output s x = Done (Some (s1, x1))
    /\ produced x1 = produced x ++ takeN k (view s)
    /\ avail_in x1 = avail_in x /\ in_off x1 = in_off x
    /\ take_output s n = Done (takeN k (view s), check_flush_complete s1).
Proof. exact push_take_same. Qed.
Print Assumptions C05_push_take.

(* driving one logical call (operation, chunk) to completion under a schedule of output
   capacities: repeat the stream call with the unconsumed input until the input is consumed
   and (for flush / finish) nothing is pending; returns the bytes delivered and the state *)
Fixpoint drive (fuel : nat) (s : st) (op : opk) (chunk : N) (caps : list N) (acc : list N)
  : option (list N * st) :=
  match fuel, caps with
  | O, _ | _, [] => None
  | S f, c :: rest =>
    match compress_stream s op [] chunk c with
    | Done (true, s', x) =>
        let left := chunk - in_off x in
        if (left =? 0) && (match op with OpProcess => true | _ => negb (has_more_output s') end)
        then Some (acc ++ produced x, s')
        else drive f s' op left rest (acc ++ produced x)
    | _ => None
    end
  end.

(* the full property, for one logical call; the sequence-of-calls version follows by
   induction.  Two schedules that both complete deliver the same bytes, consume the same
   back-end answers and end in the same observable state. *)
Definition C05_out_slicing_stmt : Prop :=
  forall fuel s op chunk caps caps' out out' s1 s2,
    initialized s = true ->
    drive fuel s op chunk caps [] = Some (out, s1) ->
    drive fuel s op chunk caps' [] = Some (out', s2) ->
    out = out' /\ oracle s1 = oracle s2 /\ sstate_ s1 = sstate_ s2 /\ input_pos s1 = input_pos s2
    /\ last_flush_pos s1 = last_flush_pos s2 /\ last_bytes s1 = last_bytes s2
    /\ last_bytes_bits s1 = last_bytes_bits s2.

(* Non-vacuity of C05_push_take: a state with 3 pending bytes, 2 requested. *)
Example C05_push_take_example :
  let s0 := ensure_initialized init_st in
  let s := upd_out s0 (NoDyn 0) [7; 8; 9] 600 (tiny s0) 3 0 in
  take_output s 2 = Done ([7; 8], upd_out s (NoDyn 2) [7; 8; 9] 600 (tiny s0) 1 2).
Proof. vm_compute. reflexivity. Qed.
