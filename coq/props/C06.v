(* C06 - multi-threaded output is a function of input, settings and thread count only.
   Property theorems only; every proof is `exact <lemma>`.  Model: model/Multi.v; proofs:
   proofs/Multi_proofs.v, proofs/MultiHasher_proofs.v (which uses C19's split theorems of
   proofs/Hashers_proofs.v).

   Reading guide (see also props/C02.v)
   * `sched`: spawner kind (Inline | ThreadPerJob | Pool), for the pool the work id of the first
     job (0 on a fresh pool, anything on a reused one) and the order in which the spawned jobs
     deliver their results, and the faults a spawner may inject.  `sched_ok sc t`: no faults; a
     pool delivers every spawned job's result (in any order) and t <= 16.
   * `shared_ranges ver pr ov t n i`: the [s, e) ranges CompressMulti has stored into the shared
     hasher when it clones it for job i (ov = StoreLookahead - 1);
     `supplied_index call st pcs`: those ranges stored one after the other with `call`;
     `local_index call st ov size`: what StoreLookaheadThenStore stores for a dictionary of
     `size` bytes - the index job i builds itself from its (untruncated) prefix. *)
From Coq Require Import NArith ZArith List Bool.
From V Require Import lib.Words gen.GenMulti model.Multi proofs.Multi_proofs.
From V Require Import lib.Finite gen.GenHashers model.Hashers spec.HasherSpec proofs.Hashers_proofs proofs.MultiHasher_proofs.
Import ListNotations.
Open Scope N_scope.

(* the model the theorems are about is the code that is in /repo now: the version flags and the
   anchors below are read off the source on every check (gen/GenMulti.v) *)
Theorem C06_model_is_current :
  Current = Multi.Repaired /\ multi_get_range_is_floor_split = true /\ multi_job_flag_overrides = true /\
  multi_dev_profile_compares_hasher = true /\ multi_hands_input_back = true /\
  multi_dict_window_after_sanitize = true /\ MULTI_EARLY_RETURNS = 1.
Proof. exact current_is_repaired. Qed.
Print Assumptions C06_model_is_current.

(* the result is the stitching of the job results in index order: the spawner, the completion
   order and the work ids of the pool do not occur on the right-hand side *)
Theorem C06_schedule :
  forall run_job job_bytes index_agrees (cstate : Type) cat_init cat_stream cat_finish
         ver pr fuel ov sc p t n cap ex,
  0 < t -> sched_ok sc t ->
  execs_of run_job job_bytes index_agrees ver pr fuel ov p t n = Some ex -> all_returned ex ->
  compress_multi run_job job_bytes index_agrees cstate cat_init cat_stream cat_finish
                 ver pr fuel ov sc p t n true cap
  = stitch cstate cat_init cat_stream cat_finish ver cap true (map conv ex).
Proof. exact multi_schedule. Qed.
Print Assumptions C06_schedule.

(* "jobs that return" cannot be dropped: a job that panics ends as a panic of the call (inline),
   as Err(ThreadExecError) (thread per job) or as a join that never returns (pool) *)
Theorem C06_panicking_job_witness :
  let run sc := compress_multi (toy_run None None) toy_bytes (fun ji _ => negb (ji_index ji =? 1)) unit tt
                               toy_cat_stream toy_cat_finish Multi.Repaired Dev 4 3 sc
                               (mkParams 5 22 false false false false true 0) 3 30 true 100 in
  run (toy_sched Inline [] None) = OPanic /\
  run (toy_sched ThreadPerJob [] None) = OReturned (mkRet (RErr ThreadExecError) [0] true) /\
  run (toy_sched Pool [0; 1] None) = OHang.
Proof. exact panicking_job_by_spawner. Qed.
Print Assumptions C06_panicking_job_witness.

(* what CompressMulti has stored when it hands the hasher to job i: consecutive ranges from 0
   to start_i - overlap - for every thread count, every n with t * n < 2^64, every overlap *)
Theorem C06_hasher_ranges :
  forall pr ov t n i, 0 < t -> t * n < 2 ^ 64 -> i <= t ->
  exists pcs, shared_ranges Multi.Repaired pr ov t n i = Bound.Ok pcs /\
              contiguous_from 0 pcs /\ last_end 0 pcs = i * n / t - ov.
Proof. exact shared_ranges_repaired. Qed.
Print Assumptions C06_hasher_ranges.

(* a job compares or uses a supplied hasher only when its prefix was not cut to the window:
   the prefix is input[0 .. start) with positions from 0, as in the shared hasher *)
Theorem C06_hasher_untruncated :
  forall pr p size has_opt,
  let dd := set_custom_dictionary Multi.Repaired pr p size has_opt in
  (dd_mode dd = HChecked \/ dd_mode dd = HSupplied) ->
  has_opt = true /\ dd_custom dd = true /\ dd_offset dd = 0 /\ dd_size dd = size /\ 0 < size.
Proof. exact dict_supplied_untruncated. Qed.
Print Assumptions C06_hasher_untruncated.

(* hand-off = local build, for any update entry point that satisfies the split law *)
Theorem C06_hasher :
  forall (S : Type) (call : S -> N -> N -> res S) st0 pr ov t n i,
  0 < t -> t * n < 2 ^ 64 -> i <= t ->
  (forall cuts, cuts <> [] -> ascending 0 cuts -> last_cut 0 cuts = i * n / t - ov ->
                pieces call cuts 0 (Ok st0) = call st0 0 (last_cut 0 cuts)) ->
  exists pcs, shared_ranges Multi.Repaired pr ov t n i = Bound.Ok pcs /\
              supplied_index call st0 pcs = local_index call st0 ov (i * n / t).
Proof. exact @handoff_repaired. Qed.
Print Assumptions C06_hasher.

(* ... discharged for every hasher kind by C19 (d = the whole input, no mask) *)
Theorem C06_hasher_H2 : forall pr t n i d st, 0 < t -> t * n < 2 ^ 64 -> i <= t -> n <= blen d -> n < 2 ^ 63 ->
  exists pcs, shared_ranges Multi.Repaired pr 7 t n i = Bound.Ok pcs /\
    supplied_index (basic_bulk_store_range Hashers.Repaired H2p d USIZE_MAX) st pcs
    = local_index (basic_bulk_store_range Hashers.Repaired H2p d USIZE_MAX) st 7 (i * n / t).
Proof. exact (handoff_basic H2p bp_ok_H2). Qed.
Print Assumptions C06_hasher_H2.
Theorem C06_hasher_H3 : forall pr t n i d st, 0 < t -> t * n < 2 ^ 64 -> i <= t -> n <= blen d -> n < 2 ^ 63 ->
  exists pcs, shared_ranges Multi.Repaired pr 7 t n i = Bound.Ok pcs /\
    supplied_index (basic_bulk_store_range Hashers.Repaired H3p d USIZE_MAX) st pcs
    = local_index (basic_bulk_store_range Hashers.Repaired H3p d USIZE_MAX) st 7 (i * n / t).
Proof. exact (handoff_basic H3p bp_ok_H3). Qed.
Print Assumptions C06_hasher_H3.
Theorem C06_hasher_H4 : forall pr t n i d st, 0 < t -> t * n < 2 ^ 64 -> i <= t -> n <= blen d -> n < 2 ^ 63 ->
  exists pcs, shared_ranges Multi.Repaired pr 7 t n i = Bound.Ok pcs /\
    supplied_index (basic_bulk_store_range Hashers.Repaired H4p d USIZE_MAX) st pcs
    = local_index (basic_bulk_store_range Hashers.Repaired H4p d USIZE_MAX) st 7 (i * n / t).
Proof. exact (handoff_basic H4p bp_ok_H4). Qed.
Print Assumptions C06_hasher_H4.
Theorem C06_hasher_H54 : forall pr t n i d st, 0 < t -> t * n < 2 ^ 64 -> i <= t -> n <= blen d -> n < 2 ^ 63 ->
  exists pcs, shared_ranges Multi.Repaired pr 7 t n i = Bound.Ok pcs /\
    supplied_index (basic_bulk_store_range Hashers.Repaired H54p d USIZE_MAX) st pcs
    = local_index (basic_bulk_store_range Hashers.Repaired H54p d USIZE_MAX) st 7 (i * n / t).
Proof. exact (handoff_basic H54p bp_ok_H54). Qed.
Print Assumptions C06_hasher_H54.
(* H5, H5q5, H5q7: the AdvHasher kinds with a 4-byte hash (adv32_ok is what C19 shows of each) *)
Theorem C06_hasher_H5_family : forall pr t n i d st, adv32_ok (a_spec st) -> adv_lens_ok st = true ->
  0 < t -> t * n < 2 ^ 64 -> i <= t -> n <= blen d -> n < 2 ^ 63 ->
  exists pcs, shared_ranges Multi.Repaired pr 3 t n i = Bound.Ok pcs /\
    supplied_index (adv_bulk_store_range d USIZE_MAX) st pcs = local_index (adv_bulk_store_range d USIZE_MAX) st 3 (i * n / t).
Proof. exact handoff_adv32. Qed.
Print Assumptions C06_hasher_H5_family.
Theorem C06_hasher_H6 : forall pr ov t n i d st, ak (a_spec st) = AK_H6 -> 0 < t -> t * n < 2 ^ 64 -> i <= t ->
  exists pcs, shared_ranges Multi.Repaired pr ov t n i = Bound.Ok pcs /\
    supplied_index (adv_bulk_store_range d USIZE_MAX) st pcs = local_index (adv_bulk_store_range d USIZE_MAX) st ov (i * n / t).
Proof. exact handoff_h6. Qed.
Print Assumptions C06_hasher_H6.
Theorem C06_hasher_H9 : forall pr ov t n i d st, 0 < t -> t * n < 2 ^ 64 -> i <= t ->
  exists pcs, shared_ranges Multi.Repaired pr ov t n i = Bound.Ok pcs /\
    supplied_index (h9_bulk_store_range d USIZE_MAX) st pcs = local_index (h9_bulk_store_range d USIZE_MAX) st ov (i * n / t).
Proof. exact handoff_h9. Qed.
Print Assumptions C06_hasher_H9.
Theorem C06_hasher_H10 : forall pr ov t n i d st, 0 < t -> t * n < 2 ^ 64 -> i <= t ->
  exists pcs, shared_ranges Multi.Repaired pr ov t n i = Bound.Ok pcs /\
    supplied_index (h10_bulk_store_range d USIZE_MAX) st pcs = local_index (h10_bulk_store_range d USIZE_MAX) st ov (i * n / t).
Proof. exact handoff_h10. Qed.
Print Assumptions C06_hasher_H10.

(* a hasher that is kept unseen (an ignored prefix near the start of the input) or compared for a
   prefix no longer than the lookahead is empty, like a fresh one *)
Theorem C06_hasher_kept_empty :
  forall pr ov t n i, 0 < t -> t * n < 2 ^ 64 -> i <= t -> i * n / t <= ov ->
  shared_ranges Multi.Repaired pr ov t n i = Bound.Ok [].
Proof. exact short_prefix_supplied_empty. Qed.
Print Assumptions C06_hasher_kept_empty.

(* the option on against off: same outcome (result, bytes, hand-back), for every spawner and
   schedule, given that the compressor does not see where its index came from and that the
   comparison of the two indexes succeeds - the two facts C06_hasher_* establish *)
Theorem C06_favor :
  forall run_job job_bytes index_agrees (cstate : Type) cat_init cat_stream cat_finish
         pr fuel ov sc p t n owned cap,
  compressor_blind run_job job_bytes -> index_always_agrees index_agrees ->
  0 < t -> t * n < 2 ^ 64 -> s_view_fail sc = 0 ->
  compress_multi run_job job_bytes index_agrees cstate cat_init cat_stream cat_finish
                 Multi.Repaired pr fuel ov sc (with_favor p true) t n owned cap
  = compress_multi run_job job_bytes index_agrees cstate cat_init cat_stream cat_finish
                   Multi.Repaired pr fuel ov sc (with_favor p false) t n owned cap.
Proof. exact multi_favor. Qed.
Print Assumptions C06_favor.

(* ---- the code as found ---- *)
(* a prefix longer than the window: the supplied index holds positions of the whole input, the
   job's own index positions of the tail it kept - different tables (H9, quality 9, lgwin 10,
   2 jobs, 2200 bytes); as found the supplied one was compared (dev profile: assertion failure)
   or used (release: different bytes).  Replayed on the real code: quality 9, lgwin 13, 7 threads,
   12 KiB of text. *)
Theorem C06_hasher_truncated_refuted :
  let p := mkParams 9 10 false false false false true 0 in
  let dd := set_custom_dictionary Multi.AsFound Dev (job_pre_params 1 p) 1100 true in
  dd_mode dd = HChecked /\ dd_offset dd = 92 /\ dd_size dd = 1008 /\
  shared_ranges Multi.AsFound Dev 3 2 2200 1 = Bound.Ok [(0, 1097)] /\
  res_h9_eqb (supplied_index (h9_bulk_store_range wit_data USIZE_MAX) h9_init [(0, 1097)])
             (local_index (h9_bulk_store_range (view wit_data 92 1008) USIZE_MAX) h9_init 3 1008) = false /\
  dd_mode (set_custom_dictionary Multi.Repaired Dev (job_pre_params 1 p) 1100 true) = HLocal.
Proof. exact truncated_prefix_index_differs. Qed.
Print Assumptions C06_hasher_truncated_refuted.

(* chunks no longer than the lookahead were left out of the shared hasher (3 jobs, 10 bytes):
   job 2 was supplied an empty index where it builds one with three positions.  Replayed on the
   real code: quality 5, 3 threads, 10 bytes - assertion failure in the dev profile. *)
Theorem C06_hasher_short_chunks_refuted :
  shared_ranges Multi.AsFound Dev 3 3 10 2 = Bound.Ok [] /\
  res_h9_eqb (supplied_index (h9_bulk_store_range wit_data USIZE_MAX) h9_init [])
             (local_index (h9_bulk_store_range wit_data USIZE_MAX) h9_init 3 6) = false /\
  shared_ranges Multi.Repaired Dev 3 3 10 2 = Bound.Ok [(0, 3)] /\
  res_h9_eqb (supplied_index (h9_bulk_store_range wit_data USIZE_MAX) h9_init [(0, 3)])
             (local_index (h9_bulk_store_range wit_data USIZE_MAX) h9_init 3 6) = true.
Proof. exact short_chunks_index_differs. Qed.
Print Assumptions C06_hasher_short_chunks_refuted.

(* non-vacuity: a reused pool delivering out of order and a fresh inline run agree on a
   three-job run that succeeds *)
Example C06_nonvacuous :
  toy_multi Multi.Repaired None None (toy_sched Pool [1; 0] None) 3 30 100
  = toy_multi Multi.Repaired None None (mkSched Inline 0 [] None 0 true) 3 30 100 /\
  toy_multi Multi.Repaired None None (toy_sched Pool [1; 0] None) 3 30 100
  = OReturned (mkRet (ROk 6) [0; 1; 1; 2; 2; 2] true) /\
  sched_ok (toy_sched Pool [1; 0] None) 3.
Proof.
  split; [vm_compute; reflexivity|]. split; [exact toy_success|].
  split; [reflexivity|]. split; [reflexivity|]. split; [reflexivity|].
  intros _. split; [discriminate|]. intros i Hi.
  assert (i = 0 \/ i = 1) as [-> | ->] by (destruct i as [|[p|p|]]; try (left; reflexivity); try (right; reflexivity); exfalso; revert Hi; clear; intros Hi; destruct p; cbn in Hi; discriminate).
  - right; left; reflexivity.
  - left; reflexivity.
Qed.
