(* C07 - worker pool: each job runs once, results are routed correctly, no deadlock; the fixed-capacity
   queue is a bounded FIFO with first-match removal.
   Property theorems only; every proof is `exact <lemma>`.  The model (model/Pool.v) is a line-by-line
   transcription of src/enc/fixed_queue.rs and of the critical sections of src/enc/worker_pool.rs; MAX_THREADS,
   the comparison in spawn's back-pressure test and the initial WorkQueue come from gen/GenPool.v, regenerated
   from /repo on every check.

   Quantifiers.  `jf` (the value a job body computes from its payload) and `job_ok` (does the body return)
   are arbitrary; the hypothesis `forall a, job_ok a = true` (job bodies return: they neither panic nor - as a
   step of the transition system - block) is visible in every statement that needs it.  The number of workers
   `n` is arbitrary (the code starts 1..16).  `reachable jf job_ok n s`: s is the state after any trace, shorter
   than 2^63 steps (`reachable_in .. k s`: of exactly k steps), of the transition system from `init n` in which every batch (make_spawner) is started when
   nothing is outstanding and has at most 15 spawns (`bdisc_trace`); all interleavings of the workers and the
   submitter, including spurious wake-ups, are traces. *)
From Coq Require Import NArith List Permutation.
From V Require Import lib.Words gen.GenPool spec.PoolSpec model.Pool
  proofs.Queue_proofs proofs.Pool_inv proofs.Pool_proofs proofs.Pool_live proofs.Pool_final proofs.Pool_measure.
Import ListNotations.
Open Scope N_scope.

(* ---------------------------------------------------------------------------------------------- FixedQueue *)
(* Every operation sequence (push / pop / remove f / size / can_push / how_much_free_space) on a new FixedQueue
   gives exactly the answers of a list of capacity 16: push fails exactly when 16 elements are queued, pop is
   FIFO, nothing panics (the `assert!` in remove and the usize arithmetic included). *)
Theorem C07_queue : forall (T : Type) (ops : list (qop T)),
  N.of_nat (length ops) < 2 ^ 63 -> fq_run fq_new ops = Ok (qs_run 16 [] ops).
Proof. exact (@queue_refines_spec). Qed.
Print Assumptions C07_queue.

(* what the list queue guarantees for remove: the first match is returned, the old head takes its place,
   the multiset of the remaining elements is unchanged *)
Theorem C07_queue_remove : forall (T : Type) (g : T -> bool) (l l' : list T) (x : T),
  qs_remove g l = (Some x, l') ->
  exists pre post, l = pre ++ x :: post /\ g x = true /\ Forall (fun y => g y = false) pre
                   /\ l' = hole_fill pre post /\ Permutation l (x :: l').
Proof. exact (@qs_remove_some). Qed.
Print Assumptions C07_queue_remove.

(* ---------------------------------------------------------------------------------------------- safety *)
(* No trace under the discipline panics (neither `.push(..).unwrap()`, no overflow, no failed assertion), and
   every state it reaches satisfies the invariant of DESIGN appendix D (Core: I1, I2, I4, I5, routing) and I3. *)
Theorem C07_safety : forall (jf : N -> N) (job_ok : N -> bool), (forall a, job_ok a = true) ->
  forall (n : nat) (tr : list move),
    N.of_nat (length tr) < 2 ^ 63 -> bdisc_trace jf job_ok (init n) tr ->
    match run jf job_ok (init n) tr with
    | None => True                                   (* some move of tr was not enabled *)
    | Some (Panic _) => False
    | Some (Ok s) => Inv jf s /\ BInv s /\ Bnd (N.of_nat (length tr)) s
    end.
Proof. exact thm_safety. Qed.
Print Assumptions C07_safety.

(* each job body runs at most once, ever *)
Theorem C07_once : forall jf job_ok, (forall a, job_ok a = true) -> forall n s,
  reachable jf job_ok n s -> forall w, (exec_count s w <= 1)%nat.
Proof. exact thm_once. Qed.
Print Assumptions C07_once.

(* a join that returned: its job ran exactly once, and the value is that job's (the job with that work id is
   unique among everything ever submitted) *)
Theorem C07_routed : forall jf job_ok, (forall a, job_ok a = true) -> forall n s,
  reachable jf job_ok n s -> forall w v, In (w, v) (joined s) ->
  exec_count s w = 1%nat /\
  exists j, In j (spawned s) /\ j_id j = w /\ v = jf (j_arg j)
            /\ (forall j', In j' (spawned s) -> j_id j' = w -> j' = j).
Proof. exact thm_routed. Qed.
Print Assumptions C07_routed.

(* the executable specification that the check applies to runs of the real pool holds of every reachable state *)
Theorem C07_spec : forall jf job_ok, (forall a, job_ok a = true) -> forall n s,
  reachable jf job_ok n s -> spec_ok jf (summary_of s true) = true.
Proof. exact thm_spec. Qed.
Print Assumptions C07_spec.

(* ---------------------------------------------------------------------------------------------- ownership *)
(* once every join handle has been consumed, the spawner Arc has strong count 1: try_unwrap succeeds *)
Theorem C07_owner : forall jf job_ok, (forall a, job_ok a = true) -> forall n s a,
  reachable jf job_ok n s -> handles s = [] -> sub s = SIdle -> cur_arc s = Some a -> strong s a = 1.
Proof. exact thm_owner. Qed.
Print Assumptions C07_owner.

(* ---------------------------------------------------------------------------------------------- no lost wake-up *)
(* I4: a thread blocked un-notified has a false wait condition (worker: no job queued, no shutdown; submitter in
   join w: no result for w), and if the submitter is blocked, or a job is queued or running, some worker is enabled *)
Theorem C07_nolost : forall jf job_ok, (forall a, job_ok a = true) -> forall n s,
  reachable jf job_ok n s ->
  exists lj lr, Rep (jobs (wq s)) lj /\ Rep (results (wq s)) lr /\
    (forall t, In t (waiters s) -> wait_ok s lj lr t) /\
    (wpcs s <> [] ->
     In 0%nat (waiters s) \/ (immediate_shutdown (wq s) = false /\ (lj <> [] \/ 0 < num_in_progress (wq s))) ->
     exists i, enabled jf job_ok s (MWorker i) = true).
Proof. exact thm_nolost. Qed.
Print Assumptions C07_nolost.

(* no reachable state is a deadlock *)
Theorem C07_deadlock_free : forall jf job_ok, (forall a, job_ok a = true) -> forall n s,
  reachable jf job_ok n s -> wpcs s <> [] ->
  sub s = SIdle
  \/ (sub s = SDone /\ forall i pc, nth_error (wpcs s) i = Some pc -> pc = WExited)
  \/ exists m, thread_move m /\ enabled jf job_ok s m = true.
Proof. exact thm_deadlock_free. Qed.
Print Assumptions C07_deadlock_free.

(* ---------------------------------------------------------------------------------------------- drop *)
(* After Drop's critical section (immediate_shutdown set, everybody notified) a worker that has not exited is
   enabled, each of its own steps brings it one closer to exit (at most 4: finish the job in hand, publish,
   see the flag), nobody else moves its program counter, and the flag is never reset. *)
Theorem C07_drop : forall jf job_ok, (forall a, job_ok a = true) -> forall n s,
  reachable jf job_ok n s -> immediate_shutdown (wq s) = true ->
  forall i pc, nth_error (wpcs s) i = Some pc ->
    (wdist pc <= 4)%nat /\
    (pc <> WExited -> enabled jf job_ok s (MWorker i) = true) /\
    (forall s', step jf job_ok s (MWorker i) = Some (Ok s') ->
       exists pc', nth_error (wpcs s') i = Some pc' /\ S (wdist pc') = wdist pc /\ immediate_shutdown (wq s') = true) /\
    (forall m s', step jf job_ok s m = Some (Ok s') -> m <> MWorker i ->
       nth_error (wpcs s') i = Some pc /\ immediate_shutdown (wq s') = true).
Proof. exact thm_drop. Qed.
Print Assumptions C07_drop.

(* ---------------------------------------------------------------------------------------------- termination *)
(* `measure` = (4 per queued job + remaining steps of the jobs in hand) * (2 * workers + 2) + the number of steps
   the threads can make without anybody making progress.  Every step of a worker decreases it, and so does a
   re-check of a blocked join that blocks again: the only stuttering is wake, re-check, wait, and it is bounded. *)
Theorem C07_measure : forall jf job_ok, (forall a, job_ok a = true) -> forall n s,
  reachable jf job_ok n s ->
  (forall i s', step jf job_ok s (MWorker i) = Some (Ok s') -> (measure s' < measure s)%nat) /\
  (forall w s', sub s = SJoinWait w -> step jf job_ok s (MJoin w) = Some (Ok s') -> sub s' <> SIdle ->
                (measure s' < measure s)%nat).
Proof. exact thm_measure. Qed.
Print Assumptions C07_measure.

(* Liveness of join.  Hypotheses, all visible: job bodies return (job_ok; in the transition system running a job
   is one step, so a body that never returns is a worker that is never scheduled), at least one worker, and the
   scheduler keeps running enabled threads - there is no fairness assumption beyond that because, without
   further spurious wake-ups, *every* schedule is short: while the submitter sits in join w the threads can take
   at most `measure s` steps (pending_run: steps of workers and re-checks of the join, the join still pending
   after each), and in every state of such a run some thread can take a step.  So the run can only end by the
   join returning.  (The full statement - infinitely many spurious wake-ups, weak fairness - is `live_stmt` in
   proofs/Pool_measure.v; it is not proved.) *)
Definition C07_live_stmt : Prop := live_stmt.

Theorem C07_live_partial : forall jf job_ok, (forall a, job_ok a = true) -> forall n k s w,
  reachable_in jf job_ok n k s -> (0 < n)%nat -> k + N.of_nat (measure s) + 1 < 2 ^ 63 -> sub s = SJoinWait w ->
  forall tr s', pending_run jf job_ok w s tr s' ->
    (length tr <= measure s)%nat /\ exists m, pending_move w m /\ enabled jf job_ok s' m = true.
Proof. exact thm_join_terminates. Qed.
Print Assumptions C07_live_partial.

(* ---------------------------------------------------------------------------------------------- the boundary *)
(* Exact version of the discipline: it is enough that every spawn is issued while at most 15 items (queued +
   running + un-joined results) are outstanding; then at most 16 ever are and nothing panics ... *)
Theorem C07_boundary_safe : forall (jf : N -> N) (job_ok : N -> bool), (forall a, job_ok a = true) ->
  forall (n : nat) (tr : list move),
    N.of_nat (length tr) < 2 ^ 63 -> disc_trace jf job_ok (init n) tr ->
    match run jf job_ok (init n) tr with
    | None => True
    | Some (Panic _) => False
    | Some (Ok s) => Inv jf s /\ outstanding s <= 16
    end.
Proof. exact thm_boundary_safe. Qed.
Print Assumptions C07_boundary_safe.

(* ... while the code's `<= MAX_THREADS` admits a submission with 16 outstanding, and then either unwrap can
   fail: 16 queued jobs + 1 (jobs.push returns Err), or 16 un-joined results + 1 (results.push returns Err). *)
Theorem C07_boundary_refuted :
  spawn_admits 16 = true /\ spawn_admits 17 = false /\
  run idf all_ok (init 1) tr_jobs_full = Some (Panic PUnwrapJobsPush) /\
  run idf all_ok (init 1) tr_results_full = Some (Panic PUnwrapResultsPush).
Proof. exact thm_boundary_refuted. Qed.
Print Assumptions C07_boundary_refuted.

(* the hypothesis on job bodies cannot be dropped: after a job body panics its join is blocked for ever *)
Theorem C07_job_panic_blocks :
  match run idf bad_job (init 1) tr_job_panics with
  | Some (Ok s) => sub s = SJoinWait 0 /\ waiters s = [0%nat] /\ wpcs s = [WKilled] /\ num_in_progress (wq s) = 1
                   /\ enabled idf bad_job s (MWorker 0) = false /\ enabled idf bad_job s (MJoin 0) = false
  | _ => False
  end.
Proof. exact job_panic_blocks_join. Qed.
Print Assumptions C07_job_panic_blocks.

(* Non-vacuity: a disciplined trace (two workers, waits, notify, a spurious wake-up, out-of-order joins, unwrap,
   a second batch on the same pool, drop) satisfies every hypothesis above and ends with everything joined,
   both unwraps successful and all threads exited. *)
Example C07_demo :
  bdisc_trace idf all_ok (init 2) demo_trace /\
  match run idf all_ok (init 2) demo_trace with
  | Some (Ok s) => sub s = SDone /\ wpcs s = [WExited; WExited] /\ joined s = [(2, 9); (0, 5); (1, 6)]
                   /\ map snd (unwraps s) = [true; true] /\ executed s = [2; 0; 1]
  | _ => False
  end.
Proof. exact demo_ok. Qed.
