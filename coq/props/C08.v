(* C08 - the advertised maximum compressed size is honoured.
   Property theorems only; every proof is `exact <lemma>`.  model/Bound.v takes its constants
   from gen/GenBound.v (regenerated from /repo); the readers come from spec/Header.v. *)
From Coq Require Import NArith ZArith List Bool.
From V Require Import lib.Words gen.GenBound spec.Header model.Bound proofs.Bound_proofs proofs.Bound_multi.
From V Require model.Concat spec.ConcatSpec proofs.Concat_length.
From V Require Import proofs.Bound_stitch.
Import ListNotations.
Open Scope N_scope.

(* The value of BrotliEncoderMaxCompressedSize: 22 for the empty input, n + 27 below 16 KiB,
   n + 4 * floor(n / 2^14) + 28 from there up to 2^54, and between the two forms (no panic, no
   zero) up to 2^62. *)
Theorem C08_bound : forall n,
  (n = 0 -> max_compressed_size n = Ok 22)
  /\ (0 < n -> n < 2 ^ 14 -> max_compressed_size n = Ok (n + 27))
  /\ (2 ^ 14 <= n -> n < 2 ^ 54 -> max_compressed_size n = Ok (n + 4 * (n / 2 ^ 14) + 28))
  /\ (0 < n -> n < 2 ^ 62 -> exists v, max_compressed_size n = Ok v
        /\ n + 4 * (n / 2 ^ 14) + 27 <= v /\ v <= n + 4 * (n / 2 ^ 14) + 28).
Proof. exact bound_statement. Qed.
Print Assumptions C08_bound.

(* Wrap analysis of `tail = input_size - (num_large_blocks << 24)` with
   `num_large_blocks = input_size >> 14`: below 16 KiB nothing wraps; from 16 KiB to 2^54 the
   subtraction always wraps (the subtrahend exceeds the input), the wrapped value exceeds 2^20,
   so the larger tail overhead (4) is charged - the bound only gets larger. *)
Theorem C08_tail_wrap : forall n,
  (n < 2 ^ 14 -> mcs_tail n = n)
  /\ (2 ^ 14 <= n -> n < 2 ^ 54 ->
      mcs_tail n = n + 2 ^ 64 - (n / 2 ^ 14) * 2 ^ 24 /\ n < (n / 2 ^ 14) * 2 ^ 24 /\ 2 ^ 20 < mcs_tail n).
Proof. exact tail_statement. Qed.
Print Assumptions C08_tail_wrap.

(* The stored-stream fallback of encoder_compress: for every input (bytes < 256, length below
   2^62) it fits the advertised bound, and an RFC 7932 reader that knows only WBITS, metadata,
   uncompressed and empty-last meta-blocks decodes it to exactly the input. *)
Theorem C08_fallback : forall input,
  Forall (fun b => b < 256) input -> N.of_nat (length input) < 2 ^ 62 ->
  exists B, max_compressed_size (N.of_nat (length input)) = Ok B
            /\ N.of_nat (length (make_uncompressed_stream input)) <= B
            /\ rfc_read_stored_stream (make_uncompressed_stream input) = Some input.
Proof. exact fallback_statement. Qed.
Print Assumptions C08_fallback.

(* One-shot compression, for every outcome (result, finished, total_out <= buffer) of the inner
   stream call: with a buffer of at least the bound it succeeds within the bound; with any
   buffer it succeeds within the buffer or fails with size 0; and the bytes are the stream's,
   the stored stream, or the one-byte empty stream. *)
Theorem C08_oneshot : forall n out_size inner, n < 2 ^ 62 -> in_total inner <= out_size ->
  exists B ret size src,
    max_compressed_size n = Ok B /\ encoder_compress n out_size inner = Ok (ret, size, src)
    /\ (B <= out_size -> ret = true /\ size <= B)
    /\ (ret = true -> size <= out_size)
    /\ (ret = false -> size = 0)
    /\ (src = FromStream -> ret = true /\ size = in_total inner /\ in_result inner = true /\ in_finished inner = true)
    /\ (src = StoredStream -> ret = true /\ size = segs_bytes (make_uncompressed_segments n) /\ B <= out_size)
    /\ (src = EmptyStream -> n = 0 /\ ret = true /\ size = 1)
    /\ (src = NoOutput -> ret = false).
Proof. exact oneshot_statement. Qed.
Print Assumptions C08_oneshot.

(* A never-flushed stream at quality >= 2: for every header configuration (any WBITS form,
   magic block with a size hint of 1..10 bytes, catable, appendable), every input length below
   2^62 and every schedule of meta-blocks the block logic permits (each block either stored or
   compressed into any number of bits that passes the expansion guard of WriteMetaBlockInternal:
   compressed bytes <= input bytes + 4), the total emitted is within the advertised bound.
   Assumed of the encoder (validated against the trace hook in the check, not proved):
   the schedule hypotheses `schedule_ok` (blocks cover the input, non-final blocks >= 2^14 bytes)
   and that a compressed meta-block violating the guard is replaced by the stored form. *)
Theorem C08_stream : forall c n bs final_empty t,
  scfg_ok c = true -> n < 2 ^ 62 -> schedule_ok c n bs final_empty = true ->
  stream_bytes c n bs final_empty = Some t ->
  exists B, max_compressed_size n = Ok B /\ t <= B.
Proof. exact stream_within_bound. Qed.
Print Assumptions C08_stream.

(* the stored form the accounting uses has the header size RFC 7932 prescribes *)
Theorem C08_stored_header : forall len, 1 <= len -> len <= 2 ^ 24 ->
  stored_header_bits len = rfc_uncompressed_header_bits len.
Proof. exact stored_header_bits_rfc. Qed.
Print Assumptions C08_stored_header.

(* Record of the finding repaired by /repo commit ed7657c: with the 16 spare bytes reserved
   before the fix, C08_stream is false - a large-window catable stream with the magic header
   and a 10-byte size hint takes 28 bytes for 3 stored bytes (bound 25), 19 for the empty input
   (bound 17).  Replayed on the real encoder before the fix (see known_findings.json). *)
Theorem C08_stream_before_fix_refuted :
  let c := mkScfg 14 true 10 true true in
  scfg_ok c = true /\
  (schedule_ok c 3 [Stored 1] false = true /\ stream_bytes c 3 [Stored 1] false = Some 28
   /\ max_compressed_size_gen 16 3 = Ok 25)
  /\ (schedule_ok c 0 [] true = true /\ stream_bytes c 0 [] true = Some 19
      /\ max_compressed_size_gen 16 0 = Ok 17).
Proof. exact stream_exceeds_old_bound. Qed.
Print Assumptions C08_stream_before_fix_refuted.

(* BrotliEncoderMaxCompressedSizeMulti adds 8 bytes per thread (no panic for realistic arguments). *)
Theorem C08_multi_value : forall n t, 0 < n -> n < 2 ^ 62 -> t < 2 ^ 32 ->
  exists B, max_compressed_size n = Ok B /\ max_compressed_size_multi n t = Ok (B + 8 * t).
Proof. exact multi_statement. Qed.
Print Assumptions C08_multi_value.

(* A worker stream (never flushed, no magic header, any WBITS form, catable or not): for every
   meta-block schedule the block logic permits it takes at most n + 4 floor(n / 2^14) + 11 bytes. *)
Theorem C08_part : forall c n bs final_empty t,
  scfg_ok c = true -> s_magic c = false -> n < 2 ^ 62 -> schedule_ok c n bs final_empty = true ->
  stream_bytes c n bs final_empty = Some t -> t <= n + 4 * (n / 2 ^ 14) + 11.
Proof. exact part_within_allowance. Qed.
Print Assumptions C08_part.

(* Any split of the input into parts (any number, any sizes including 0), each compressed by its
   own worker into a stream without magic header under any schedule: the worker outputs together
   take at most the Multi bound - 27 + 3 bytes per part (the per-16-KiB allowances of the parts
   never exceed that of the whole: sum floor(n_i / 2^14) <= floor(n / 2^14)). *)
Theorem C08_multi_parts : forall (cs : list scfg) (ns : list N) (scheds : list (list mblock * bool)) (ts : list N),
  length cs = length ns -> length scheds = length ns -> length ts = length ns ->
  (forall i c n bs fe t, nth_error cs i = Some c -> nth_error ns i = Some n ->
     nth_error scheds i = Some (bs, fe) -> nth_error ts i = Some t ->
     scfg_ok c = true /\ s_magic c = false /\ schedule_ok c n bs fe = true /\ stream_bytes c n bs fe = Some t) ->
  0 < sumN ns -> sumN ns < 2 ^ 62 -> N.of_nat (length ns) < 2 ^ 32 ->
  exists B, max_compressed_size_multi (sumN ns) (N.of_nat (length ns)) = Ok B
            /\ sumN ts + 27 <= B + 3 * N.of_nat (length ns).
Proof. exact multi_parts_statement. Qed.
Print Assumptions C08_multi_parts.

(* PARTIAL (the full statement is C08_multi_stmt below): with the concatenator's saving as a visible
   hypothesis - 15 bits per seam: a later part loses the 5 source bytes of window field + first
   header and regains at most 20 header bits and 7 padding bits, the earlier part loses its 2-bit
   end marker (what spec/ConcatSpec.add_member does to catable parts; its length consequence is
   not proved) - the stitched stream fits the Multi bound for up to 22 parts (MAX_THREADS is 16). *)
Theorem C08_multi_partial : forall (cs : list scfg) (ns : list N) (scheds : list (list mblock * bool)) (ts : list N) stitched,
  length cs = length ns -> length scheds = length ns -> length ts = length ns ->
  (forall i c n bs fe t, nth_error cs i = Some c -> nth_error ns i = Some n ->
     nth_error scheds i = Some (bs, fe) -> nth_error ts i = Some t ->
     scfg_ok c = true /\ s_magic c = false /\ schedule_ok c n bs fe = true /\ stream_bytes c n bs fe = Some t) ->
  0 < sumN ns -> sumN ns < 2 ^ 62 -> N.of_nat (length ns) <= 22 ->
  8 * stitched + 15 * (N.of_nat (length ns) - 1) <= 8 * sumN ts + 7 ->
  exists B, max_compressed_size_multi (sumN ns) (N.of_nat (length ns)) = Ok B /\ stitched <= B.
Proof. exact multi_given_concat. Qed.
Print Assumptions C08_multi_partial.

(* The same with the width of the window field kept: 6 + ceil((WBITS + 20) / 8) bytes of allowance. *)
Theorem C08_part_w : forall c n bs final_empty t,
  scfg_ok c = true -> s_magic c = false -> n < 2 ^ 62 -> schedule_ok c n bs final_empty = true ->
  stream_bytes c n bs final_empty = Some t -> t <= n + 4 * (n / 2 ^ 14) + 6 + (s_wbits c + 27) / 8.
Proof. exact part_within_allowance_w. Qed.
Print Assumptions C08_part_w.

(* The concatenator's seams, proved from its bit-level specification (spec/ConcatSpec.concat_spec,
   which the real concatenator follows for every slicing: C03_bits_any_slicing): stitching a first
   stream of at least 5 bytes and any number of parts of the workers' shape (window field of
   wl = 1, 4, 7 or 14 bits, then the 20-bit header of the stored catable block): every later part
   loses its ceil((wl + 20) / 8) source bytes of window field + header and regains at most 20
   header bits and 7 padding bits, less the 2-bit end marker of the part before it. *)
Theorem C08_concat_saving : forall wl m0 rest expected, Concat_length.wl_ok wl ->
  (5 <= length m0)%nat -> Forall (Concat_length.catable_part wl) rest ->
  ConcatSpec.concat_spec None (m0 :: rest) = Some expected ->
  (8 * length expected + 8 * Concat_length.src_bytes wl * length rest
   <= 8 * Concat_length.sum_length (m0 :: rest) + 25 * length rest + 7)%nat.
Proof. exact Concat_length.concat_len_catable. Qed.
Print Assumptions C08_concat_saving.

(* The shape hypothesis of C08_multi in boolean form: what the C08 check evaluates (inside Coq, by
   vm_compute) on the first bytes of real catable streams of the encoder. *)
Theorem C08_catable_shape_decidable : forall wl m,
  Concat_length.catable_partb wl m = true -> Concat_length.catable_part wl m.
Proof. exact Concat_length.catable_partb_sound. Qed.
Print Assumptions C08_catable_shape_decidable.

(* The multi-threaded bound: any split of the input into up to 22 parts (MAX_THREADS is 16), the
   first compressed under any configuration without magic header, the others by workers whose
   streams begin with a window field of wl bits and the stored catable block, each under any
   meta-block schedule into a byte string of the accounted length, stitched as the
   concatenator's specification prescribes: the result fits BrotliEncoderMaxCompressedSizeMulti.
   Visible hypotheses on the streams, NOT proved of CompressMulti (facts about the bytes the real
   workers write): no magic header in any part (compress_part clears it for the later parts; a
   first part WITH magic header is outside this theorem), and the shape of the later parts' first
   bits (catable_part).  The C02/C06 runs call the real CompressMulti with a buffer of exactly the
   Multi bound, with and without the magic header. *)
Theorem C08_multi : forall wl c0 n0 bs0 fe0 m0 (cs : list scfg) (ns : list N) (scheds : list (list mblock * bool)) rest expected,
  Concat_length.wl_ok wl ->
  scfg_ok c0 = true -> s_magic c0 = false -> schedule_ok c0 n0 bs0 fe0 = true ->
  stream_bytes c0 n0 bs0 fe0 = Some (Concat.lenN m0) ->
  length cs = length ns -> length scheds = length ns -> length rest = length ns ->
  (forall i c n bs fe m, nth_error cs i = Some c -> nth_error ns i = Some n ->
     nth_error scheds i = Some (bs, fe) -> nth_error rest i = Some m ->
     scfg_ok c = true /\ s_magic c = false /\ s_wbits c = wl /\ schedule_ok c n bs fe = true
     /\ stream_bytes c n bs fe = Some (Concat.lenN m)) ->
  0 < n0 + sumN ns -> n0 + sumN ns < 2 ^ 62 -> N.of_nat (length ns) + 1 <= 22 ->
  (5 <= length m0)%nat -> Forall (Concat_length.catable_part wl) rest ->
  ConcatSpec.concat_spec None (m0 :: rest) = Some expected ->
  exists B, max_compressed_size_multi (n0 + sumN ns) (N.of_nat (length ns) + 1) = Ok B /\ Concat.lenN expected <= B.
Proof. exact multi_stitched_w. Qed.
Print Assumptions C08_multi.

(* NOT PROVED (kept as a statement): the same for any number of parts and for a first part with
   the magic header.  With the byte-level accounting above (6 bytes + 25 bits per later part
   against 8 bytes per thread, 11 bytes for the first part against the formula's 27) the margin
   is exhausted at 23 parts, and at 7 parts when the first part carries the magic header; a
   bit-level accounting of the last partial block and the final empty meta-block would be needed. *)
Definition C08_multi_stmt : Prop :=
  forall wl c0 n0 bs0 fe0 m0 (cs : list scfg) (ns : list N) (scheds : list (list mblock * bool)) rest expected,
  Concat_length.wl_ok wl ->
  scfg_ok c0 = true -> schedule_ok c0 n0 bs0 fe0 = true ->
  stream_bytes c0 n0 bs0 fe0 = Some (Concat.lenN m0) ->
  length cs = length ns -> length scheds = length ns -> length rest = length ns ->
  (forall i c n bs fe m, nth_error cs i = Some c -> nth_error ns i = Some n ->
     nth_error scheds i = Some (bs, fe) -> nth_error rest i = Some m ->
     scfg_ok c = true /\ s_magic c = false /\ s_wbits c = wl /\ schedule_ok c n bs fe = true
     /\ stream_bytes c n bs fe = Some (Concat.lenN m)) ->
  0 < n0 + sumN ns -> n0 + sumN ns < 2 ^ 62 -> N.of_nat (length ns) + 1 < 2 ^ 32 ->
  (5 <= length m0)%nat -> Forall (Concat_length.catable_part wl) rest ->
  ConcatSpec.concat_spec None (m0 :: rest) = Some expected ->
  exists B, max_compressed_size_multi (n0 + sumN ns) (N.of_nat (length ns) + 1) = Ok B /\ Concat.lenN expected <= B.

(* Non-vacuity: concrete points of every theorem's domain. *)
Example C08_points :
  max_compressed_size 3 = Ok 30 /\ max_compressed_size 16384 = Ok 16416
  /\ make_uncompressed_stream [65; 66; 67] = [33; 3; 16; 0; 8; 65; 66; 67; 3]
  /\ rfc_read_stored_stream [33; 3; 16; 0; 8; 65; 66; 67; 3] = Some [65; 66; 67]
  /\ encoder_compress 3 30 (mkInner true true 7) = Ok (true, 7, FromStream)
  /\ encoder_compress 3 30 (mkInner true false 30) = Ok (true, 9, StoredStream)
  /\ encoder_compress 3 8 (mkInner true false 8) = Ok (false, 0, NoOutput)
  /\ stream_bytes (mkScfg 14 true 10 true true) 3 [Stored 1] false = Some 28
  /\ stream_bytes (mkScfg 4 false 1 false false) 40000 [Compressed 16384 131000; Stored 23616] false = Some 39995
  /\ stream_bytes (mkScfg 4 false 1 false false) 16384 [Compressed 16384 131200] true = None.
Proof. vm_compute. repeat split; reflexivity. Qed.
