(* C09 - every block obtained from a plugged-in allocator is returned to it exactly once.
   Property theorems only; every proof is `exact <lemma>`.

   `returned l` (spec/Ledger.v) : no block is live any more and nothing went wrong on the way
   (no block freed through an instance that did not produce it, no block freed twice, no block
   whose value was dropped without free_cell).
   The model (model/Alloc.v) describes the *current* code (`current dbg`, dbg = whether
   debug_assertions are compiled in); `legacy dbg` is the code before the four C09 repairs.

   Hypotheses that stay visible:
   * `temporaries_balanced` : every invocation of a compression back end (compress_fragment*,
     BrotliCreateBackwardReferences / Zopfli, WriteMetaBlockInternal incl. block splitting and
     IR logging) frees what it allocated - not modelled, tested on every run by the harness;
   * `good_op` : a precomputed hasher handed to set_custom_dictionary_with_optional_precomputed_hasher
     was built through the allocator of the state that receives it (what CompressMulti does). *)
From Coq Require Import NArith List Bool.
From V Require Import spec.Ledger model.Alloc proofs.Alloc_proofs.
Import ListNotations.
Open Scope N_scope.

(* For all histories of the modelled operations (set_parameter, set_custom_dictionary,
   compress_stream calls going through any sequence of allocation phases, take_output, even
   intermediate cleanups) on a state owning allocator `inst`: once the owner has called
   BrotliEncoderDestroyInstance and let the state go, the ledger is empty. *)
Theorem C09_cleanup :
  forall (temps : callee -> N -> list tstep),
    (forall c k, bal 0 (temps c k) = true) ->                        (* temporaries_balanced *)
  forall (dbg : bool) (inst : N) (h : list op),
    Forall (good_op inst) h ->
    returned (instance_life temps (current dbg) inst h true empty_ledger).
Proof. exact instance_returns. Qed.
Print Assumptions C09_cleanup.

(* Restated with the known, unrepaired class excluded: an owner that drops a raw
   BrotliEncoderStateStruct without destroying it (the struct has no Drop impl). *)
Theorem C09_instance :
  forall (temps : callee -> N -> list tstep),
    (forall c k, bal 0 (temps c k) = true) ->
  forall (dbg : bool) (inst : N) (h : list op) (destroyed_by_owner : bool),
    ~ KnownClass destroyed_by_owner ->
    Forall (good_op inst) h ->
    returned (instance_life temps (current dbg) inst h destroyed_by_owner empty_ledger).
Proof.
  intros temps Hb dbg inst h d Hk Hg. destruct d.
  - exact (instance_returns temps Hb dbg inst h Hg).
  - exfalso. apply Hk. reflexivity.
Qed.
Print Assumptions C09_instance.

Theorem C09_instance_known_witness :
  KnownClass false /\
  ~ returned (instance_life no_temps (current true) 0 small_stream false empty_ledger).
Proof. exact raw_drop_known_witness. Qed.
Print Assumptions C09_instance_known_witness.

(* C09_wrappers: every wrapper / entry point ends with an empty ledger on every path (the
   conjunction of the eight statements that follow, each also stated on its own). *)
Theorem C09_wrappers :
  forall temps : callee -> N -> list tstep, (forall c k, bal 0 (temps c k) = true) ->
  forall dbg : bool,
    (forall q w calls, Forall (good_op 0) calls -> returned (writer_life temps (current dbg) q w calls)) /\
    (forall q w calls, Forall (good_op 0) calls -> returned (reader_life temps (current dbg) q w calls)) /\
    (forall params dict calls x, Forall (good_op 0) (params ++ dict ++ calls) ->
        returned (copy_life temps (current dbg) params dict calls x)) /\
    (forall q w trivial calls, Forall (good_op 0) calls -> returned (oneshot_life temps (current dbg) q w trivial calls)) /\
    (forall sh ts, good_threads 0 ts -> returned (multi_life temps (current dbg) sh ts empty_ledger)) /\
    (forall sh n ts, good_threads 0 ts -> returned (multi_slice_life temps (current dbg) sh n ts)) /\
    (forall custom state_size h, Forall (good_op 0) h -> returned (ffi_life temps (current dbg) custom state_size h)) /\
    (forall params call, Forall (good_op 0) (params ++ [call]) -> returned (ffi_single_life temps (current dbg) params call)).
Proof. exact wrappers_return. Qed.
Print Assumptions C09_wrappers.

(* writer: any sequence of write / flush calls, each possibly cut short by an I/O error,
   followed by into_inner or Drop *)
Theorem C09_writer :
  forall temps, (forall c k, bal 0 (temps c k) = true) ->
  forall dbg q w calls, Forall (good_op 0) calls ->
    returned (writer_life temps (current dbg) q w calls).
Proof. exact writer_returns. Qed.
Print Assumptions C09_writer.

Theorem C09_reader :
  forall temps, (forall c k, bal 0 (temps c k) = true) ->
  forall dbg q w calls, Forall (good_op 0) calls ->
    returned (reader_life temps (current dbg) q w calls).
Proof. exact reader_returns. Qed.
Print Assumptions C09_reader.

(* copy adapter: all six exits (sink error / sink accepts nothing, each with or without a pending
   source error; no progress; finished) *)
Theorem C09_copy :
  forall temps, (forall c k, bal 0 (temps c k) = true) ->
  forall dbg params dict calls (x : copy_exit), Forall (good_op 0) (params ++ dict ++ calls) ->
    returned (copy_life temps (current dbg) params dict calls x).
Proof. exact copy_returns. Qed.
Print Assumptions C09_copy.

(* one-shot encoder_compress, every quality incl. 10 (pre-built hasher), trivial exits included *)
Theorem C09_oneshot :
  forall temps, (forall c k, bal 0 (temps c k) = true) ->
  forall dbg q w trivial calls, Forall (good_op 0) calls ->
    returned (oneshot_life temps (current dbg) q w trivial calls).
Proof. exact oneshot_returns. Qed.
Print Assumptions C09_oneshot.

(* compress_part / CompressMulti: any number of threads, each with its own allocator instance,
   with or without precomputed hashers (`sh`), each thread succeeding or failing
   (InsufficientOutputSpace): every instance gets its own blocks back, chunks are freed by
   the allocator that made them.  Every worker is joined (see join_failure_refuted). *)
Theorem C09_multi :
  forall temps, (forall c k, bal 0 (temps c k) = true) ->
  forall dbg sh ts, good_threads 0 ts ->
    returned (multi_life temps (current dbg) sh ts empty_ledger).
Proof. exact multi_returns. Qed.
Print Assumptions C09_multi.

Theorem C09_multi_slice :
  forall temps, (forall c k, bal 0 (temps c k) = true) ->
  forall dbg sh n ts, good_threads 0 ts ->
    returned (multi_slice_life temps (current dbg) sh n ts).
Proof. exact multi_slice_returns. Qed.
Print Assumptions C09_multi_slice.

(* C ABI create / set / stream / destroy, with custom callbacks (the state block goes through
   them too) and with the default allocator *)
Theorem C09_ffi :
  forall temps, (forall c k, bal 0 (temps c k) = true) ->
  forall dbg custom state_size h, Forall (good_op 0) h ->
    returned (ffi_life temps (current dbg) custom state_size h).
Proof. exact ffi_returns. Qed.
Print Assumptions C09_ffi.

(* C ABI BrotliEncoderCompressMulti with one thread *)
Theorem C09_ffi_single :
  forall temps, (forall c k, bal 0 (temps c k) = true) ->
  forall dbg params call, Forall (good_op 0) (params ++ [call]) ->
    returned (ffi_single_life temps (current dbg) params call).
Proof. exact ffi_single_returns. Qed.
Print Assumptions C09_ffi_single.

(* --- what was false of the code before the repairs (replayed on the real code) --- *)

Theorem C09_ffi_destroy_legacy_refuted :
  ~ returned (ffi_life no_temps (legacy true) true 5624 small_stream) /\
  length (live (ffi_life no_temps (legacy true) true 5624 small_stream)) = 5%nat.
Proof. exact legacy_ffi_destroy_refuted. Qed.
Print Assumptions C09_ffi_destroy_legacy_refuted.

Theorem C09_ffi_single_legacy_refuted :
  ~ returned (ffi_single_life no_temps (legacy true)
                [OSetParam PQuality 5; OSetParam PLgwin 18]
                (OStream [PhSizeHint 35; PhRingInit 35; PhStorage 597; PhCommands 18 24; PhHasherSetup])).
Proof. exact legacy_single_refuted. Qed.
Print Assumptions C09_ffi_single_legacy_refuted.

Theorem C09_oneshot_legacy_refuted :
  let l := oneshot_life no_temps (legacy true) 10 18 false
             [OStream [PhSizeHint 3000; PhRingInit 3000; PhStorage 6527; PhCommands 1501 766; PhHasherSetup]] in
  live l = [] /\ count_faults is_foreign l = 2 /\ ~ returned l.
Proof. exact legacy_oneshot_refuted. Qed.
Print Assumptions C09_oneshot_legacy_refuted.

Theorem C09_dict_legacy_refuted :
  let l := instance_life no_temps (legacy true) 0
             [OSetParam PQuality 5; OSetParam PLgwin 18; OSetDict 100 0 [] [100]; OSetDict 100 0 [] [262144 + 65536]]
             true empty_ledger in
  length (live l) = 2%nat /\ count_faults is_dropped l = 2 /\ ~ returned l.
Proof. exact legacy_dict_refuted. Qed.
Print Assumptions C09_dict_legacy_refuted.

Theorem C09_multi_slice_legacy_refuted :
  let l := multi_slice_life no_temps (legacy true) [] 1800 [failing_thread; failing_thread] in
  length (live l) = 1%nat /\ count_faults is_dropped l = 1 /\ ~ returned l.
Proof. exact legacy_slice_refuted. Qed.
Print Assumptions C09_multi_slice_legacy_refuted.

(* outside the stated quantifier, recorded: a worker that cannot be joined (it panicked) takes its
   result with it.  Since 176a6ae CompressMulti keeps stitching, so everything except that worker's
   own chunk is returned; the chunk itself never is. *)
Theorem C09_multi_join_failure :
  forall temps, (forall c k, bal 0 (temps c k) = true) ->
  forall dbg sh ts k, good_threads 0 ts ->
    let l := multi_life_joinfail temps (current dbg) sh ts k in
    faults l = [] /\ Permutation.Permutation (live l) (lost_chunk temps (current dbg) sh ts k).
Proof. exact join_failure_loses_only_own_chunk. Qed.
Print Assumptions C09_multi_join_failure.

Theorem C09_multi_join_failure_refuted :
  ~ returned (multi_life_joinfail no_temps (current true) [] [tiny_thread; tiny_thread; tiny_thread] 1) /\
  returned (multi_life no_temps (current true) [] [tiny_thread; tiny_thread; tiny_thread] empty_ledger).
Proof. exact join_failure_refuted. Qed.
Print Assumptions C09_multi_join_failure_refuted.

(* the two release-site facts read off the source since the follow-up round, and what the model
   does without them: (1) the by-value precomputed hasher must be owned by the state before
   set_custom_dictionary can return (jobs that ignore their dictionary: quality 0/1, empty prefix);
   (2) a `?` inside the copy loop must come after the destroy call (sink fails while a source
   error is pending) *)
Theorem C09_dict_late_install_refuted :
  let sh := [(U32, 8388608); (U16, 32768)] in
  returned (multi_life no_temps (current true) sh [q1_thread; q1_thread] empty_ledger) /\
  let l := multi_life no_temps (late_install (current true)) sh [q1_thread; q1_thread] empty_ledger in
  length (live l) = 2%nat /\ count_faults is_dropped l = 2.
Proof. exact late_install_refuted. Qed.
Print Assumptions C09_dict_late_install_refuted.

Theorem C09_copy_try_before_destroy_refuted :
  returned (copy_life no_temps (current true) [] [] small_stream XWriteErrorReadPending) /\
  ~ returned (copy_life no_temps (try_before_destroy (current true)) [] [] small_stream XWriteErrorReadPending) /\
  returned (copy_life no_temps (try_before_destroy (current true)) [] [] small_stream XWriteError) /\
  returned (copy_life no_temps (try_before_destroy (current true)) [] [] small_stream XZeroWriteReadPending).
Proof. exact try_before_destroy_refuted. Qed.
Print Assumptions C09_copy_try_before_destroy_refuted.

(* Non-vacuity: balanced temporaries and a good history that populates every long-lived field
   (ring buffer grown twice, storage grown twice, quality-1 buffers, large table) and is then
   cleaned up to the empty ledger. *)
Example C09_nontrivial :
  (forall c k, bal 0 (busy_temps c k) = true) /\ Forall (good_op 0) busy_history /\
  let s := run busy_temps (current true) busy_history (new_enc 0, empty_ledger) in
  length (live (snd s)) = 5%nat /\ next (snd s) = 12 /\ returnedb (drop_enc (cleanup (current true) s)) = true.
Proof. exact (conj busy_temps_balanced (conj busy_history_good busy_history_nontrivial)). Qed.
