(* C10 - custom (prefix) dictionary compression round-trips with the same dictionary: the part
   that is about where the two sides place the dictionary.  Property theorems only; proofs in
   proofs/Dict_proofs.v; model in model/Dict.v (encoder: set_custom_dictionary..., SanitizeParams,
   header window bits; decoder: brotli-decompressor's new_with_custom_dictionary /
   BrotliAllocateRingBuffer / max_distance update). *)
From Coq Require Import NArith ZArith List Bool.
From V Require Import lib.Words model.Arith spec.IrReplay model.Dict proofs.Dict_proofs.
Import ListNotations.
Open Scope N_scope.

(* For every dictionary length, every requested quality (any integer), every requested lgwin (any
   natural number, large window or not) and static-dictionary setting, the repaired
   set_custom_dictionary does not panic and
   - at quality >= 2 encoder and decoder keep the same number of dictionary bytes (so the same
     suffix, see C10_prefix) and compute the same max_distance at every output position: every
     distance is read the same way on both sides; the stream is marked self-contained only for
     the empty dictionary;
   - at quality 0/1 exactly, the encoder ignores the dictionary (position 0, custom_dictionary
     off, catable/appendable forced) while the decoder still places it: the two sides differ, and
     the stream decodes because the fragment compressors emit no static-dictionary reference and
     only distances into the current stream (unmodelled code; every run decodes each such stream
     both with and without the dictionary) - the encoder's max_distance is never larger than the
     decoder's, so such a copy is read as the same copy (C10_copy_stays). *)
Theorem C10_positions : forall (size : N) (q_raw : Z) (lgwin_raw : N) (large_window use_dictionary : bool),
  exists e, enc_dict_setup size q_raw lgwin_raw large_window use_dictionary = DOk e /\
  let q := sanitize_quality q_raw in
  let d := dec_dict_setup size (header_wbits q (e_lgwin e)) in
  e_lgwin e = sanitize_lgwin lgwin_raw large_window /\ e_static e = use_dictionary /\
  (2 <= q -> e_kept e = d_kept d /\ e_selfcontained e = (size =? 0)
             /\ forall p, enc_max_distance e p = dec_max_distance d p) /\
  (q <= 1 -> e_kept e = 0 /\ e_custom e = false /\ e_selfcontained e = true
             /\ forall p, enc_max_distance e p <= dec_max_distance d p).
Proof. exact positions_agree. Qed.
Print Assumptions C10_positions.

Theorem C10_prefix : forall (dict : list N) size q_raw lgwin_raw lw ud e,
  N.of_nat (length dict) = size -> 2 <= sanitize_quality q_raw ->
  enc_dict_setup size q_raw lgwin_raw lw ud = DOk e ->
  kept_suffix dict (e_kept e) = kept_suffix dict (d_kept (dec_dict_setup size (e_lgwin e))).
Proof. exact prefixes_agree. Qed.
Print Assumptions C10_prefix.

(* the executable form of the conclusion (what the check applies to the values observed on the
   real encoder and decoder) holds of the model *)
Theorem C10_positions_ok : forall size q_raw lgwin_raw lw ud e,
  enc_dict_setup size q_raw lgwin_raw lw ud = DOk e ->
  positions_ok (sanitize_quality q_raw) (e_kept e)
               (d_kept (dec_dict_setup size (header_wbits (sanitize_quality q_raw) (e_lgwin e)))) = true.
Proof. exact positions_ok_model. Qed.
Print Assumptions C10_positions_ok.

Theorem C10_same_reading : forall m1 m2 dist, m1 = m2 -> read_distance m1 dist = read_distance m2 dist.
Proof. exact reading_same. Qed.
Print Assumptions C10_same_reading.
Theorem C10_copy_stays : forall m1 m2 dist, m1 <= m2 -> dist <= m1 -> read_distance m2 dist = RCopy dist.
Proof. exact reading_copy_stays. Qed.
Print Assumptions C10_copy_stays.

(* The full round-trip statement needs the bit-level format layer (C01's decoder spec D and writer
   W) and C01's hypothesis on the match finders; neither is available to this file.  What is
   proved here is the command-level step: a command list that reproduces a meta-block under the
   decoder's rules over the encoder's placement of the dictionary does so over the decoder's. *)
Definition C10_roundtrip_stmt : Prop :=
  forall dict_word transforms (dict mb : list N) ring cmds nd np size q_raw lgwin_raw lw ud e,
  N.of_nat (length dict) = size -> 2 <= sanitize_quality q_raw ->
  enc_dict_setup size q_raw lgwin_raw lw ud = DOk e ->
  cmds_ok dict_word transforms (e_lgwin e) nd np (kept_suffix dict (e_kept e)) mb ring cmds =
  cmds_ok dict_word transforms (e_lgwin e) nd np (kept_suffix dict (d_kept (dec_dict_setup size (e_lgwin e)))) mb ring cmds.
Theorem C10_roundtrip_partial : C10_roundtrip_stmt.
Proof. exact commands_transfer. Qed.
Print Assumptions C10_roundtrip_partial.

(* The code as found (replayed on the real encoder and decoder):
   - a 1-byte dictionary took the early return that leaves the static dictionary on: the encoder
     stands at position 0, the decoder at 1; at output position 10 the distance 12 is word 1 for
     the encoder and word 0 (the neighbouring word) for the decoder, distance 11 is word 0 for the
     encoder and a copy of the dictionary byte for the decoder (quality 2-9: wrong bytes of the
     right length; quality 10-11: decode error);  fix 5defb04 'a one-byte dictionary is placed like any other';
   - the dictionary was cut to 2^lgwin-16 bytes with the lgwin REQUESTED, before SanitizeParams
     raised a request below 10 to 10: with lgwin 5 the encoder kept 16 bytes of a 1500-byte
     dictionary, the decoder 1008 (decode error); lgwin >= 64 overflowed the shift;  fix 6cfd52f 'cut the
     dictionary to the window the stream declares'. *)
Theorem C10_positions_unfixed_refuted :
  (exists e, enc_dict_setup_unfixed 1 5 18 false true = DOk e /\
    e_kept e = 0 /\ e_static e = true /\ d_kept (dec_dict_setup 1 (header_wbits 5 (e_lgwin e))) = 1 /\
    read_distance (enc_max_distance e 10) 12 = RWord 1 /\
    read_distance (dec_max_distance (dec_dict_setup 1 (header_wbits 5 (e_lgwin e))) 10) 12 = RWord 0 /\
    read_distance (enc_max_distance e 10) 11 = RWord 0 /\
    read_distance (dec_max_distance (dec_dict_setup 1 (header_wbits 5 (e_lgwin e))) 10) 11 = RCopy 11).
Proof. exact unfixed_one_byte. Qed.
Print Assumptions C10_positions_unfixed_refuted.
Theorem C10_window_unfixed_refuted :
  (exists e, enc_dict_setup_unfixed 1500 5 5 false true = DOk e /\
    e_kept e = 16 /\ e_lgwin e = 10 /\ d_kept (dec_dict_setup 1500 (header_wbits 5 (e_lgwin e))) = 1008 /\
    read_distance (enc_max_distance e 100) 200 = RWord 83 /\
    read_distance (dec_max_distance (dec_dict_setup 1500 (header_wbits 5 (e_lgwin e))) 100) 200 = RCopy 200)
  /\ enc_dict_setup_unfixed 100 5 64 false true = DPanic PShiftOverflow.
Proof. exact (conj unfixed_small_lgwin unfixed_shift_panic). Qed.
Print Assumptions C10_window_unfixed_refuted.

(* Non-vacuity: the repaired model on the boundary cases of the property text. *)
Example C10_examples :
  (exists e, enc_dict_setup 1 5 18 false true = DOk e /\ e_kept e = 1 /\ e_custom e = true) /\
  (exists e, enc_dict_setup 1500 5 5 false true = DOk e /\ e_kept e = 1008 /\ e_lgwin e = 10) /\
  (exists e, enc_dict_setup 100 5 64 false true = DOk e /\ e_kept e = 100 /\ e_lgwin e = 24) /\
  (exists e, enc_dict_setup 16777201 9 24 false true = DOk e /\ e_kept e = 16777200) /\
  (exists e, enc_dict_setup 300 1 22 false true = DOk e /\ e_kept e = 0 /\ e_selfcontained e = true).
Proof. exact fixed_examples. Qed.
