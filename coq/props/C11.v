(* C11 - stub while the proofs are being completed *)
From Coq Require Import NArith List Bool Arith.
From V Require Import gen.GenIO model.IO proofs.IO_proofs.
Import ListNotations.

Theorem C11_write_all : forall fuel k buf ez ei,
  tail_ok (k_script k) -> length buf < fuel -> write_all_post k buf ez ei (write_all fuel k buf ez ei).
Proof. exact write_all_spec. Qed.
Print Assumptions C11_write_all.
