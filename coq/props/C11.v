(* C11 - reader / writer / copy adapters terminate and are transparent to short I/O and I/O errors.
   Property theorems only; every proof is `exact <lemma>` (proofs/IO_proofs.v).

   Models (model/IO.v): CompressorReaderCustomIo::read, CompressorWriterCustomIo::{write, flush,
   flush_or_close, into_inner / Drop}, writer.rs `write_all`, BrotliCompressCustomIoCustomDict's
   copy loop, and the Interrupted-retrying std wrappers of brotli_decompressor::io_wrappers, over
     * an abstract encoder [enc_step] constrained by [contract] (the call contract of
       compress_stream; visible premise of every theorem that needs it), and
     * scripted wrapped streams: per-call behaviours Full | Short k | Zero | Interrupted | Fail e,
       then one behaviour repeated for ever ([tail_ok]: that one is not Interrupted).
   The models follow the code after the two repairs 3fdd175 (reader, empty buffer) and b5ff0f7
   (copy adapter, zero-length write); gen/GenIO.v re-reads from the sources on every check whether
   the repairs are still there, so undoing one breaks C11_reader_empty / C11_copy below.

   Known classes (recorded findings, not repaired; mirrored in known_findings.json):
     [KnownExhausted]      error_if_invalid_data already taken: the next zero-length write is
                           swallowed (when error_if_zero_bytes_written is gone too), and a call the
                           encoder refuses panics (Option::unwrap on None);
     [close discards]      into_inner / Drop cannot report: flush_or_close's error is dropped;
     [chunk dependent]     an encoder whose output depends on how its input is cut into calls
                           (qualities 0 and 1): short reads change the delivered bytes. *)
From Coq Require Import NArith List Bool Arith.
From V Require Import gen.GenIO model.IO proofs.IO_proofs.
Import ListNotations.

(* ------------------------------------------------------------------ write_all (writer.rs) *)
(* Returns within |buf| + 1 iterations (at most |buf| successful sink calls); the sink has received
   a prefix of buf - all of it when the result is Ok, unless both stored errors were gone and a
   zero-length write was swallowed; a sink error is returned unchanged; a zero-length write is
   reported with a stored error while one is left.  See [write_all_post]. *)
Theorem C11_write_all : forall fuel k buf ez ei,
  tail_ok (k_script k) -> length buf < fuel -> write_all_post k buf ez ei (write_all fuel k buf ez ei).
Proof. exact write_all_spec. Qed.
Print Assumptions C11_write_all.

(* ------------------------------------------------------------------ reader *)
(* For every script and every non-empty caller buffer, `read` returns within
   |unread source| + |staged bytes| + 2 loop iterations, never panics, keeps the state invariant
   (so it can be called again after an error), and
     Ok d    : d is exactly what the encoder produced during the call, |d| <= |buf|, no wrapped
               error occurred; d = [] only when the encoder is finished and has been fed every
               byte the wrapped reader delivered before signalling end of input;
     Err e   : e is the wrapped reader's own error, and nothing was delivered or lost. *)
Theorem C11_reader :
  forall estate enc_step enc_finished enc_more accepting live potential G,
  contract estate enc_step enc_finished enc_more accepting live potential G ->
  forall (st0 : estate) (r : reader estate) buf_len fuel,
  RInv enc_step enc_finished accepting st0 r -> 0 < buf_len -> read_fuel r <= fuel ->
  read_post enc_step enc_finished accepting st0 r buf_len (read enc_step enc_finished fuel r buf_len).
Proof. exact read_spec. Qed.
Print Assumptions C11_reader.

(* a freshly constructed reader (any non-empty staging buffer, incl. 1) satisfies the invariant *)
Theorem C11_reader_fresh :
  forall estate (enc_step : estate -> op -> list byte -> nat -> eans estate) enc_finished accepting
         (st0 : estate) n src,
  0 < n -> fresh_source src -> accepting st0 = true -> enc_finished st0 = false ->
  RInv enc_step enc_finished accepting st0 (reader_new n st0 src).
Proof. exact reader_new_inv. Qed.
Print Assumptions C11_reader_fresh.

(* "short reads do not change the delivered bytes": when the stream has ended the caller holds
   stream_of(the bytes the wrapped reader delivered), whatever the script - for an encoder whose
   finished output is a function of its concatenated input *)
Theorem C11_reader_transparent :
  forall estate enc_step enc_finished enc_more accepting live potential G,
  contract estate enc_step enc_finished enc_more accepting live potential G ->
  forall (st0 : estate) stream_of (r : reader estate) buf_len fuel r',
  chunk_independent enc_step enc_finished st0 stream_of ->
  RInv enc_step enc_finished accepting st0 r -> 0 < buf_len -> read_fuel r <= fuel ->
  read enc_step enc_finished fuel r buf_len = (Ok [], r') ->
  emitted (r_enc r') = stream_of (src_taken_bytes (r_src r')).
Proof. exact reader_stream. Qed.
Print Assumptions C11_reader_transparent.

(* `read(&mut [])` returns Ok(0) at once (repaired code) ... *)
Theorem C11_reader_empty :
  forall estate enc_step enc_finished (r : reader estate) fuel,
  read enc_step enc_finished fuel r 0 = (Ok [], r).
Proof. exact read_empty. Qed.
Print Assumptions C11_reader_empty.

(* ... whereas the loop as it stood never returns for an empty buffer: for every amount of fuel *)
Theorem C11_reader_empty_unrepaired_refuted :
  forall estate enc_step enc_finished enc_more accepting live potential G,
  contract estate enc_step enc_finished enc_more accepting live potential G ->
  forall (st0 : estate) (r : reader estate),
  RInv enc_step enc_finished accepting st0 r -> plain_source (r_src r) ->
  enc_finished (t_st (r_enc r)) = false ->
  forall fuel, fst (read_unguarded enc_step enc_finished fuel r 0) = OutOfFuel.
Proof. exact read_unguarded_spins. Qed.
Print Assumptions C11_reader_empty_unrepaired_refuted.

Theorem C11_reader_empty_unrepaired_witness :
  forall fuel, fst (read_unguarded (toy_step false) toy_finished fuel
                      (reader_new 4 toy0 (plain_src [97%N; 98%N; 99%N])) 0) = OutOfFuel.
Proof. exact read_unguarded_witness. Qed.
Print Assumptions C11_reader_empty_unrepaired_witness.

(* ------------------------------------------------------------------ writer *)
(* [KnownExhausted w] := w_ei w = false (proofs/IO_proofs.v) *)

(* write: returns within potential + (G+1)|buf| + 1 iterations; Ok(n) => n = |buf|, the encoder
   was fed buf and went through exactly the states of the sink-free reference run [ref_write]
   (short writes change nothing), and the sink received exactly what the encoder produced
   ([sink_track]; or the known swallow); Err e => the sink's own error, or a stored error standing
   for a zero-length write ([err_reported]). *)
Theorem C11_writer_write :
  forall estate enc_step enc_finished enc_more accepting live potential G,
  contract estate enc_step enc_finished enc_more accepting live potential G ->
  forall (w : writer estate) buf fuel,
  wready w -> accepting (t_st (w_enc w)) = true -> write_fuel potential G w buf <= fuel ->
  write_post enc_step accepting potential G w buf fuel (write enc_step fuel w buf).
Proof. exact write_spec. Qed.
Print Assumptions C11_writer_write.

(* ... and it returns (possibly with a panic in the known class) in every encoder state *)
Theorem C11_writer_write_returns :
  forall estate enc_step enc_finished enc_more accepting live potential G,
  contract estate enc_step enc_finished enc_more accepting live potential G ->
  forall (w : writer estate) buf fuel,
  wready w -> write_fuel potential G w buf <= fuel -> fst (write enc_step fuel w buf) <> OutOfFuel.
Proof. exact write_returns. Qed.
Print Assumptions C11_writer_write_returns.

Theorem C11_writer_flush :
  forall estate enc_step enc_finished enc_more accepting live potential G,
  contract estate enc_step enc_finished enc_more accepting live potential G ->
  forall (w : writer estate) fuel,
  wready w -> flush_fuel potential w <= fuel ->
  flush_call_post enc_step enc_finished enc_more accepting live potential w fuel (flush enc_step enc_finished enc_more fuel w).
Proof. exact flush_spec. Qed.
Print Assumptions C11_writer_flush.

(* into_inner / Drop return (never panic, never spin); when flush_or_close succeeded the encoder
   is finished and the sink is complete; when it failed the error is reported to nobody *)
Theorem C11_writer_close :
  forall estate enc_step enc_finished enc_more accepting live potential G,
  contract estate enc_step enc_finished enc_more accepting live potential G ->
  forall (w : writer estate) fuel,
  wready w -> flush_fuel potential w <= fuel ->
  close_post enc_step enc_finished enc_more w fuel (close enc_step enc_finished enc_more fuel w).
Proof. exact close_spec. Qed.
Print Assumptions C11_writer_close.

(* outside [KnownExhausted] no call panics and no zero-length write is swallowed, whatever the
   encoder does *)
Theorem C11_writer_write_outside_known :
  forall estate (enc_step : estate -> op -> list byte -> nat -> eans estate) fuel (w : writer estate) rest,
  tail_ok (k_script (w_sink w)) -> ~ KnownExhausted w ->
  known_quiet w (write_loop enc_step fuel w rest).
Proof. exact write_outside_known. Qed.
Print Assumptions C11_writer_write_outside_known.

Theorem C11_writer_flush_outside_known :
  forall estate (enc_step : estate -> op -> list byte -> nat -> eans estate) enc_finished enc_more
         fuel (w : writer estate) o,
  tail_ok (k_script (w_sink w)) -> ~ KnownExhausted w ->
  known_quiet w (flush_or_close enc_step enc_finished enc_more fuel w o).
Proof. exact flush_outside_known. Qed.
Print Assumptions C11_writer_flush_outside_known.

(* a whole session on a fresh writer, any script of short writes and interrupts: if every visible
   call succeeded and the sink never answered an error or a zero-length write (the only thing the
   caller cannot see is a failure inside into_inner / Drop), then the encoder is finished, the sink
   holds everything it produced, and it was fed the concatenation of the written buffers *)
Theorem C11_writer_session :
  forall estate enc_step enc_finished enc_more accepting live potential G,
  contract estate enc_step enc_finished enc_more accepting live potential G ->
  forall ops fuel (w : writer estate),
  wclean accepting w -> session_fuel potential G w ops <= fuel -> closes ops = true ->
  let (rs, w') := write_session enc_step enc_finished enc_more fuel ops w in
  Forall (fun r => r = Ok tt) rs -> errs w' = errs w -> zeros w' = zeros w ->
  enc_finished (t_st (w_enc w')) = true /\ sink_bytes (w_sink w') = emitted (w_enc w') /\
  fed (w_enc w') = fed (w_enc w) ++ written ops.
Proof. exact write_session_complete. Qed.
Print Assumptions C11_writer_session.

(* witnesses of the known classes (concrete encoder [toy_step], proved to satisfy [contract]) *)
Theorem C11_writer_exhausted_swallow_witness :
  let w0 := writer_new 2 toy0 (scripted_sink [Zero; Zero; Zero] Full) in
  let '(rs, w) := write_session (toy_step false) toy_finished toy_more big_fuel
                    [WWrite bytes_abc; WFlush; WFlush; WFlush] w0 in
  rs = [Err EWriteZero; Err EInvalidData; Ok tt; Ok tt] /\
  log_zero_writes (k_log (w_sink w)) = 3 /\ sink_bytes (w_sink w) <> emitted (w_enc w).
Proof. exact writer_swallow_witness. Qed.
Print Assumptions C11_writer_exhausted_swallow_witness.

Theorem C11_writer_exhausted_panic_witness :
  let w0 := writer_new 2 toy0 (scripted_sink [Full; Fail 9] Full) in
  let '(rs, w) := write_session (toy_step false) toy_finished toy_more big_fuel
                    [WWrite bytes_abc; WFlush; WWrite [120%N]; WWrite [121%N]] w0 in
  rs = [Ok tt; Err (EScript 9); Err EInvalidData; Panic 1].
Proof. exact writer_panic_witness. Qed.
Print Assumptions C11_writer_exhausted_panic_witness.

Theorem C11_writer_close_discards_witness :
  let w0 := writer_new 8 toy0 (scripted_sink [Full; Fail 5] Full) in
  let w1 := snd (write (toy_step false) big_fuel w0 bytes_abc) in
  match close (toy_step false) toy_finished toy_more big_fuel w1 with
  | (vis, discarded, w2) =>
    vis = Ok tt /\ discarded = Err (EScript 5) /\ sink_bytes (w_sink w2) = bytes_abc /\
    emitted (w_enc w2) = bytes_abc ++ [255%N]
  end.
Proof. exact writer_close_witness. Qed.
Print Assumptions C11_writer_close_discards_witness.

(* ------------------------------------------------------------------ copy adapter *)
(* For every pair of scripts the call returns within copy_fuel iterations, never panics, and
     Ok n  : no wrapped call failed; the encoder is finished, the sink holds everything it
             produced (n bytes), and it was fed every byte the wrapped reader delivered;
     Err e : either e is the FIRST read error - and then, unless the sink failed too, the stream
             was still finished and is complete for the bytes read before - or no read error
             occurred and e is the sink's own error, or UnexpectedEof standing for its
             zero-length write.  See [copy_post]. *)
Theorem C11_copy :
  forall estate enc_step enc_finished enc_more accepting live potential G,
  contract estate enc_step enc_finished enc_more accepting live potential G ->
  forall (st0 : estate) ni no src k fuel,
  0 < ni -> 0 < no -> fresh_source src -> tail_ok (k_script k) -> k_got k = [] ->
  accepting st0 = true -> enc_finished st0 = false ->
  copy_fuel potential G (copier_new ni no st0 src k) <= fuel ->
  copy_post enc_finished (log_errs (src_log src)) (kerrs k) (kzeros k)
            (copy enc_step enc_finished fuel (copier_new ni no st0 src k)).
Proof. exact copy_spec. Qed.
Print Assumptions C11_copy.

(* the loop as it stood: a sink that always answers Ok(0) is retried for ever *)
Theorem C11_copy_zero_write_unrepaired_refuted :
  forall fuel, fst (copy_zero_retries (toy_step false) toy_finished fuel copy_witness) = OutOfFuel.
Proof. exact copy_unrepaired_spins. Qed.
Print Assumptions C11_copy_zero_write_unrepaired_refuted.

(* ------------------------------------------------------------------ the encoder hypotheses *)
(* the contract is satisfiable: a concrete encoder (identity + terminator; [true]: one frame per call) *)
Theorem C11_contract_satisfiable : forall framed,
  contract toy (toy_step framed) toy_finished toy_more toy_accepting toy_live toy_potential 2.
Proof. exact toy_contract. Qed.
Print Assumptions C11_contract_satisfiable.

(* [chunk_independent] cannot be dropped from C11_reader_transparent: with the framing encoder
   (which satisfies the contract) one short read changes the delivered bytes *)
Theorem C11_chunk_dependence_witness :
  let run sc := read_session (toy_step true) toy_finished big_fuel 20 [] 64
                  (reader_new 8 toy0 (scripted_src bytes_abc sc Full)) in
  emitted (r_enc (snd (run []))) = [7%N] ++ bytes_abc ++ [255%N] /\
  emitted (r_enc (snd (run [Short 3]))) = [3%N; 97%N; 98%N; 99%N; 4%N; 100%N; 101%N; 102%N; 103%N; 255%N] /\
  Forall (fun r => exists n, r = Ok n) (fst (run [Short 3])).
Proof. exact chunk_dependence_witness. Qed.
Print Assumptions C11_chunk_dependence_witness.

(* non-vacuity: concrete non-trivial runs inside the hypotheses of the theorems above *)
Example C11_points :
  (let r0 := reader_new 4 toy0 (scripted_src bytes_abc [Short 1; Interrupted; Fail 7; Short 2] Full) in
   let '(rs, r) := read_session (toy_step false) toy_finished big_fuel 20 [0; 3; 1] 2 r0 in
   rs = [Ok 0; Ok 1; Err (EScript 7); Ok 2; Ok 2; Ok 2; Ok 1; Ok 0] /\
   emitted (r_enc r) = bytes_abc ++ [255%N] /\ src_taken_bytes (r_src r) = bytes_abc) /\
  (let c0 := copier_new 3 2 toy0 (scripted_src bytes_abc [Short 2; Interrupted; Full; Fail 4] Full)
                        (scripted_sink [Short 1; Interrupted] Full) in
   let '(r, c) := copy (toy_step false) toy_finished big_fuel c0 in
   r = Err (EScript 4) /\ sink_bytes (c_sink c) = [97%N; 98%N; 99%N; 100%N; 101%N; 255%N] /\
   toy_finished (t_st (c_enc c)) = true) /\
  (let c0 := copier_new 3 2 toy0 (plain_src bytes_abc) (scripted_sink [Full; Zero] Full) in
   fst (copy (toy_step false) toy_finished big_fuel c0) = Err EUnexpectedEof).
Proof. split; [exact reader_example|split; [exact copy_example|exact copy_zero_example]]. Qed.
