(* C12 - concatenator output is independent of slicing and of save/restore.  Property theorems only. *)
From Coq Require Import NArith List.
From V Require Import lib.Words model.Concat model.ConcatRun spec.ConcatSpec proofs.Concat_proofs.
Import ListNotations.
Open Scope N_scope.

(* Serialising any state that satisfies the invariant into any buffer of at least 21 bytes
   (whatever it contained before) and reading it back gives exactly the same state. *)
Theorem C12_serialize : forall s buf, Inv s -> 21 <= lenN buf ->
  exists b, serialize_to_buffer s buf = Some b /\ lenN b = lenN buf /\ deserialize_from_buffer b = Some s.
Proof. exact serialize_deserialize_id. Qed.
Print Assumptions C12_serialize.
