(* C12 - concatenator output is independent of slicing and of save/restore.  Property theorems
   only.  The model (model/Concat.v) is the repaired src/concat/mod.rs. *)
From Coq Require Import NArith List.
From V Require Import lib.Words model.Concat model.ConcatRun spec.ConcatSpec proofs.Concat_proofs proofs.Concat_inv
  proofs.Concat_run proofs.Concat_findings proofs.Concat_delay proofs.Concat_slicing proofs.Concat_glue.
Import ListNotations.
Open Scope N_scope.

(* Serialising any state that satisfies the invariant into any buffer of at least 21 bytes
   (whatever it contained before) and reading it back gives exactly the same state. *)
Theorem C12_serialize : forall s buf, Inv s -> 21 <= lenN buf ->
  exists b, serialize_to_buffer s buf = Some b /\ lenN b = lenN buf /\ deserialize_from_buffer b = Some s.
Proof. exact serialize_deserialize_id. Qed.
Print Assumptions C12_serialize.

(* Any protocol-following script (buffers of bytes, streamed after new_brotli_file), any output
   buffer sizes (one buffer until full, or a fresh one per call, sizes including 0), any call
   budget: inserting save/restore before any subset of the calls - or before all of them, as the
   C ABI does - gives exactly the same run: same emitted bytes, same final result, same trace. *)
Theorem C12_restore : forall fuel caps percall rall rs tasks s0,
  Inv s0 -> tasks_ok (Started s0) tasks ->
  run_native fuel caps percall rall rs tasks s0 = run_native fuel caps percall false [] tasks s0.
Proof. exact run_restore_irrelevant. Qed.
Print Assumptions C12_restore.

(* The C ABI wrapper on the serialised form of a state is the native operation on that state. *)
Theorem C12_ffi_stream : forall s input out, Inv s ->
  exists st, to_state s = Val st /\
    broccoli_concat_stream st input out =
      match stream s input 0 out 0 with
      | Panic => Panic
      | Val r => match to_state (r_s r) with
                 | Panic => Panic
                 | Val st' => Val (mkC st' (r_in r) (r_out r) (r_off r) (r_rc r))
                 end
      end.
Proof. exact ffi_stream_is_native. Qed.
Print Assumptions C12_ffi_stream.

(* C12_slicing, for the executable protocol driver (model/ConcatRun.v, the one the correspondence
   check runs against the real code): two scripts over the SAME members - however each member is cut
   into non-empty input buffers (script_of / chunks_of, proofs/Concat_glue.v) - run with ANY output
   buffer sizes (including 0), either keeping one buffer until it is reported full or offering a
   fresh buffer on every call, from any state satisfying the invariant, and with enough call budget
   not to be cut off, end with the same result and have emitted the same bytes.  (Save/restore is
   covered by C12_restore, the C ABI by C12_ffi_stream.) *)
Theorem C12_slicing : forall ms ts1 ts2 fuel1 fuel2 caps1 caps2 pc1 pc2 s0,
  Inv s0 -> Forall bytes_ok ms -> script_of ms ts1 -> script_of ms ts2 ->
  rr_final (run_native fuel1 caps1 pc1 false [] ts1 s0) <> Looped ->
  rr_final (run_native fuel2 caps2 pc2 false [] ts2 s0) <> Looped ->
  rr_final (run_native fuel1 caps1 pc1 false [] ts1 s0) = rr_final (run_native fuel2 caps2 pc2 false [] ts2 s0) /\
  rr_emitted (run_native fuel1 caps1 pc1 false [] ts1 s0) = rr_emitted (run_native fuel2 caps2 pc2 false [] ts2 s0).
Proof. exact run_native_slicing_independent. Qed.
Print Assumptions C12_slicing.

(* The same statement over the protocol itself rather than over one particular driver: run_calls
   (proofs/Concat_slicing.v) admits every finite protocol-following sequence of stream / finish calls -
   any input buffer whose unread part is a prefix of what is left of the member, any output buffer,
   any cursors, any number of calls that make no progress. *)
Theorem C12_slicing_protocol : forall s ms e1 rc1 e2 rc2,
  InvP s -> run_calls s ms e1 rc1 -> run_calls s ms e2 rc2 -> e1 = e2 /\ rc1 = rc2.
Proof. intros s ms e1 rc1 e2 rc2 HI H1 H2. exact (run_slicing_independent s ms e1 rc1 H1 HI e2 rc2 H2). Qed.
Print Assumptions C12_slicing_protocol.

(* One member: same bytes, same answer, same state afterwards. *)
Theorem C12_slicing_member : forall need s rest e1 s1 rc1 e2 s2 rc2,
  phase_inv s -> member_calls need s rest e1 s1 rc1 -> member_calls need s rest e2 s2 rc2 ->
  e1 = e2 /\ s1 = s2 /\ rc1 = rc2.
Proof. exact member_slicing_independent. Qed.
Print Assumptions C12_slicing_member.

(* Along every protocol-following run no call panics (also part of C16). *)
Theorem C12_no_panic : forall fuel caps percall rall rs tasks s0,
  Inv s0 -> tasks_ok (Started s0) tasks ->
  rr_final (run_native fuel caps percall rall rs tasks s0) <> Panicked.
Proof. exact run_native_never_panics. Qed.
Print Assumptions C12_no_panic.

(* One call of the body copy, whatever the buffers, cursors and free space: what it wrote followed
   by what it holds back afterwards is what it held back before followed by what it consumed; the
   output buffer outside the written span is untouched. *)
Theorem C12_body_delay_line : forall s input in_off out off r,
  new_stream_pending s = None -> last_bytes_len s <= 2 -> in_off <= lenN input -> off <= lenN out ->
  stream_body s input in_off out off = Val r ->
  span (r_out r) off (r_off r) ++ held (r_s r) = held s ++ span input in_off (r_in r) /\
  takeN off (r_out r) = takeN off out /\ dropN (r_off r) (r_out r) = dropN (r_off r) out.
Proof. exact stream_body_delay. Qed.
Print Assumptions C12_body_delay_line.

(* Slicing independence of the body phase. *)
Theorem C12_slicing_body : forall s c e1 e2 s1 s2,
  BI s -> body_calls s c e1 s1 -> body_calls s c e2 s2 ->
  last_bytes_len s1 = 2 -> last_bytes_len s2 = 2 ->
  e1 = e2 /\ lb0 s1 = lb0 s2 /\ lb1 s1 = lb1 s2.
Proof. exact body_slicing_independent. Qed.
Print Assumptions C12_slicing_body.

(* The same kind of equation for the two short phases that handle stored bytes: the look-ahead grows
   by exactly the bytes consumed (and stops at 5), and while the realigned header is written out,
   what a call wrote followed by what is still owed is what was owed before. *)
Theorem C12_collect_append : forall s p input in_off s1 p1 in1,
  lenN (bytes_so_far p) = 5 -> num_bytes_read p <= 5 -> in_off <= lenN input ->
  collect_header s p input in_off = Val (s1, p1, in1) ->
  takeN (num_bytes_read p1) (bytes_so_far p1) = takeN (num_bytes_read p) (bytes_so_far p) ++ span input in_off in1 /\
  num_bytes_read p1 = N.min 5 (num_bytes_read p + (lenN input - in_off)) /\
  in1 = in_off + (num_bytes_read p1 - num_bytes_read p) /\ num_bytes_written p1 = num_bytes_written p.
Proof. exact collect_append. Qed.
Print Assumptions C12_collect_append.

Theorem C12_emit_owed : forall s p out off f,
  lenN (bytes_so_far p) = 5 -> num_bytes_read p <= 5 -> off <= lenN out ->
  (exists w, num_bytes_written p = Some w /\ w <= num_bytes_read p) ->
  shift_emit s p out off = Val f ->
  takeN off (f_out f) = takeN off out /\
  ((f_rc f = NeedsMoreOutput /\ exists p', new_stream_pending (f_s f) = Some p' /\
      span (f_out f) off (f_off f) ++ owed p' = owed p) \/
   (f_rc f = Success /\ new_stream_pending (f_s f) = None /\ last_bytes_len (f_s f) = 1 /\
      exists k, span (f_out f) off k = owed p /\ f_off f + 1 = k /\
                (1 <= lenN (owed p) -> [lb0 (f_s f)] = span (f_out f) (f_off f) k))).
Proof. exact shift_emit_delay. Qed.
Print Assumptions C12_emit_owed.

(* The code before the repairs violated the slicing statement in three ways (each replayed on the
   real pre-fix code; all fixed, see known_findings.json): *)
Theorem C12_slicing_refuted_before_fix_lookahead :
  rr_final (run_orig 100 [64] false false [] [TFile; TChunk m_a; TFile; TChunk m_meta3_hdr] (o_init None)) = Done Success /\
  rr_final (run_orig 100 [64] false false [] t_meta3 (o_init None)) = Panicked.
Proof. exact C12_slicing_refuted_orig_lookahead. Qed.
Print Assumptions C12_slicing_refuted_before_fix_lookahead.

Theorem C12_slicing_refuted_before_fix_zero_space :
  result (run_orig 200 [64] true false [] t_two (o_init None)) <> result (run_orig 200 [64; 0; 64] true false [] t_two (o_init None)).
Proof. exact C12_slicing_refuted_orig_zero_space. Qed.
Print Assumptions C12_slicing_refuted_before_fix_zero_space.

Theorem C12_slicing_refuted_before_fix_emission :
  result (run_orig 300 [64] false false [] [TFile; TChunk m_a; TFile; TChunk [44; 0; 77; 3]; TFinish] (o_init None))
  <> result (run_orig 300 [1] true false [] [TFile; TChunk m_a; TFile; TChunk [44; 0; 77; 3]; TFinish] (o_init None)).
Proof. exact C12_slicing_refuted_orig_emission. Qed.
Print Assumptions C12_slicing_refuted_before_fix_emission.

(* Non-vacuity of the hypotheses of C12_slicing: two different slicings of two real members (a 10-byte
   appendable stream and a 9-byte catable one), one-shot with an ample buffer vs. cut input with 1-byte
   and 0-byte output buffers, both from BroCatli::new(), both ending normally *)
Example C12_slicing_hypotheses_satisfiable :
  script_of [m_first_ex; m_second_ex] script_a /\ script_of [m_first_ex; m_second_ex] script_b /\
  Forall bytes_ok [m_first_ex; m_second_ex] /\ Inv bc_new /\
  rr_final (run_native 100 [64] false false [] script_a bc_new) <> Looped /\
  rr_final (run_native 400 [1; 0] true false [] script_b bc_new) <> Looped.
Proof. exact two_scripts. Qed.

(* Non-vacuity of the hypotheses of C12_restore: a two-member script from the initial state *)
Example C12_hypotheses_satisfiable :
  Inv bc_new /\ tasks_ok (Started bc_new) t_two /\
  result (run_native 200 [3; 0; 1] true true [] t_two bc_new) = result (run_native 200 [64] false false [] t_two bc_new).
Proof. vm_compute. repeat split; try reflexivity; repeat constructor. Qed.
