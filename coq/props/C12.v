(* C12 - concatenator output is independent of slicing and of save/restore.  Property theorems
   only.  The model (model/Concat.v) is the repaired src/concat/mod.rs. *)
From Coq Require Import NArith List.
From V Require Import lib.Words model.Concat model.ConcatRun spec.ConcatSpec proofs.Concat_proofs proofs.Concat_inv
  proofs.Concat_run proofs.Concat_findings proofs.Concat_delay.
Import ListNotations.
Open Scope N_scope.

(* Serialising any state that satisfies the invariant into any buffer of at least 21 bytes
   (whatever it contained before) and reading it back gives exactly the same state. *)
Theorem C12_serialize : forall s buf, Inv s -> 21 <= lenN buf ->
  exists b, serialize_to_buffer s buf = Some b /\ lenN b = lenN buf /\ deserialize_from_buffer b = Some s.
Proof. exact serialize_deserialize_id. Qed.
Print Assumptions C12_serialize.

(* Any protocol-following script (buffers of bytes, streamed after new_brotli_file), any output
   buffer sizes (one buffer until full, or a fresh one per call, sizes including 0), any call
   budget: inserting save/restore before any subset of the calls - or before all of them, as the
   C ABI does - gives exactly the same run: same emitted bytes, same final result, same trace. *)
Theorem C12_restore : forall fuel caps percall rall rs tasks s0,
  Inv s0 -> tasks_ok (Started s0) tasks ->
  run_native fuel caps percall rall rs tasks s0 = run_native fuel caps percall false [] tasks s0.
Proof. exact run_restore_irrelevant. Qed.
Print Assumptions C12_restore.

(* The C ABI wrapper on the serialised form of a state is the native operation on that state. *)
Theorem C12_ffi_stream : forall s input out, Inv s ->
  exists st, to_state s = Val st /\
    broccoli_concat_stream st input out =
      match stream s input 0 out 0 with
      | Panic => Panic
      | Val r => match to_state (r_s r) with
                 | Panic => Panic
                 | Val st' => Val (mkC st' (r_in r) (r_out r) (r_off r) (r_rc r))
                 end
      end.
Proof. exact ffi_stream_is_native. Qed.
Print Assumptions C12_ffi_stream.

(* The full slicing statement: two protocol-following runs over the same members agree on the
   emitted bytes and on the final result, whatever the input slicing and the output buffer sizes.
   `chunked` relates a task list to the member list it slices. *)
Inductive chunks_of : list N -> list task -> list task -> Prop :=
  | co_nil : forall rest, chunks_of [] rest rest
  | co_cons : forall c m rest ts, chunks_of m rest ts -> chunks_of (c ++ m) rest (TChunk c :: ts).
Inductive script_of : list (list N) -> list task -> Prop :=
  | so_end : script_of [] [TFinish]
  | so_member : forall m ms ts ts', script_of ms ts -> chunks_of m ts ts' -> script_of (m :: ms) (TFile :: ts').
Definition enough_fuel (fuel : nat) (caps : list N) (percall : bool) (ts : list task) (s0 : BroCatli) : Prop :=
  rr_final (run_native fuel caps percall false [] ts s0) <> Looped.
Definition C12_slicing_stmt : Prop :=
  forall (members : list (list N)) ts1 ts2 fuel1 fuel2 caps1 caps2 pc1 pc2 s0,
    Inv s0 -> Forall bytes_ok members -> script_of members ts1 -> script_of members ts2 ->
    enough_fuel fuel1 caps1 pc1 ts1 s0 -> enough_fuel fuel2 caps2 pc2 ts2 s0 ->
    let r1 := run_native fuel1 caps1 pc1 false [] ts1 s0 in
    let r2 := run_native fuel2 caps2 pc2 false [] ts2 s0 in
    rr_final r1 = rr_final r2 /\ rr_emitted r1 = rr_emitted r2.
(* Proved so far: (1) C12_slicing_partial - along every such run no call panics and the invariant
   holds, so the two runs differ at most in how the same calls are cut; (2) C12_slicing_body - the
   statement for the body phase of a member (everything after its realigned header, i.e. all but
   the first <= 6 bytes): any two sequences of calls, with any buffers, cursors and amounts of free
   output space (including none), that consume the same bytes write the same bytes and hold back the
   same two bytes, by the delay-line equation C12_body_delay_line; (3) the analogous equations for
   the look-ahead collection and for the emission of the realigned header (C12_collect_append,
   C12_emit_owed); (4) C12_restore / C12_serialize - save/restore never matters.  Missing: that
   flush_previous_stream and the header realignment depend on the output buffer only through
   "is there room for one byte" (true by inspection since repair 1b792a2, not yet a lemma), the
   glue of the four phases inside one `stream` call, and the induction over members including the
   error answers; that part of the statement
   is covered by the differential check only (checks/c12.py: every split point, every zero-space
   call index, 1-byte buffers, against the one-shot run). *)
Theorem C12_slicing_partial : forall fuel caps percall rall rs tasks s0,
  Inv s0 -> tasks_ok (Started s0) tasks ->
  rr_final (run_native fuel caps percall rall rs tasks s0) <> Panicked.
Proof. exact run_native_never_panics. Qed.
Print Assumptions C12_slicing_partial.

(* One call of the body copy, whatever the buffers, cursors and free space: what it wrote followed
   by what it holds back afterwards is what it held back before followed by what it consumed; the
   output buffer outside the written span is untouched. *)
Theorem C12_body_delay_line : forall s input in_off out off r,
  new_stream_pending s = None -> last_bytes_len s <= 2 -> in_off <= lenN input -> off <= lenN out ->
  stream_body s input in_off out off = Val r ->
  span (r_out r) off (r_off r) ++ held (r_s r) = held s ++ span input in_off (r_in r) /\
  takeN off (r_out r) = takeN off out /\ dropN (r_off r) (r_out r) = dropN (r_off r) out.
Proof. exact stream_body_delay. Qed.
Print Assumptions C12_body_delay_line.

(* Slicing independence of the body phase. *)
Theorem C12_slicing_body : forall s c e1 e2 s1 s2,
  BI s -> body_calls s c e1 s1 -> body_calls s c e2 s2 ->
  last_bytes_len s1 = 2 -> last_bytes_len s2 = 2 ->
  e1 = e2 /\ lb0 s1 = lb0 s2 /\ lb1 s1 = lb1 s2.
Proof. exact body_slicing_independent. Qed.
Print Assumptions C12_slicing_body.

(* The same kind of equation for the two short phases that handle stored bytes: the look-ahead grows
   by exactly the bytes consumed (and stops at 5), and while the realigned header is written out,
   what a call wrote followed by what is still owed is what was owed before. *)
Theorem C12_collect_append : forall s p input in_off s1 p1 in1,
  lenN (bytes_so_far p) = 5 -> num_bytes_read p <= 5 -> in_off <= lenN input ->
  collect_header s p input in_off = Val (s1, p1, in1) ->
  takeN (num_bytes_read p1) (bytes_so_far p1) = takeN (num_bytes_read p) (bytes_so_far p) ++ span input in_off in1 /\
  num_bytes_read p1 = N.min 5 (num_bytes_read p + (lenN input - in_off)) /\
  in1 = in_off + (num_bytes_read p1 - num_bytes_read p) /\ num_bytes_written p1 = num_bytes_written p.
Proof. exact collect_append. Qed.
Print Assumptions C12_collect_append.

Theorem C12_emit_owed : forall s p out off f,
  lenN (bytes_so_far p) = 5 -> num_bytes_read p <= 5 -> off <= lenN out ->
  (exists w, num_bytes_written p = Some w /\ w <= num_bytes_read p) ->
  shift_emit s p out off = Val f ->
  takeN off (f_out f) = takeN off out /\
  ((f_rc f = NeedsMoreOutput /\ exists p', new_stream_pending (f_s f) = Some p' /\
      span (f_out f) off (f_off f) ++ owed p' = owed p) \/
   (f_rc f = Success /\ new_stream_pending (f_s f) = None /\ last_bytes_len (f_s f) = 1 /\
      exists k, span (f_out f) off k = owed p /\ f_off f + 1 = k /\
                (1 <= lenN (owed p) -> [lb0 (f_s f)] = span (f_out f) (f_off f) k))).
Proof. exact shift_emit_delay. Qed.
Print Assumptions C12_emit_owed.

(* The code before the repairs violated the slicing statement in three ways (each replayed on the
   real pre-fix code; all fixed, see known_findings.json): *)
Theorem C12_slicing_refuted_before_fix_lookahead :
  rr_final (run_orig 100 [64] false false [] [TFile; TChunk m_a; TFile; TChunk m_meta3_hdr] (o_init None)) = Done Success /\
  rr_final (run_orig 100 [64] false false [] t_meta3 (o_init None)) = Panicked.
Proof. exact C12_slicing_refuted_orig_lookahead. Qed.
Print Assumptions C12_slicing_refuted_before_fix_lookahead.

Theorem C12_slicing_refuted_before_fix_zero_space :
  result (run_orig 200 [64] true false [] t_two (o_init None)) <> result (run_orig 200 [64; 0; 64] true false [] t_two (o_init None)).
Proof. exact C12_slicing_refuted_orig_zero_space. Qed.
Print Assumptions C12_slicing_refuted_before_fix_zero_space.

Theorem C12_slicing_refuted_before_fix_emission :
  result (run_orig 300 [64] false false [] [TFile; TChunk m_a; TFile; TChunk [44; 0; 77; 3]; TFinish] (o_init None))
  <> result (run_orig 300 [1] true false [] [TFile; TChunk m_a; TFile; TChunk [44; 0; 77; 3]; TFinish] (o_init None)).
Proof. exact C12_slicing_refuted_orig_emission. Qed.
Print Assumptions C12_slicing_refuted_before_fix_emission.

(* Non-vacuity of the hypotheses of C12_restore: a two-member script from the initial state *)
Example C12_hypotheses_satisfiable :
  Inv bc_new /\ tasks_ok (Started bc_new) t_two /\
  result (run_native 200 [3; 0; 1] true true [] t_two bc_new) = result (run_native 200 [64] false false [] t_two bc_new).
Proof. vm_compute. repeat split; try reflexivity; repeat constructor. Qed.
