(* C13 - C ABI behaves as the Rust API: same bytes, exact cursor accounting, no unwinding.
   Property theorems only.  BrotliEncoderCompressStream is the Rust compress_stream plus
   pointer arithmetic (next_in += consumed, next_out += produced) and a total_out cell that
   it seeds before the call; these theorems are about that inner call in the stream model
   (model/Stream.v), for ALL back-end answers.  "Same bytes as the Rust API" and "no call
   unwinds" are decided per run by driving the exported functions and the Rust API with the
   same call histories (the C functions are the same code, so there is nothing to prove
   beyond the wrapper arithmetic). *)
From Coq Require Import NArith List Bool.
From V Require Import lib.Words model.Stream proofs.Stream_proofs.
Import ListNotations.
Open Scope N_scope.

(* total_out: with the cell seeded with the encoder's running total (as the repaired C
   wrapper does), after ANY stream call - whatever it returns - the cell equals the running
   total, and the running total grew by exactly the number of bytes the call delivered
   (including metadata payload copied straight into the caller's buffer). *)
Theorem C13_total : forall s0 op payload offered capn r s' x',
  total_out_ s0 < 2 ^ 64 ->
  compress_stream_from (total_out_ s0) s0 op payload offered capn = Done (r, s', x') ->
  total_arg x' = total_out_ s' /\ total_out_ s' = w64 (total_out_ s0 + lenN (produced x')).
Proof. exact stream_call_accounting. Qed.
Print Assumptions C13_total.

(* As found the wrapper seeded the cell with 0, so a call that delivered nothing reported 0
   although bytes had been delivered before (fixed in 8407d2e). *)
Theorem C13_total_asfound_refuted :
  exists s0 op offered capn, total_out_ s0 = 5 /\
    c_reported_total_asfound s0 op [] offered capn = Some 0 /\
    c_reported_total s0 op [] offered capn = Some 5.
Proof.
  exists (upd_out (ensure_initialized init_st) NoNone [] 0 (repeat 0 16) 0 5), OpProcess, 0, 0.
  vm_compute. repeat split; reflexivity.
Qed.
Print Assumptions C13_total_asfound_refuted.

(* cursors: consumed + still-available = offered, produced + remaining capacity = capacity:
   the pointers advance by precisely the amounts the available counters decrease, and never
   beyond the buffers (operations other than metadata; back-end answers within their size
   contract, which answer_ok states and every run validates). *)
Theorem C13_cursors : forall s0 op payload offered capn r s' x',
  op <> OpMeta -> all_ok (oracle s0) ->
  compress_stream s0 op payload offered capn = Done (r, s', x') ->
  in_off x' + avail_in x' = offered /\ lenN (produced x') + cap x' = capn.
Proof. exact stream_call_cursors. Qed.
Print Assumptions C13_cursors.

(* take-output hands out a prefix of the pending bytes, counts them once, and what stays
   pending is exactly the rest: no byte twice, none skipped. *)
Theorem C13_take : forall s n bs s',
  take_output s n = Done (bs, s') ->
  (forall off, next_out s = NoDyn off \/ next_out s = NoTiny off -> off + avail_out_ s < 2 ^ 32) ->
  let k := if n =? 0 then avail_out_ s else N.min n (avail_out_ s) in
  bs = takeN k (view s) /\ avail_out_ s' = avail_out_ s - k
  /\ total_out_ s' = (if k =? 0 then total_out_ s else wadd64 (total_out_ s) k)
  /\ (avail_out_ s' <> 0 -> view s' = skipN k (view s)).
Proof. exact take_output_prefix. Qed.
Print Assumptions C13_take.

(* thread count of the multi-threaded entry points: 0 is refused, otherwise min(desired,16)
   workers are used and every per-thread opaque index k mod desired is inside the array of
   `desired` opaques the caller passed *)
Theorem C13_threads : forall desired k, desired <> 0 ->
  N.min desired 16 <= 16 /\ 1 <= N.min desired 16 /\ k mod desired < desired.
Proof.
  intros desired k H. repeat split.
  - apply N.le_min_r.
  - apply N.min_glb; [apply N.neq_0_lt_0 in H; apply N.lt_pred_le; exact H|discriminate].
  - apply N.mod_lt; exact H.
Qed.
Print Assumptions C13_threads.
