(* C14 - the meta-block callback's IR replays to exactly the input.
   Property theorems only; every proof is `exact <lemma>` (proofs/Recoder_proofs.v,
   proofs/IrReplay_proofs.v).  Model: model/Recoder.v (process_command_queue / LogMetaBlock /
   InputPair::split_at / push_literals); specification: spec/IrReplay.v (replay of the IR, and the
   decoder's reading `cmds_ok` of the encoder's own command list).  The static dictionary and the
   transforms are universally quantified; the two facts used about them are visible premises
   (at most 256 transforms; every expansion is shorter than 256 bytes - the real tables have 121
   and at most 37, checked on every run by the driver). *)
From Coq Require Import NArith ZArith List.
From V Require Import lib.Words model.Arith spec.IrReplay model.Recoder proofs.IrReplay_proofs proofs.Recoder_proofs.
Import ListNotations.
Open Scope N_scope.

(* One meta-block.  If the recoder state equals the number of bytes that precede the meta-block
   (custom dictionary included: recoder_inv), the block splits are ones LogMetaBlock accepts, and
   the encoder's command list is well-formed (cmds_ok, boolean: under the decoder's rules the
   inserts and copies tile the block, every distance is within the bytes produced so far and the
   window or denotes an existing dictionary word, and the bytes are the meta-block input), then the
   model of process_command_queue does not panic, leaves the state equal to the bytes preceding the
   next meta-block, and the IR it pushes replays (ir_replays): every Copy distance is between 1 and
   the bytes produced so far + |pre|, every Dict command's final_size is the length of its
   expansion, every literal slice starts where the replay stands (the slices tile the input), and
   the replayed bytes are exactly the meta-block input. *)
Theorem C14_recode :
  forall (dict_word : N -> N -> list N) (transforms : list (list N * N * list N))
         (lgwin nd np he_quality : N) (has_context_type : bool) (pre mb : list N),
  N.of_nat (length pre) + N.of_nat (length mb) < 2 ^ 31 ->
  (length transforms <= 256)%nat ->
  (forall ws id t w, dict_expand dict_word transforms ws id t = Some w -> (length w < 256)%nat) ->
  forall (bl bc bd : bsplit) (ring : list Z) (l0 l1 : N) (cmds : list command),
  l0 + l1 = N.of_nat (length mb) -> length ring = 4%nat ->
  split_ok false bl = true -> split_ok true bc = true -> split_ok true bd = true ->
  cmds_ok dict_word transforms lgwin nd np pre mb ring cmds = true ->
  exists ir,
    recode dict_word transforms (mb_at mb) lgwin nd np he_quality has_context_type bl bc bd ring l0 l1 cmds
           (N.of_nat (length pre)) = Done (ir, N.of_nat (length pre) + N.of_nat (length mb))
    /\ ir_replays dict_word transforms pre mb ir.
Proof. exact recode_correct. Qed.
Print Assumptions C14_recode.

(* A whole stream: starting from recoder_init (= the dictionary bytes placed before the input),
   the state handed from meta-block to meta-block keeps the invariant, so every IR list replays
   over the dictionary and everything replayed before. *)
Theorem C14_stream :
  forall (dict_word : N -> N -> list N) (transforms : list (list N * N * list N)) (lgwin : N),
  (length transforms <= 256)%nat ->
  (forall ws id t w, dict_expand dict_word transforms ws id t = Some w -> (length w < 256)%nat) ->
  forall (ms : list mblock) (pre : list N),
  N.of_nat (length pre) + N.of_nat (length (concat (map m_bytes ms))) < 2 ^ 31 ->
  stream_hyp dict_word transforms lgwin pre ms ->
  stream_concl dict_word transforms lgwin pre (recoder_init (N.of_nat (length pre))) ms.
Proof. exact recode_stream_correct. Qed.
Print Assumptions C14_stream.

(* What a successful replay step guarantees about the command it executed. *)
Theorem C14_replay_step :
  forall (dict_word : N -> N -> list N) (transforms : list (list N * N * list N)) (c : ir_cmd) (s s' : rstate),
  ir_step dict_word transforms c s = Ok s' ->
  match c with
  | IrCopy d n => 1 <= d /\ d <= produced s /\ n <= remaining s /\ s' = emit_copy d n s
  | IrDict ws tr fs _ id => exists w, dict_expand dict_word transforms ws id tr = Some w
                                      /\ N.of_nat (length w) = fs /\ fs <= remaining s /\ s' = emit w fs s
  | IrLiteral off len _ => off = pos s /\ len <= remaining s /\ s' = adv len s
  | _ => s' = s
  end.
Proof. exact ir_step_meaning. Qed.
Print Assumptions C14_replay_step.

(* The block-move form of a copy used by the executable replay is the byte-serial LZ77 copy. *)
Theorem C14_copy_block_move : forall (n d : nat) (h : list N),
  (d <= length h)%nat -> copy_fast n d h = copy_loop n d h.
Proof. exact copy_fast_loop. Qed.
Print Assumptions C14_copy_block_move.

(* The code as found: RecoderState started at 0 even with a custom dictionary, so recoder_inv
   failed at the first meta-block; a well-formed command that copies out of a 30-byte dictionary
   makes the faithful model panic in `assert!(copy_len < 25)` (replayed on the real encoder: custom
   dictionary + BROTLI_METABLOCK_CALLBACK panicked inside compress_stream).  With the repaired
   initial state (fix 3908b8c) the same meta-block is recoded to a Copy. *)
Theorem C14_recode_unfixed_refuted :
  forall (dict_word : N -> N -> list N) (transforms : list (list N * N * list N)),
  exists pre cmds ring,
    cmds_ok dict_word transforms 16 0 0 pre pre ring cmds = true
    /\ recode dict_word transforms (mb_at pre) 16 0 0 0 true bs_nop bs_nop bs_nop ring 30 0 cmds
              (recoder_init_unfixed (N.of_nat (length pre))) = Panic PCopyLenGe25
    /\ recode dict_word transforms (mb_at pre) 16 0 0 0 true bs_nop bs_nop bs_nop ring 30 0 cmds
              (recoder_init (N.of_nat (length pre))) = Done ([IrBlockSwitchLiteral 0 0; IrCopy 30 30], 60).
Proof. exact witness_refuted. Qed.
Print Assumptions C14_recode_unfixed_refuted.

(* The stride-detection side channel (stride_detection_quality > 2): after any number n of literal
   block types the score array is large enough for choose_stride's assertion and for every read
   it makes.  As found the assertion asked for 8 more entries than update_block_type provides and
   fired for n = 3, 7, 15, ... (replayed: quality 6, 30 kB of mixed text, parameter 152 = 4
   panicked inside compress_stream; fix 2b60b9a). *)
Theorem C14_stride_assert : forall n : nat,
  choose_stride_ok n = true /\ forall index, index < N.of_nat n -> (1 + index) * 8 + 8 <= score_len n.
Proof. exact choose_stride_holds. Qed.
Print Assumptions C14_stride_assert.
Theorem C14_stride_assert_unfixed_refuted : choose_stride_ok_unfixed 3 = false /\ choose_stride_ok_unfixed 7 = false.
Proof. exact choose_stride_unfixed_fails. Qed.
Print Assumptions C14_stride_assert_unfixed_refuted.

(* Non-vacuity: the hypotheses of C14_recode are met by that meta-block and its IR replays. *)
Example C14_nonvacuous :
  forall (dict_word : N -> N -> list N) (transforms : list (list N * N * list N)),
  ir_replays dict_word transforms wit_pre wit_pre [IrBlockSwitchLiteral 0 0; IrCopy 30 30].
Proof. exact witness_replays. Qed.
