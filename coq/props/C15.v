(* C15 - the header declares the requested window; the magic header states mode and size hint.
   Property theorems only; every proof is `exact <lemma>`.  The model (model/Header.v) takes
   its constants from gen/GenHeader.v, regenerated from /repo; the readers (spec/Header.v) are
   written from RFC 7932 section 9 and the large-window extension.

   `first_bits p0 delta tail` is the model of the first bits of a fresh stream for client
   settings p0 (delta/tail = unprocessed and still-available input when the first block is
   encoded); every theorem holds for an arbitrary continuation `t` of the stream. *)
From Coq Require Import NArith ZArith List Bool.
From V Require Import lib.Words gen.GenHeader spec.Header model.Header proofs.Header_proofs.
Import ListNotations.
Open Scope N_scope.

(* For ALL quality and lgwin in Z and every flag combination: an RFC 7932 (+ large window)
   header reader finds the clamped requested window (at quality 0/1 the larger of it and 18),
   in the 14-bit large-window form exactly when large windows were requested. *)
Theorem C15_window : forall q lgw large cat apd dict magic hint delta tail t,
  let p0 := mkParams q lgw large cat apd dict magic hint in
  let p := sanitize p0 in
  let w := if (quality p <=? 1)%Z then Z.max (lgwin p) 18 else lgwin p in
  (exists nb rest,
     rfc_read_wbits (first_bits p0 delta tail ++ t) = Some (Z.to_N w, large, nb, rest)
     /\ (nb = 14 <-> large = true) /\ (nb = 1 \/ nb = 4 \/ nb = 7 \/ nb = 14))
  /\ (10 <= w <= 30)%Z
  /\ lgwin p = clampZ 10 (if large then 30 else 24) lgw
  /\ quality p = clampZ 0 11 q.
Proof. exact window_statement. Qed.
Print Assumptions C15_window.

(* A decoder that implements RFC 7932 only (no large-window extension) can read the header
   iff large windows were not requested. *)
Theorem C15_strict : forall q lgw large cat apd dict magic hint delta tail t,
  let p0 := mkParams q lgw large cat apd dict magic hint in
  (large = false -> exists nb rest,
      rfc_read_wbits_strict (first_bits p0 delta tail ++ t) = Some (Z.to_N (spec_window q lgw large), nb, rest))
  /\ (large = true -> rfc_read_wbits_strict (first_bits p0 delta tail ++ t) = None).
Proof. exact strict_reader_statement. Qed.
Print Assumptions C15_strict.

(* The u32 -> i32 casts of set_parameter: a client passing any i32 quality / lgwin `as u32`
   (the C ABI and encoder_compress do) configures exactly those values. *)
Theorem C15_casts : forall q lgw lw cat apd magic hint,
  (- 2 ^ 31 <= q < 2 ^ 31)%Z -> (- 2 ^ 31 <= lgw < 2 ^ 31)%Z ->
  set_parameters init_params (client_settings q lgw lw cat apd magic hint)
  = (mkParams q lgw lw cat apd (negb cat) magic (w32 hint), true).
Proof. exact client_settings_params. Qed.
Print Assumptions C15_casts.

(* Magic option on: after WBITS comes a metadata meta-block (ISLAST=0, MNIBBLES=0, reserved 0)
   whose skipped bytes are exactly e1 97, the mode byte, the format version and the size hint
   in base 128, and which ends on a byte boundary with the rest of the stream untouched. *)
Theorem C15_magic : forall q lgw large cat apd dict hint delta tail t,
  hint < 2 ^ 64 ->
  let p0 := mkParams q lgw large cat apd dict true hint in
  exists w lf nb rest pos',
    rfc_read_wbits (first_bits p0 delta tail ++ t) = Some (w, lf, nb, rest)
    /\ rfc_read_metadata_block nb rest
       = Some ([225; 151; spec_mode_byte cat apd dict; VERSION]
               ++ encode_base_128 (spec_size_hint hint (delta + tail)), pos', t)
    /\ pos' mod 8 = 0.
Proof. exact magic_statement. Qed.
Print Assumptions C15_magic.

Theorem C15_base128 : forall n, n < 2 ^ 64 ->
  base128_decode (encode_base_128 n) = Some n /\ (1 <= length (encode_base_128 n) <= 10)%nat
  /\ Forall (fun b => b < 256) (encode_base_128 n).
Proof. exact base128_statement. Qed.
Print Assumptions C15_base128.

(* The executable specification that the check applies to the real encoder's first bytes
   accepts every stream that starts with the model's header (so a disagreement found by the
   check is a disagreement between code and model, never between model and specification). *)
Theorem C15_header_conforms : forall q lgw large cat apd dict magic hint delta tail t,
  hint < 2 ^ 64 ->
  spec_check_header q lgw large cat apd dict magic hint (delta + tail)
    (first_bits (mkParams q lgw large cat apd dict magic hint) delta tail ++ t) = 0.
Proof. exact spec_check_holds. Qed.
Print Assumptions C15_header_conforms.

(* The size hint written when none was requested depends only on delta + tail. *)
Theorem C15_size_hint : forall hint delta tail,
  update_size_hint hint delta tail = spec_size_hint hint (delta + tail).
Proof. exact update_size_hint_sum. Qed.
Print Assumptions C15_size_hint.

(* Record of the finding repaired by /repo commit 9717d44: with the fast path chosen without
   looking at magic_number (the code before the fix) the magic block is missing at quality 0. *)
Theorem C15_magic_before_fix_refuted :
  exists q lgw large cat apd dict hint delta tail t,
    spec_check_header q lgw large cat apd dict true hint (delta + tail)
      (first_bits_prefix (mkParams q lgw large cat apd dict true hint) delta tail ++ t) <> 0.
Proof. exact magic_missing_before_fix. Qed.
Print Assumptions C15_magic_before_fix_refuted.

(* Non-vacuity: concrete headers.  quality 0, lgwin 12, magic on, catable, size hint 5:
   63 11 00 e1 97 81 01 05 (what the real encoder emits, see the check's samples);
   quality 5, lgwin 26 with large window, hint 2^32-1. *)
Example C15_points :
  bits_to_bytes (first_bits (mkParams 0 12 false true false false true 5) 0 0) = [99; 17; 0; 225; 151; 129; 1; 5]
  /\ bits_to_bytes (first_bits (mkParams 5 26 true true true false true 4294967295) 0 0)
     = [17; 154; 133; 0; 225; 151; 129; 1; 255; 255; 255; 255; 15]
  /\ bits_to_bytes (first_bits (mkParams 11 (-5) false false false true false 0) 3 4) = [33]
  /\ rfc_read_wbits (bytes_to_bits [17; 154]) = Some (26, true, 14, [false; true])
  /\ spec_size_hint 0 70006 = 70006.
Proof. vm_compute. repeat split; reflexivity. Qed.
