(* C16 - the concatenator is total on arbitrary bytes.  Property theorems only; every proof is
   `exact <lemma>`.  The model (model/Concat.v) is the repaired src/concat/mod.rs; the witnesses
   against the code as it was before the repairs are in proofs/Concat_findings.v. *)
From Coq Require Import NArith List.
From V Require Import lib.Words model.Concat model.ConcatRun spec.ConcatSpec proofs.Concat_proofs proofs.Concat_inv proofs.Concat_findings.
Import ListNotations.
Open Scope N_scope.

(* Every state satisfying the invariant, every input buffer (of bytes), every cursor position,
   every output buffer: `stream` does not panic, keeps both cursors inside the buffers, leaves the
   output buffer's length alone, re-establishes the invariant, never answers Success, answers
   NeedsMoreInput only with the input consumed and NeedsMoreOutput only with the output full, and
   - given input and output room - moves a cursor whenever it asks for more. *)
Theorem C16_total : forall s input in_off out off,
  Inv s -> Started s -> bytes_ok input -> bytes_ok out -> in_off <= lenN input -> off <= lenN out ->
  match stream s input in_off out off with
  | Panic => False
  | Val r =>
      Inv (r_s r) /\ Started (r_s r) /\
      in_off <= r_in r /\ r_in r <= lenN input /\ off <= r_off r /\ r_off r <= lenN out /\
      lenN (r_out r) = lenN out /\ bytes_ok (r_out r) /\
      r_rc r <> Success /\
      (r_rc r = NeedsMoreInput -> r_in r = lenN input) /\
      (r_rc r = NeedsMoreOutput -> r_off r = lenN out) /\
      (r_rc r = NeedsMoreInput \/ r_rc r = NeedsMoreOutput -> off < lenN out -> in_off < lenN input ->
         in_off < r_in r \/ off < r_off r)
  end.
Proof. exact stream_total_inv. Qed.
Print Assumptions C16_total.

(* `finish`: no panic, cursor inside the buffer, Success or NeedsMoreOutput only, NeedsMoreOutput
   only with the output full, progress whenever there is room. *)
Theorem C16_finish : forall s out off, Inv s -> bytes_ok out -> off <= lenN out ->
  match finish s out off with
  | Panic => False
  | Val f =>
      Inv (f_s f) /\ new_stream_pending (f_s f) = new_stream_pending s /\ window_size (f_s f) = window_size s /\
      off <= f_off f /\ f_off f <= lenN out /\ lenN (f_out f) = lenN out /\ bytes_ok (f_out f) /\
      (f_rc f = Success \/ f_rc f = NeedsMoreOutput) /\
      (f_rc f = NeedsMoreOutput -> f_off f = lenN out) /\
      (off < lenN out -> f_rc f = Success \/ off < f_off f)
  end.
Proof. exact finish_total_inv. Qed.
Print Assumptions C16_finish.

Theorem C16_new_file : forall s, Inv s -> Inv (new_brotli_file s) /\ Started (new_brotli_file s).
Proof. exact Inv_new_brotli_file. Qed.
Print Assumptions C16_new_file.

(* the invariant holds initially, for every supported window override, and survives save/restore *)
Theorem C16_reach_new : Inv bc_new.
Proof. exact Inv_new. Qed.
Print Assumptions C16_reach_new.

Theorem C16_reach_window : forall w, 10 <= w -> w <= 30 ->
  exists s, new_with_window_size w = Val s /\ Inv s /\ Started s.
Proof. exact Inv_new_with_window_size. Qed.
Print Assumptions C16_reach_window.

Theorem C16_reach_restore : forall s, Inv s -> nat_restore s = Val s.
Proof. exact Inv_restore. Qed.
Print Assumptions C16_reach_restore.

(* All 65 536 two-byte prefixes: the window-size parser agrees with the RFC 7932 section 9.1
   WBITS reader (with the large-window extension) on value, width and rejection. *)
Theorem C16_parse : forall b0 b1 rest, b0 < 256 -> b1 < 256 ->
  parse_window_size (b0 :: b1 :: rest) = Val (rfc_wbits (b0 + 256 * b1)).
Proof. exact parse_window_size_rfc. Qed.
Print Assumptions C16_parse.

(* The code before the repair bc0b749 violated the property: a protocol-following call sequence
   over valid members panics (replayed on the real code; fixed, see known_findings.json). *)
Theorem C16_total_refuted_before_fix :
  rr_final (run_orig 100 [64] false false [] t_meta3 (o_init None)) = Panicked.
Proof. exact C16_total_refuted_orig. Qed.
Print Assumptions C16_total_refuted_before_fix.

(* Non-vacuity: a non-trivial state (mid-way through emitting a realigned header) meets the hypotheses *)
Example C16_hypotheses_satisfiable :
  Inv example_state /\ Started example_state /\
  match stream example_state [7; 8; 9] 0 [0; 0] 0 with
  | Val r => r_rc r = NeedsMoreOutput /\ r_off r = 2 /\ r_in r = 0
  | Panic => False
  end.
Proof. exact example_state_ok. Qed.
