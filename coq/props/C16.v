(* C16 - the concatenator is total on arbitrary bytes.  Property theorems only. *)
From Coq Require Import NArith List.
From V Require Import lib.Words model.Concat model.ConcatRun spec.ConcatSpec proofs.Concat_proofs.
Import ListNotations.
Open Scope N_scope.

(* All 65 536 two-byte prefixes: the window-size parser of the concatenator agrees with the
   RFC 7932 section 9.1 WBITS reader (with the large-window extension), on the value and on the
   number of bits, and rejects exactly what the RFC reader rejects. *)
Theorem C16_parse : forall b0 b1 rest, b0 < 256 -> b1 < 256 ->
  parse_window_size (b0 :: b1 :: rest) = Val (rfc_wbits (b0 + 256 * b1)).
Proof. exact parse_window_size_rfc. Qed.
Print Assumptions C16_parse.
