(* C17 - prefix codes are complete, length-limited, canonical and serialise faithfully.
   Property theorems only; every proof is `exact <lemma>`.  Model: model/Huffman.v (tables and
   thresholds from gen/GenHuffman.v, regenerated from /repo); specification: spec/PrefixCode.v
   (RFC 7932 sections 3.2, 3.4, 3.5). *)
From Coq Require Import NArith ZArith List.
From V Require Import lib.Words gen.GenHuffman spec.PrefixCode model.Huffman
  proofs.ReverseBits_proofs proofs.Canonical_proofs proofs.Huffman_proofs proofs.Rle_proofs
  proofs.Store_proofs proofs.Tree_proofs proofs.Complex_proofs.
Import ListNotations.
Open Scope N_scope.

(* BrotliReverseBits is bit-list reversal on its whole domain (1..16 bits, every u16). *)
Theorem C17_reverse_bits : forall num_bits bits,
  1 <= num_bits -> num_bits <= 16 -> bits < 65536 ->
  reverse_bits num_bits bits = Done (bits_to_N (rev (N_to_bits (N.to_nat num_bits) bits))).
Proof. exact reverse_bits_correct. Qed.
Print Assumptions C17_reverse_bits.

(* For every length vector with lengths <= 15 and Kraft sum <= 1 (complete or not):
   BrotliConvertBitDepthsToSymbols returns, for every used symbol, the value whose bits --
   emitted least significant first, as BrotliWriteBits does -- are the RFC 7932 3.2 canonical
   code word (i.e. the bit-reversed canonical code); the code is prefix free; and the RFC's
   bit-serial decoder maps every code word, followed by anything, back to its symbol. *)
Theorem C17_canonical : forall d bits0,
  wf_depths d -> kraft d <= kraft_one -> length bits0 = length d ->
  (exists bits, convert_bit_depths_to_symbols d (N.of_nat (length d)) bits0 = Done bits /\ length bits = length d /\
     forall s, (s < length d)%nat -> nth s d 0 <> 0 ->
       nth s bits 0 = bits_to_N (rfc_codeword d s) /\
       N_to_bits (N.to_nat (nth s d 0)) (nth s bits 0) = rfc_codeword d s)
  /\ prefix_free d
  /\ (forall s r, (s < length d)%nat -> nth s d 0 <> 0 ->
        rfc_decode_symbol d (rfc_codeword d s ++ r) = Some (N.of_nat s, r)).
Proof. exact canonical_all. Qed.
Print Assumptions C17_canonical.

(* For every length vector (lengths <= 15; any content, complete code or not): the RFC 7932 3.5
   expansion (repeat codes 16 / 17 with the compounding rule, previous length initially 8) of
   what BrotliWriteHuffmanTree writes is the vector without its trailing zeros, and the writer
   neither panics nor overruns arrays of `cap >= length` entries. *)
Theorem C17_rle : forall d cap,
  wf_depths d -> N.of_nat (length d) < 2 ^ 63 -> N.of_nat (length d) <= cap ->
  exists t, write_huffman_tree d (N.of_nat (length d)) cap = Done t /\
            rfc_expand (N.of_nat (length d)) t = Some (strip_trailing_zeros d).
Proof. exact rle_expand. Qed.
Print Assumptions C17_rle.

(* ---- the builder ---------------------------------------------------------------------------
   Full statement (NOT proved -- kept so that the gap is visible): for every histogram with at
   least two used symbols, over an alphabet whose node indices fit i16, whose clamped weights
   cannot wrap u32, the retry loop terminates and the result is complete, limited and supported
   exactly on the used symbols.  What is missing from C17_tree_partial below is termination of
   the `count_limit *= 2` loop (DESIGN Appendix E: scaling lemma + equal-weight sweep). *)
Definition C17_tree_stmt : Prop :=
  forall counts limit pool depth0,
    In limit [15; 14; 5]%Z ->
    (2 <= nonzero_count counts)%nat ->
    N.of_nat (length counts) <= 2 ^ Z.to_N limit ->
    2 * N.of_nat (length counts) + 1 <= N.of_nat (length pool) ->
    N.of_nat (length counts) * (2 * fold_right N.max 1 counts) < 2 ^ 32 - 1 ->
    length depth0 = length counts ->
    (forall i, nth i counts 0 = 0 -> nth i depth0 0 = 0) ->
    exists d pool' r,
      create_huffman_tree counts (N.of_nat (length counts)) limit pool depth0 = Done (d, pool', r) /\
      length d = length counts /\
      (forall i, (i < length counts)%nat -> (nth i d 0 <> 0 <-> nth i counts 0 <> 0)) /\
      (forall i, nth i d 0 <= Z.to_N limit) /\
      kraft d = kraft_one.

(* Proved ("returns => correct"): whenever BrotliCreateHuffmanTree returns -- after r doublings
   of count_limit -- on a histogram with at least two used symbols, whose alphabet keeps node
   indices inside i16 (2 * length + 1 <= 32768) and whose weights clamped at 2^r do not reach
   the u32 sentinel (the guard under which `total_count_` cannot wrap and a real node cannot be
   confused with the sentinel), the depth vector has the length of the histogram, is non-zero
   exactly on the used symbols, respects the limit (the loop's exit test) and has Kraft sum
   exactly 1 (it is the depth map of a full binary tree over the used symbols; any sort order,
   any merge order).  The depth array must be zero where the count is zero, as every caller
   arranges.  `pool` (the scratch tree array) and its previous contents are arbitrary. *)
Theorem C17_tree_partial : forall counts limit pool depth0 d pool' r,
  2 * N.of_nat (length counts) + 1 <= 32768 ->
  (0 <= limit <= 15)%Z ->
  (2 <= nonzero_count counts)%nat ->
  length depth0 = length counts ->
  (forall i, nth i counts 0 = 0 -> nth i depth0 0 = 0) ->
  create_huffman_tree counts (N.of_nat (length counts)) limit pool depth0 = Done (d, pool', r) ->
  r < 32 -> clamped_total counts (2 ^ r) < 2 ^ 32 - 1 ->
  length d = length counts /\
  (forall i, (i < length counts)%nat -> (nth i d 0 <> 0 <-> nth i counts 0 <> 0)) /\
  (forall i, nth i d 0 <= Z.to_N limit) /\
  kraft d = kraft_one.
Proof. exact tree_partial. Qed.
Print Assumptions C17_tree_partial.

(* The single-symbol case: that symbol gets depth 1, nothing else is touched, no retry. *)
Theorem C17_tree_one : forall counts limit pool depth0 d pool' r s,
  2 * N.of_nat (length counts) + 1 <= 32768 ->
  supp counts (length counts) = [s] ->
  create_huffman_tree counts (N.of_nat (length counts)) limit pool depth0 = Done (d, pool', r) ->
  d = upd depth0 s 1 /\ (s < length depth0)%nat /\ r = 0.
Proof. exact tree_one. Qed.
Print Assumptions C17_tree_one.

(* ---- serialisation: StoreSimpleHuffmanTree (RFC 7932 3.4), NSYM = 2, 3, 4 ------------------
   For every alphabet of at most 2^32 symbols, every choice of 2..4 distinct used symbols (in any
   order in the `symbols` array, the unused tail entries being valid symbols as in the caller's
   zero-initialised array) and every assignment kf of code lengths 1..15 to them with Kraft sum 1:
   the writer does not panic and the RFC reader applied to the emitted bits, followed by
   anything, returns exactly the length vector and leaves the rest. *)
Theorem C17_store_simple2 : forall asz kf a b e f out r,
  asz <= 2 ^ 32 -> NoDup [a; b] -> a < asz -> b < asz -> e < asz -> f < asz ->
  1 <= kf a <= 15 -> 1 <= kf b <= 15 ->
  let depths := assign_lengths (zeros asz) [a; b] (map kf [a; b]) in
  kraft depths = kraft_one ->
  exists bs, store_simple_huffman_tree depths [a; b; e; f] 2 (N.of_nat (alphabet_bits asz)) out = Done (out ++ bs) /\
    rfc_read_prefix_code asz (bs ++ r) = Some ({| pc_lengths := depths; pc_single := None |}, r).
Proof. exact simple2. Qed.
Print Assumptions C17_store_simple2.

Theorem C17_store_simple3 : forall asz kf a b c e out r,
  asz <= 2 ^ 32 -> NoDup [a; b; c] -> a < asz -> b < asz -> c < asz -> e < asz ->
  1 <= kf a <= 15 -> 1 <= kf b <= 15 -> 1 <= kf c <= 15 ->
  let depths := assign_lengths (zeros asz) [a; b; c] (map kf [a; b; c]) in
  kraft depths = kraft_one ->
  exists bs, store_simple_huffman_tree depths [a; b; c; e] 3 (N.of_nat (alphabet_bits asz)) out = Done (out ++ bs) /\
    rfc_read_prefix_code asz (bs ++ r) = Some ({| pc_lengths := depths; pc_single := None |}, r).
Proof. exact simple3. Qed.
Print Assumptions C17_store_simple3.

Theorem C17_store_simple4 : forall asz kf a b c d out r,
  asz <= 2 ^ 32 -> NoDup [a; b; c; d] -> a < asz -> b < asz -> c < asz -> d < asz ->
  1 <= kf a <= 15 -> 1 <= kf b <= 15 -> 1 <= kf c <= 15 -> 1 <= kf d <= 15 ->
  let depths := assign_lengths (zeros asz) [a; b; c; d] (map kf [a; b; c; d]) in
  kraft depths = kraft_one ->
  exists bs, store_simple_huffman_tree depths [a; b; c; d] 4 (N.of_nat (alphabet_bits asz)) out = Done (out ++ bs) /\
    rfc_read_prefix_code asz (bs ++ r) = Some ({| pc_lengths := depths; pc_single := None |}, r).
Proof. exact simple4. Qed.
Print Assumptions C17_store_simple4.

(* ---- serialisation: BrotliStoreHuffmanTree (RFC 7932 3.5, complex prefix code) ---------------
   Proved ("returns => correct"): for every complete code (lengths <= 15, Kraft sum exactly 1) over
   at most 704 symbols, read in any alphabet at least as large: if BrotliStoreHuffmanTree returns,
   and the retry loop of its own 18-symbol code length code ran at most 27 times (rr is that number;
   termination of that loop is the unproved part -- the check records the maximum it ever
   observes), then the RFC reader applied to the emitted bits followed by anything returns exactly
   the length vector (zero-padded to the alphabet) and leaves the rest.  This composes C17_rle,
   C17_tree_partial / C17_tree_one at limit 5, C17_canonical for the code length code, the fixed
   storage order with its variable-length code and the 32 / 32768 space accounting. *)
Theorem C17_store_complex_partial : forall depths asz pool out out' pool' rr r,
  wf_depths depths -> kraft depths = kraft_one ->
  N.of_nat (length depths) <= 704 -> N.of_nat (length depths) <= asz ->
  store_huffman_tree depths (N.of_nat (length depths)) pool out = Done (out', pool', rr) -> rr <= 27 ->
  exists bs, out' = out ++ bs /\
    rfc_read_prefix_code asz (bs ++ r) =
    Some ({| pc_lengths := depths ++ zeros (asz - N.of_nat (length depths)); pc_single := None |}, r).
Proof. exact store_complex. Qed.
Print Assumptions C17_store_complex_partial.

(* Non-vacuity: a skewed 8-symbol code with a run that uses both repeat codes. *)
Example C17_points :
  wf_depths [1; 2; 3; 4; 5; 6; 7; 7] /\ kraft [1; 2; 3; 4; 5; 6; 7; 7] = kraft_one /\
  convert_bit_depths_to_symbols [1; 2; 3; 4; 5; 6; 7; 7] 8 (repeat 0 8) = Done [0; 1; 3; 7; 15; 31; 63; 127] /\
  write_huffman_tree (repeat 3 60 ++ repeat 0 30 ++ [5] ++ repeat 0 9) 100 704
    = Done [(3, 0); (16, 2); (16, 1); (16, 0); (17, 2); (17, 3); (5, 0)].
Proof.
  split; [|vm_compute; repeat split; reflexivity].
  intros l Hl. repeat (destruct Hl as [<-|Hl]; [vm_compute; discriminate|]). destruct Hl.
Qed.

(* Non-vacuity of C17_tree_partial: the 18-symbol Fibonacci histogram at limit 5 returns after 8
   doublings of count_limit, inside the guard. *)
(* Non-vacuity of C17_store_complex_partial: a 9-symbol complete code is stored without a retry. *)
Example C17_store_point :
  exists out' pool', store_huffman_tree [1; 2; 3; 4; 5; 6; 7; 8; 8] 9 (repeat node0 37) [] = Done (out', pool', 0) /\
  kraft [1; 2; 3; 4; 5; 6; 7; 8; 8] = kraft_one.
Proof. vm_compute. eexists. eexists. split; reflexivity. Qed.

Example C17_tree_point :
  let counts := [1; 1; 2; 3; 5; 8; 13; 21; 34; 55; 89; 144; 233; 377; 610; 987; 1597; 2584] in
  (exists pool', create_huffman_tree counts 18 5 (repeat node0 37) (repeat 0 18)
     = Done ([5; 5; 5; 5; 5; 5; 5; 5; 5; 5; 5; 5; 5; 5; 4; 3; 3; 2], pool', 8)) /\
  clamped_total counts (2 ^ 8) < 2 ^ 32 - 1 /\ (2 <= nonzero_count counts)%nat.
Proof. vm_compute. split; [eexists; reflexivity|split; [reflexivity|repeat constructor]]. Qed.

From V Require Import proofs.Tree_termination.

(* ---- the builder: termination of the `count_limit *= 2` retry loop -----------------------------
   C17_tree closes the gap left by C17_tree_partial.  For every histogram with at least two used
   symbols over an alphabet whose node indices fit i16 (2 * length + 1 <= 32768: every alphabet of
   at most 16383 symbols; the encoder's largest is 704), every limit 0..15 that can hold the
   alphabet (length <= 2^limit: 15 and 14 for the encoder's alphabets, 5 for the 18 code length
   symbols), a scratch array of at least 2 * length + 1 nodes with arbitrary contents, and counts
   whose clamped sum cannot wrap u32 in any iteration (length * 2 * max count < 2^32 - 1):
   BrotliCreateHuffmanTree RETURNS -- no attempt panics or runs out of fuel, the loop exits after
   at most ceil(log2(max count)) doublings of count_limit -- and the depth vector is complete
   (Kraft sum exactly 1), within the limit, and non-zero exactly on the used symbols.
   Proof (proofs/Tree_total.v, Tree_merge_total.v, Tree_depth_total.v, Tree_sweep_core.v,
   Tree_sweep.v, Tree_termination.v): every attempt is total; once count_limit >= max count all
   leaves weigh the same, the sort leaves the already sorted leaves alone, the two-queue merge
   (refined to a pure function on (weight, tree) lists) builds a tree whose shape depends only on
   the number of leaves (scaling and relabelling lemma), and the height of that canonical tree is
   at most ceil(log2 n) for every n = 2 .. 16383 (computed sweep), so the depth test passes. *)
Theorem C17_tree : forall counts limit pool depth0,
  (0 <= limit <= 15)%Z ->
  (2 <= nonzero_count counts)%nat ->
  2 * N.of_nat (length counts) + 1 <= 32768 ->
  N.of_nat (length counts) <= 2 ^ Z.to_N limit ->
  2 * N.of_nat (length counts) + 1 <= N.of_nat (length pool) ->
  N.of_nat (length counts) * (2 * fold_right N.max 1 counts) < 2 ^ 32 - 1 ->
  length depth0 = length counts ->
  (forall i, nth i counts 0 = 0 -> nth i depth0 0 = 0) ->
  exists d pool' r,
    create_huffman_tree counts (N.of_nat (length counts)) limit pool depth0 = Done (d, pool', r) /\
    r <= N.log2_up (fold_right N.max 1 counts) /\
    length d = length counts /\
    (forall i, (i < length counts)%nat -> (nth i d 0 <> 0 <-> nth i counts 0 <> 0)) /\
    (forall i, nth i d 0 <= Z.to_N limit) /\
    kraft d = kraft_one.
Proof. exact tree_total. Qed.
Print Assumptions C17_tree.

(* C17_tree_stmt as written above lacks the hypothesis `Hi16` (node indices fit i16), which
   C17_tree_partial has: at limit 15 it admits alphabets of 16385 .. 32768 symbols, where child
   indices stored `as i16` go negative -- the real code and the extracted model both panic on
   16385 equal counts (too large to replay by vm_compute on the list model, hence no `_refuted`
   theorem).  With that one hypothesis added the statement holds verbatim: *)
Theorem C17_tree_stmt_i16 : forall counts limit pool depth0,
  forall Hi16 : 2 * N.of_nat (length counts) + 1 <= 32768,
  In limit [15; 14; 5]%Z ->
  (2 <= nonzero_count counts)%nat ->
  N.of_nat (length counts) <= 2 ^ Z.to_N limit ->
  2 * N.of_nat (length counts) + 1 <= N.of_nat (length pool) ->
  N.of_nat (length counts) * (2 * fold_right N.max 1 counts) < 2 ^ 32 - 1 ->
  length depth0 = length counts ->
  (forall i, nth i counts 0 = 0 -> nth i depth0 0 = 0) ->
  exists d pool' r,
    create_huffman_tree counts (N.of_nat (length counts)) limit pool depth0 = Done (d, pool', r) /\
    length d = length counts /\
    (forall i, (i < length counts)%nat -> (nth i d 0 <> 0 <-> nth i counts 0 <> 0)) /\
    (forall i, nth i d 0 <= Z.to_N limit) /\
    kraft d = kraft_one.
Proof. exact tree_total_stmt. Qed.
Print Assumptions C17_tree_stmt_i16.

(* Non-vacuity of C17_tree: the skewed 18-symbol Fibonacci histogram at limit 5 satisfies every
   hypothesis, and the loop really retries (8 doublings, within ceil(log2 2584) = 12). *)
Example C17_tree_total_point :
  let counts := [1; 1; 2; 3; 5; 8; 13; 21; 34; 55; 89; 144; 233; 377; 610; 987; 1597; 2584] in
  let pool := repeat node0 37 in
  let depth0 := repeat 0 18 in
  (0 <= 5 <= 15)%Z /\ (2 <= nonzero_count counts)%nat /\
  2 * N.of_nat (length counts) + 1 <= 32768 /\ N.of_nat (length counts) <= 2 ^ Z.to_N 5 /\
  2 * N.of_nat (length counts) + 1 <= N.of_nat (length pool) /\
  N.of_nat (length counts) * (2 * fold_right N.max 1 counts) < 2 ^ 32 - 1 /\
  length depth0 = length counts /\ (forall i, nth i counts 0 = 0 -> nth i depth0 0 = 0) /\
  (exists d pool', create_huffman_tree counts (N.of_nat (length counts)) 5 pool depth0 = Done (d, pool', 8)) /\
  8 <= N.log2_up (fold_right N.max 1 counts).
Proof.
  cbv zeta. split; [split; discriminate|]. split; [vm_compute; repeat constructor|].
  split; [vm_compute; discriminate|]. split; [vm_compute; discriminate|]. split; [vm_compute; discriminate|].
  split; [vm_compute; reflexivity|]. split; [reflexivity|]. split; [intros i _; apply nth_repeat|].
  split; [vm_compute; eexists; eexists; reflexivity|vm_compute; discriminate].
Qed.

(* ---- serialisation: BrotliStoreHuffmanTree without the premise on the inner retry loop ----------
   C17_store_complex_partial assumed that the retry loop of the 18-symbol code length code's own
   tree ran at most 27 times.  By C17_tree that loop exits after at most ceil(log2 704) = 10
   doublings whenever the scratch tree array has the 2 * 18 + 1 nodes the builder needs (the
   encoder passes 2 * 704 + 1), so the premise is replaced by that bound on the array.  Still
   "returns => correct": that BrotliStoreHuffmanTree itself never panics is not proved here. *)
From V Require Import proofs.Complex_total.

Theorem C17_store_complex : forall depths asz pool out out' pool' rr r,
  wf_depths depths -> kraft depths = kraft_one ->
  N.of_nat (length depths) <= 704 -> N.of_nat (length depths) <= asz ->
  (37 <= length pool)%nat ->
  store_huffman_tree depths (N.of_nat (length depths)) pool out = Done (out', pool', rr) ->
  exists bs, out' = out ++ bs /\
    rfc_read_prefix_code asz (bs ++ r) =
    Some ({| pc_lengths := depths ++ zeros (asz - N.of_nat (length depths)); pc_single := None |}, r).
Proof. exact store_complex_pool. Qed.
Print Assumptions C17_store_complex.
