(* C18 - length and distance prefix arithmetic is exact on its whole domain.
   Property theorems only; every proof is `exact <lemma>`.  The model (model/Arith.v)
   takes every table and threshold from gen/GenArith.v, regenerated from /repo. *)
From Coq Require Import NArith List.
From V Require Import lib.Words gen.GenArith spec.RfcTables model.Arith proofs.Arith_proofs proofs.Dist_proofs proofs.Cmd_proofs proofs.Recompute_proofs.
Open Scope N_scope.

(* Every insert length the format can carry (0 .. 22594+2^24-1): the code computed by the
   model of GetInsertLengthCode denotes it under the RFC's table, and the encoder's own
   base/extra tables agree with the RFC at that code. *)
Theorem C18_insert : forall n, n < 22594 + 2 ^ 24 ->
  let c := get_insert_length_code n in
  c < 24 /\ rfc_ins_base c <= n /\ n < rfc_ins_base c + 2 ^ rfc_ins_extra c
  /\ nthN kInsBase c = rfc_ins_base c /\ nthN kInsExtra c = rfc_ins_extra c.
Proof. exact insert_code_correct. Qed.
Print Assumptions C18_insert.

Theorem C18_copy : forall n, 2 <= n -> n < 2118 + 2 ^ 24 ->
  let c := get_copy_length_code n in
  c < 24 /\ rfc_copy_base c <= n /\ n < rfc_copy_base c + 2 ^ rfc_copy_extra c
  /\ nthN kCopyBase c = rfc_copy_base c /\ nthN kCopyExtra c = rfc_copy_extra c.
Proof. exact copy_code_correct. Qed.
Print Assumptions C18_copy.

(* All 24 x 24 x 2 cells: the combined symbol is below 704 and decomposes, under the RFC's
   cell layout, into exactly the insert code, the copy code and the implicit-distance flag. *)
Theorem C18_cell : forall ic cc b, ic < 24 -> cc < 24 ->
  let s := combine_length_codes ic cc b in
  s < 704 /\ rfc_cell s = (ic, cc, (b && (ic <? 8) && (cc <? 16))%bool).
Proof. exact cell_correct. Qed.
Print Assumptions C18_cell.

Theorem C18_blocklen : forall n, 1 <= n -> n < 16625 + 2 ^ 24 ->
  let '(c, nb, e) := get_block_length_prefix_code n in
  c < 26 /\ nb = rfc_blen_extra c /\ e < 2 ^ nb /\ rfc_blen_base c + e = n.
Proof. exact block_length_correct. Qed.
Print Assumptions C18_blocklen.

(* Every distance code from 16+ndirect up to 2^31, every npostfix 0..3, every ndirect up
   to 120: the 10-bit symbol and 6-bit nbits fields do not overflow, the (symbol, extra)
   pair denotes distance code - 15 under RFC section 4, and restore_distance_code returns
   the code the command was built from. *)
Theorem C18_dist : forall np nd dc, np <= 3 -> nd <= 120 -> 16 + nd <= dc -> dc < 2 ^ 31 ->
  let code := fst (prefix_encode_copy_distance dc nd np) in
  let extra := snd (prefix_encode_copy_distance dc nd np) in
  let sym := code mod 1024 in
  let nbits := code / 1024 in
  16 + nd <= sym /\ sym < 16 + nd + 62 * 2 ^ (np + 1) /\ sym < 1024 /\ nbits < 64 /\
  nbits = rfc_ndistbits np nd sym /\ extra < 2 ^ nbits /\
  rfc_distance np nd sym extra = dc - 15 /\
  restore_distance_code code extra nd np = dc.
Proof. exact dist_long_correct. Qed.
Print Assumptions C18_dist.

Theorem C18_dist_short : forall np nd dc, dc < 16 + nd -> nd <= 120 ->
  prefix_encode_copy_distance dc nd np = (dc, 0) /\
  restore_distance_code dc 0 nd np = dc /\ dc mod 1024 = dc /\
  (16 <= dc -> rfc_distance np nd dc 0 = dc - 15).
Proof. exact dist_short_correct. Qed.
Print Assumptions C18_dist_short.

(* The command record packs (copy length, copy length code) into one word with a 7-bit signed
   delta; for every pair the encoder builds (lengths below 2^25, delta in [-64, 63]) both are
   recovered exactly. *)
Theorem C18_copy_len_code : forall nd np ins copylen code dc,
  copylen < 2 ^ 25 -> code < 2 ^ 25 -> copylen <= code + 64 -> code <= copylen + 63 ->
  let c := command_new nd np ins copylen code dc in
  cmd_copy_len c = copylen /\ cmd_copy_len_code c = code.
Proof. exact copy_len_code_roundtrip. Qed.
Print Assumptions C18_copy_len_code.

(* StoreCommandExtra hands the bit writer exactly rfc_ins_extra + rfc_copy_extra bits whose
   value is the copy extra bits above the insert extra bits, each within its width. *)
Theorem C18_store_extra : forall c : command,
  insert_len_ c < 22594 + 2 ^ 24 ->
  2 <= cmd_copy_len_code c -> cmd_copy_len_code c < 2118 + 2 ^ 24 ->
  let ic := get_insert_length_code (insert_len_ c) in
  let cc := get_copy_length_code (cmd_copy_len_code c) in
  let iv := insert_len_ c - rfc_ins_base ic in
  let cv := cmd_copy_len_code c - rfc_copy_base cc in
  iv < 2 ^ rfc_ins_extra ic /\ cv < 2 ^ rfc_copy_extra cc /\
  store_command_extra c = (rfc_ins_extra ic + rfc_copy_extra cc, cv * 2 ^ rfc_ins_extra ic + iv).
Proof. exact store_command_extra_correct. Qed.
Print Assumptions C18_store_extra.

(* RecomputeDistancePrefixes (quality 10/11: the meta-block builder changes npostfix / ndirect after the commands
   were built): for every command built from a distance code below 2^31 under any valid parameter pair, and any
   valid new pair, the re-encoded (symbol, extra) is exactly the encoding of the same distance code under the new
   parameters (hence denotes the same distance, by C18_dist / C18_dist_short) and is restored to it; insert
   length, copy length word and command symbol are untouched.  Commands without an explicit distance
   (cmd_prefix < 128: distance code 0, symbol 0 under every parameter pair) are left alone. *)
Theorem C18_recompute : forall nd0 np0 nd1 np1 ins copylen code dc,
  np0 <= 3 -> nd0 <= 120 -> np1 <= 3 -> nd1 <= 120 -> dc < 2 ^ 31 ->
  let c := command_new nd0 np0 ins copylen code dc in
  let c' := recompute_distance_prefix nd0 np0 nd1 np1 c in
  insert_len_ c' = insert_len_ c /\ copy_len_ c' = copy_len_ c /\ cmd_prefix_ c' = cmd_prefix_ c /\
  ((np0 = np1 /\ nd0 = nd1) \/ (cmd_copy_len c <> 0 /\ 128 <= cmd_prefix_ c) ->
     restore_distance_code (dist_prefix_ c') (dist_extra_ c') nd1 np1 = dc /\
     (dist_prefix_ c', dist_extra_ c') = prefix_encode_copy_distance dc nd1 np1).
Proof. exact recompute_correct. Qed.
Print Assumptions C18_recompute.

(* Non-vacuity: concrete non-trivial points inside every domain. *)
Example C18_points :
  get_insert_length_code 2113 = 20 /\ get_copy_length_code 2117 = 22 /\
  combine_length_codes 9 17 false = 8 * 64 + 8 + 1 /\
  get_block_length_prefix_code 16624 = (24, 13, 8191) /\
  prefix_encode_copy_distance 70000 12 1 = (14416, 2222) /\
  restore_distance_code 14416 2222 12 1 = 70000.
Proof. vm_compute. repeat split; reflexivity. Qed.
(* FONT mode's (ndirect 12, npostfix 1) changed to (0, 0): the direct code 20 (distance 5) needs a re-encoding *)
Example C18_recompute_point :
  let c := command_new 12 1 3 5 5 20 in
  (128 <=? cmd_prefix_ c) = true /\ (dist_prefix_ c, dist_extra_ c) = (20, 0) /\
  (dist_prefix_ (recompute_distance_prefix 12 1 0 0 c), dist_extra_ (recompute_distance_prefix 12 1 0 0 c)) = (2066, 0) /\
  rfc_distance 0 0 18 0 = 5.
Proof. vm_compute. repeat split; reflexivity. Qed.
