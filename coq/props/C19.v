(* C19 - batched match-index updates equal one-at-a-time updates.
   Property theorems only; every proof is `exact <lemma>`.  Models: model/Hashers.v (constants
   from gen/GenHashers.v, regenerated from /repo); reference and domain: spec/HasherSpec.v.

   Reading guide
   * `one_at_a_time store s e st` is `for i in s..e { Store(data, mask, i) }` started in state st;
     all functions return `Ok state` or `Panic`, and equality is equality of outcomes: same
     tables (every slot, every counter), or a panic on both sides.
   * `view_ok d mask T lim` describes the data the positions below `lim` are read from: no mask
     (mask = usize::MAX, every read inside the buffer) or the mask 2^k - 1 of a ring buffer of
     2^k bytes whose T-byte tail repeats its start - positions may lie far beyond the mask, as
     after the ring buffer has wrapped.  `lim` = end of range + (bytes one Store reads) - 1.
   * `pieces call cuts s (Ok st)` calls the entry point on [s,c1), [c1,c2), ... for any ascending
     list of cuts: any partition into consecutive pieces with any alignment.
   * `Repaired` = the code as it is now.  The `_asfound_refuted` theorems are about the two fast
     paths as they were found (fixed in /repo by the commit recorded in known_findings.json). *)
From Coq Require Import NArith List.
From V Require Import lib.Words lib.Finite gen.GenHashers model.Hashers spec.HasherSpec proofs.Hashers_proofs.
Import ListNotations.
Open Scope N_scope.

(* ---- BasicHasher kinds: quality 2 (H2), 3 (H3), 4 (H4), 4 with a large size hint (H54) ---- *)
Theorem C19_bulk_H2 :
  forall d mask st s e, (s < e -> view_ok d mask 10 (e + 7)) ->
  basic_bulk_store_range Repaired H2p d mask st s e = one_at_a_time (basic_store H2p d mask) s e st.
Proof. exact (fun d mask st s e => basic_bulk_eq H2p d mask st s e bp_ok_H2). Qed.
Print Assumptions C19_bulk_H2.

Theorem C19_range_H2 :
  forall d mask st s e, (s < e -> view_ok d mask 10 (e + 7)) ->
  basic_store_range Repaired H2p d mask st s e = one_at_a_time (basic_store H2p d mask) s e st.
Proof. exact (fun d mask st s e => basic_range_eq H2p d mask st s e bp_ok_H2). Qed.
Print Assumptions C19_range_H2.

Theorem C19_split_H2 :
  forall d mask st s cuts, ascending s cuts ->
  (s < last_cut s cuts -> view_ok d mask 10 (last_cut s cuts + 7)) ->
  pieces (fun st a b => basic_bulk_store_range Repaired H2p d mask st a b) cuts s (Ok st)
  = basic_bulk_store_range Repaired H2p d mask st s (last_cut s cuts).
Proof. exact (fun d mask st s cuts => basic_split_eq H2p d mask st s cuts bp_ok_H2). Qed.
Print Assumptions C19_split_H2.

Theorem C19_bulk_H3 :
  forall d mask st s e, (s < e -> view_ok d mask 10 (e + 7)) ->
  basic_bulk_store_range Repaired H3p d mask st s e = one_at_a_time (basic_store H3p d mask) s e st.
Proof. exact (fun d mask st s e => basic_bulk_eq H3p d mask st s e bp_ok_H3). Qed.
Print Assumptions C19_bulk_H3.

Theorem C19_range_H3 :
  forall d mask st s e, (s < e -> view_ok d mask 10 (e + 7)) ->
  basic_store_range Repaired H3p d mask st s e = one_at_a_time (basic_store H3p d mask) s e st.
Proof. exact (fun d mask st s e => basic_range_eq H3p d mask st s e bp_ok_H3). Qed.
Print Assumptions C19_range_H3.

Theorem C19_split_H3 :
  forall d mask st s cuts, ascending s cuts ->
  (s < last_cut s cuts -> view_ok d mask 10 (last_cut s cuts + 7)) ->
  pieces (fun st a b => basic_bulk_store_range Repaired H3p d mask st a b) cuts s (Ok st)
  = basic_bulk_store_range Repaired H3p d mask st s (last_cut s cuts).
Proof. exact (fun d mask st s cuts => basic_split_eq H3p d mask st s cuts bp_ok_H3). Qed.
Print Assumptions C19_split_H3.

Theorem C19_bulk_H4 :
  forall d mask st s e, (s < e -> view_ok d mask 10 (e + 7)) ->
  basic_bulk_store_range Repaired H4p d mask st s e = one_at_a_time (basic_store H4p d mask) s e st.
Proof. exact (fun d mask st s e => basic_bulk_eq H4p d mask st s e bp_ok_H4). Qed.
Print Assumptions C19_bulk_H4.

Theorem C19_range_H4 :
  forall d mask st s e, (s < e -> view_ok d mask 10 (e + 7)) ->
  basic_store_range Repaired H4p d mask st s e = one_at_a_time (basic_store H4p d mask) s e st.
Proof. exact (fun d mask st s e => basic_range_eq H4p d mask st s e bp_ok_H4). Qed.
Print Assumptions C19_range_H4.

Theorem C19_split_H4 :
  forall d mask st s cuts, ascending s cuts ->
  (s < last_cut s cuts -> view_ok d mask 10 (last_cut s cuts + 7)) ->
  pieces (fun st a b => basic_bulk_store_range Repaired H4p d mask st a b) cuts s (Ok st)
  = basic_bulk_store_range Repaired H4p d mask st s (last_cut s cuts).
Proof. exact (fun d mask st s cuts => basic_split_eq H4p d mask st s cuts bp_ok_H4). Qed.
Print Assumptions C19_split_H4.

Theorem C19_bulk_H54 :
  forall d mask st s e, (s < e -> view_ok d mask 10 (e + 7)) ->
  basic_bulk_store_range Repaired H54p d mask st s e = one_at_a_time (basic_store H54p d mask) s e st.
Proof. exact (fun d mask st s e => basic_bulk_eq H54p d mask st s e bp_ok_H54). Qed.
Print Assumptions C19_bulk_H54.

Theorem C19_range_H54 :
  forall d mask st s e, (s < e -> view_ok d mask 10 (e + 7)) ->
  basic_store_range Repaired H54p d mask st s e = one_at_a_time (basic_store H54p d mask) s e st.
Proof. exact (fun d mask st s e => basic_range_eq H54p d mask st s e bp_ok_H54). Qed.
Print Assumptions C19_range_H54.

Theorem C19_split_H54 :
  forall d mask st s cuts, ascending s cuts ->
  (s < last_cut s cuts -> view_ok d mask 10 (last_cut s cuts + 7)) ->
  pieces (fun st a b => basic_bulk_store_range Repaired H54p d mask st a b) cuts s (Ok st)
  = basic_bulk_store_range Repaired H54p d mask st s (last_cut s cuts).
Proof. exact (fun d mask st s cuts => basic_split_eq H54p d mask st s cuts bp_ok_H54). Qed.
Print Assumptions C19_split_H54.

Theorem C19_clone_basic :
  forall st : basic_state, basic_clone st = Ok st /\ basic_eqb st st = true.
Proof. exact basic_clone_eq. Qed.
Print Assumptions C19_clone_basic.

(* the modelled slice comparison (the table part of every PartialEq) is slot-wise equality *)
Theorem C19_eq_sound :
  forall a b : table, table_eqb a b = true -> tlen a = tlen b /\ forall i, tget a i = tget b i.
Proof. exact table_eqb_sound. Qed.
Print Assumptions C19_eq_sound.

(* ---- AdvHasher kinds with a 4-byte hash: H5 (fields from the parameters), H5q5, H5q7 ---- *)
Theorem C19_bulk_H5 :
  forall d mask st s e, ak (a_spec st) = AK_H5 -> f_block_bits (a_spec st) <= f_hash_shift (a_spec st) -> f_hash_shift (a_spec st) <= 32 -> adv_lens_ok st = true ->
  (s < e -> view_ok d mask 6 (e + 3)) ->
  adv_bulk_store_range d mask st s e = one_at_a_time (adv_store d mask) s e st.
Proof. exact (fun d mask st s e Hk Hb Hs => adv_bulk_eq d mask st s e (adv32_ok_h5 _ Hk Hb Hs)). Qed.
Print Assumptions C19_bulk_H5.

Theorem C19_range_H5 :
  forall d mask st s e, ak (a_spec st) = AK_H5 -> f_block_bits (a_spec st) <= f_hash_shift (a_spec st) -> f_hash_shift (a_spec st) <= 32 -> adv_lens_ok st = true ->
  (s < e -> view_ok d mask 6 (e + 3)) ->
  adv_store_range Repaired d mask st s e = one_at_a_time (adv_store d mask) s e st.
Proof. exact (fun d mask st s e Hk Hb Hs => adv_range_eq d mask st s e (adv32_ok_h5 _ Hk Hb Hs)). Qed.
Print Assumptions C19_range_H5.

Theorem C19_split_H5 :
  forall d mask st s cuts, ak (a_spec st) = AK_H5 -> f_block_bits (a_spec st) <= f_hash_shift (a_spec st) -> f_hash_shift (a_spec st) <= 32 -> adv_lens_ok st = true -> ascending s cuts ->
  (s < last_cut s cuts -> view_ok d mask 6 (last_cut s cuts + 3)) ->
  pieces (fun st a b => adv_bulk_store_range d mask st a b) cuts s (Ok st)
  = adv_bulk_store_range d mask st s (last_cut s cuts).
Proof. exact (fun d mask st s cuts Hk Hb Hs => adv_split_eq d mask st s cuts (adv32_ok_h5 _ Hk Hb Hs)). Qed.
Print Assumptions C19_split_H5.

Theorem C19_vec4_H5 :
  forall d mask st q, ak (a_spec st) = AK_H5 -> f_block_bits (a_spec st) <= f_hash_shift (a_spec st) -> f_hash_shift (a_spec st) <= 32 ->
  (view_ok d mask 7 (q + 16) -> adv_store4vec4 d mask st q = for_each (adv_store d mask) [q; q + 4; q + 8; q + 12] (Ok st)) /\
  (view_ok d mask 7 (q + 10) -> adv_store_even_vec4 d mask st q = for_each (adv_store d mask) [q; q + 2; q + 4; q + 6] (Ok st)).
Proof. exact (fun d mask st q Hk Hb Hs => conj (adv_vec4_eq d mask st q (adv32_ok_h5 _ Hk Hb Hs)) (adv_even_vec4_eq d mask st q (adv32_ok_h5 _ Hk Hb Hs))). Qed.
Print Assumptions C19_vec4_H5.

Theorem C19_bulk_H5q5 :
  forall d mask st s e, ak (a_spec st) = AK_HQ5 -> adv_lens_ok st = true ->
  (s < e -> view_ok d mask 6 (e + 3)) ->
  adv_bulk_store_range d mask st s e = one_at_a_time (adv_store d mask) s e st.
Proof. exact (fun d mask st s e Hk => adv_bulk_eq d mask st s e (adv32_ok_hq5 _ Hk)). Qed.
Print Assumptions C19_bulk_H5q5.

Theorem C19_range_H5q5 :
  forall d mask st s e, ak (a_spec st) = AK_HQ5 -> adv_lens_ok st = true ->
  (s < e -> view_ok d mask 6 (e + 3)) ->
  adv_store_range Repaired d mask st s e = one_at_a_time (adv_store d mask) s e st.
Proof. exact (fun d mask st s e Hk => adv_range_eq d mask st s e (adv32_ok_hq5 _ Hk)). Qed.
Print Assumptions C19_range_H5q5.

Theorem C19_split_H5q5 :
  forall d mask st s cuts, ak (a_spec st) = AK_HQ5 -> adv_lens_ok st = true -> ascending s cuts ->
  (s < last_cut s cuts -> view_ok d mask 6 (last_cut s cuts + 3)) ->
  pieces (fun st a b => adv_bulk_store_range d mask st a b) cuts s (Ok st)
  = adv_bulk_store_range d mask st s (last_cut s cuts).
Proof. exact (fun d mask st s cuts Hk => adv_split_eq d mask st s cuts (adv32_ok_hq5 _ Hk)). Qed.
Print Assumptions C19_split_H5q5.

Theorem C19_vec4_H5q5 :
  forall d mask st q, ak (a_spec st) = AK_HQ5 ->
  (view_ok d mask 7 (q + 16) -> adv_store4vec4 d mask st q = for_each (adv_store d mask) [q; q + 4; q + 8; q + 12] (Ok st)) /\
  (view_ok d mask 7 (q + 10) -> adv_store_even_vec4 d mask st q = for_each (adv_store d mask) [q; q + 2; q + 4; q + 6] (Ok st)).
Proof. exact (fun d mask st q Hk => conj (adv_vec4_eq d mask st q (adv32_ok_hq5 _ Hk)) (adv_even_vec4_eq d mask st q (adv32_ok_hq5 _ Hk))). Qed.
Print Assumptions C19_vec4_H5q5.

Theorem C19_bulk_H5q7 :
  forall d mask st s e, ak (a_spec st) = AK_HQ7 -> adv_lens_ok st = true ->
  (s < e -> view_ok d mask 6 (e + 3)) ->
  adv_bulk_store_range d mask st s e = one_at_a_time (adv_store d mask) s e st.
Proof. exact (fun d mask st s e Hk => adv_bulk_eq d mask st s e (adv32_ok_hq7 _ Hk)). Qed.
Print Assumptions C19_bulk_H5q7.

Theorem C19_range_H5q7 :
  forall d mask st s e, ak (a_spec st) = AK_HQ7 -> adv_lens_ok st = true ->
  (s < e -> view_ok d mask 6 (e + 3)) ->
  adv_store_range Repaired d mask st s e = one_at_a_time (adv_store d mask) s e st.
Proof. exact (fun d mask st s e Hk => adv_range_eq d mask st s e (adv32_ok_hq7 _ Hk)). Qed.
Print Assumptions C19_range_H5q7.

Theorem C19_split_H5q7 :
  forall d mask st s cuts, ak (a_spec st) = AK_HQ7 -> adv_lens_ok st = true -> ascending s cuts ->
  (s < last_cut s cuts -> view_ok d mask 6 (last_cut s cuts + 3)) ->
  pieces (fun st a b => adv_bulk_store_range d mask st a b) cuts s (Ok st)
  = adv_bulk_store_range d mask st s (last_cut s cuts).
Proof. exact (fun d mask st s cuts Hk => adv_split_eq d mask st s cuts (adv32_ok_hq7 _ Hk)). Qed.
Print Assumptions C19_split_H5q7.

Theorem C19_vec4_H5q7 :
  forall d mask st q, ak (a_spec st) = AK_HQ7 ->
  (view_ok d mask 7 (q + 16) -> adv_store4vec4 d mask st q = for_each (adv_store d mask) [q; q + 4; q + 8; q + 12] (Ok st)) /\
  (view_ok d mask 7 (q + 10) -> adv_store_even_vec4 d mask st q = for_each (adv_store d mask) [q; q + 2; q + 4; q + 6] (Ok st)).
Proof. exact (fun d mask st q Hk => conj (adv_vec4_eq d mask st q (adv32_ok_hq7 _ Hk)) (adv_even_vec4_eq d mask st q (adv32_ok_hq7 _ Hk))). Qed.
Print Assumptions C19_vec4_H5q7.

(* ---- H6 (8-byte hash, large inputs and the fallback for lgwin <= 16): no fast path is taken ---- *)
Theorem C19_bulk_H6 :
  forall d mask st s e, ak (a_spec st) = AK_H6 ->
  adv_bulk_store_range d mask st s e = one_at_a_time (adv_store d mask) s e st.
Proof. exact adv_h6_bulk_eq. Qed.
Print Assumptions C19_bulk_H6.

Theorem C19_range_H6 :
  forall v d mask st s e, ak (a_spec st) = AK_H6 ->
  adv_store_range v d mask st s e = one_at_a_time (adv_store d mask) s e st.
Proof. exact adv_h6_range_eq. Qed.
Print Assumptions C19_range_H6.

Theorem C19_split_H6 :
  forall d mask st s cuts, ak (a_spec st) = AK_H6 -> ascending s cuts ->
  pieces (fun st a b => adv_bulk_store_range d mask st a b) cuts s (Ok st)
  = adv_bulk_store_range d mask st s (last_cut s cuts).
Proof. exact adv_h6_split_eq. Qed.
Print Assumptions C19_split_H6.

Theorem C19_vec4_H6 :
  forall d mask st q, ak (a_spec st) = AK_H6 ->
  adv_store4vec4 d mask st q = for_each (adv_store d mask) [q; q + 4; q + 8; q + 12] (Ok st) /\
  adv_store_even_vec4 d mask st q = for_each (adv_store d mask) [q; q + 2; q + 4; q + 6] (Ok st).
Proof. exact adv_h6_vec4_eq. Qed.
Print Assumptions C19_vec4_H6.

Theorem C19_clone_adv :
  forall st : adv_state, adv_clone st = Ok st /\ adv_eqb st st = true.
Proof. exact adv_clone_eq. Qed.
Print Assumptions C19_clone_adv.

(* ---- H9 (quality 9, and 10 with q9_5) ---- *)
Theorem C19_bulk_H9 :
  forall d mask st s e, h9_bulk_store_range d mask st s e = one_at_a_time (h9_store d mask) s e st.
Proof. exact h9_bulk_eq. Qed.
Print Assumptions C19_bulk_H9.

Theorem C19_range_H9 :
  forall d mask st s e, h9_store_range d mask st s e = one_at_a_time (h9_store d mask) s e st.
Proof. exact h9_range_eq. Qed.
Print Assumptions C19_range_H9.

Theorem C19_split_H9 :
  forall d mask st s cuts, ascending s cuts ->
  pieces (fun st a b => h9_bulk_store_range d mask st a b) cuts s (Ok st) = h9_bulk_store_range d mask st s (last_cut s cuts).
Proof. exact (fun d mask st s cuts => loop_split_eq (h9_store d mask) st s cuts). Qed.
Print Assumptions C19_split_H9.

Theorem C19_clone_H9 :
  forall st : h9_state, h9_clone st = Ok st /\ h9_eqb st st = true.
Proof. exact h9_clone_eq. Qed.
Print Assumptions C19_clone_H9.

(* ---- H10 (binary tree, quality 10-11).  StoreRange thins ranges of 63 positions and more by
   design, so the range statement is for shorter ranges only. ---- *)
Theorem C19_bulk_H10 :
  forall d mask st s e, h10_bulk_store_range d mask st s e = one_at_a_time (h10_store d mask) s e st.
Proof. exact h10_bulk_eq. Qed.
Print Assumptions C19_bulk_H10.

Theorem C19_split_H10 :
  forall d mask st s cuts, ascending s cuts ->
  pieces (fun st a b => h10_bulk_store_range d mask st a b) cuts s (Ok st) = h10_bulk_store_range d mask st s (last_cut s cuts).
Proof. exact (fun d mask st s cuts => loop_split_eq (h10_store d mask) st s cuts). Qed.
Print Assumptions C19_split_H10.

Theorem C19_range_H10_short :
  forall d mask st s e, e < s + H10_RANGE_TAIL ->
  h10_store_range d mask st s e = one_at_a_time (h10_store d mask) s e st.
Proof. exact h10_range_short_eq. Qed.
Print Assumptions C19_range_H10_short.

Theorem C19_clone_H10 :
  forall st : h10_state, tlen (t_buckets st) = N.shiftl 1 H10_BUCKET_BITS ->
  h10_clone st = Ok st /\ h10_eqb st st = true.
Proof. exact h10_clone_eq. Qed.
Print Assumptions C19_clone_H10.

(* ---- the fast paths as found: the statements above are false of them ---- *)
(* quality 3, no mask, a range starting at 1: the group of four positions 5..8 straddles a
   multiple of 8 and position 8 lands in the wrong slot of the sweep *)
Theorem C19_range_asfound_refuted_unmasked :
  exists d mask st s e, s < e /\ view_ok d mask 10 (e + 7) /\
    basic_store_range AsFound H3p d mask st s e <> one_at_a_time (basic_store H3p d mask) s e st.
Proof. exact basic_asfound_refuted_unmasked. Qed.
Print Assumptions C19_range_asfound_refuted_unmasked.

(* quality 2 behind a ring-buffer mask, positions beyond the mask: masked positions were stored *)
Theorem C19_range_asfound_refuted_masked :
  exists d mask st s e, s < e /\ view_ok d mask 10 (e + 7) /\
    basic_store_range AsFound H2p d mask st s e <> one_at_a_time (basic_store H2p d mask) s e st.
Proof. exact basic_asfound_refuted_masked. Qed.
Print Assumptions C19_range_asfound_refuted_masked.

(* quality 5 (H5q5) behind a ring-buffer mask: StoreRange stored masked positions *)
Theorem C19_range_asfound_refuted_adv_masked :
  exists d mask st s e, s < e /\ adv32_ok (a_spec st) /\ adv_lens_ok st = true /\ view_ok d mask 6 (e + 3) /\
    adv_store_range AsFound d mask st s e <> one_at_a_time (adv_store d mask) s e st.
Proof. exact adv_asfound_refuted_masked. Qed.
Print Assumptions C19_range_asfound_refuted_adv_masked.

(* Non-vacuity: the hypotheses hold for concrete data, masked and unmasked, and the updates
   really fill slots (16 resp. 8 distinct entries). *)
Example C19_nonvacuous :
  view_ok wdata_plain USIZE_MAX 10 (17 + 7) /\ view_ok wdata_ring 15 10 (32 + 7) /\ view_ok wdata_ring 15 6 (24 + 3) /\
  adv32_ok (a_spec hq5_init) /\ adv_lens_ok hq5_init = true /\
  (match basic_store_range Repaired H3p wdata_plain USIZE_MAX (basic_init 65546) 1 17 with
   | Ok st => N.of_nat (length (tentries (b_buckets st))) | Panic => 0 end) = 16 /\
  (match adv_store_range Repaired wdata_ring 15 hq5_init 16 24 with
   | Ok st => N.of_nat (length (tentries (a_buckets st))) | Panic => 0 end) = 8.
Proof.
  split; [exact wdata_plain_view|]. split; [apply wdata_ring_view; [apply N.le_refl|reflexivity]|].
  split; [apply wdata_ring_view; [discriminate|reflexivity]|].
  split; [apply adv32_ok_hq5; reflexivity|]. split; [reflexivity|].
  exact (proj2 (proj2 (proj2 witnesses_repaired))).
Qed.
