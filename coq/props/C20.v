(* C20 - streaming state machine honours its call contract.  Property theorems only.
   The model (model/Stream.v) abstracts the compression back ends as a list of recorded
   answers carried in the state; every theorem here holds for ALL such lists. *)
From Coq Require Import NArith List.
From V Require Import lib.Words model.Stream proofs.Stream_proofs.
Open Scope N_scope.

(* Parameters can be changed only before the first byte is processed: once a stream call
   has initialised the encoder every set_parameter is refused and the state is unchanged. *)
Theorem C20_params : forall s id v, initialized s = true -> set_parameter s id v = (false, s).
Proof. exact set_parameter_frozen. Qed.
Print Assumptions C20_params.

Theorem C20_params_after_any_call : forall s, initialized (ensure_initialized s) = true.
Proof. exact ensure_initialized_initialized. Qed.
Print Assumptions C20_params_after_any_call.

(* Finished is absorbing: every later stream call, with any operation, input and output
   space, consumes nothing, produces nothing, invokes no back end, stays finished, and is
   refused when it offers input. *)
Theorem C20_finished : forall s op payload offered capn,
  initialized s = true -> rem_meta s = U32MAX -> is_finished s = true ->
  exists r s',
    compress_stream s op payload offered capn = Done (r, s', io0 offered capn)
    /\ is_finished s' = true /\ oracle s' = oracle s /\ total_out_ s' = total_out_ s
    /\ (offered <> 0 -> r = false).
Proof. exact finished_absorbing. Qed.
Print Assumptions C20_finished.

(* Changing the amount of metadata (or the operation) mid-block is refused with no state change. *)
Theorem C20_metadata_midblock : forall s op payload offered capn,
  initialized s = true -> rem_meta s <> U32MAX ->
  (offered <> rem_meta s \/ op <> OpMeta) ->
  compress_stream s op payload offered capn = Done (false, s, io0 offered capn).
Proof. exact metadata_midblock_refused. Qed.
Print Assumptions C20_metadata_midblock.

(* Oversized metadata (more than 2^24 bytes) is refused; only the size hint may have been fixed. *)
Theorem C20_metadata_oversize : forall s payload offered capn,
  initialized s = true -> rem_meta s = U32MAX -> 2 ^ 24 < offered ->
  compress_stream s OpMeta payload offered capn = Done (false, update_size_hint s 0, io0 offered capn).
Proof. exact metadata_oversize_refused. Qed.
Print Assumptions C20_metadata_oversize.

(* Input while flushing, finishing or after finish is refused with no state change. *)
Theorem C20_input_refused : forall s op payload offered capn,
  initialized s = true -> rem_meta s = U32MAX -> op <> OpMeta ->
  sstate_ s <> SProcessing -> offered <> 0 ->
  compress_stream s op payload offered capn = Done (false, s, io0 offered capn).
Proof. exact input_refused_unless_processing. Qed.
Print Assumptions C20_input_refused.

(* Repeating a request while offering output space reaches its completion after finitely many
   calls: every stream call (other than metadata) that returns true and was offered at least
   one byte of output space either filled the output buffer it was given - so it delivered at
   least one byte - or completed the request: all offered input consumed and nothing pending.
   Since only finitely many bytes are pending between two back-end invocations, repetition
   with output space terminates. *)
Theorem C20_progress : forall s0 op payload offered capn s' x',
  op <> OpMeta -> all_ok (oracle s0) -> 1 <= capn ->
  compress_stream s0 op payload offered capn = Done (true, s', x') ->
  lenN (produced x') = capn \/ (in_off x' = offered /\ avail_out_ s' = 0).
Proof. exact call_progress. Qed.
Print Assumptions C20_progress.

(* No panic in the flush padding: with nothing pending the padding block is always written
   (repaired code: 5c81998).  As found, a metadata block that ended exactly at the end of the
   16-byte tiny buffer left the output cursor there, and a later flush at quality 0/1 (block
   compressed straight into the caller's buffer) indexed past the buffer and panicked. *)
Theorem C20_padding_no_panic : forall s, avail_out_ s = 0 ->
  exists s', inject_byte_padding_block s = Done s'.
Proof. exact padding_no_panic_when_drained. Qed.
Print Assumptions C20_padding_no_panic.

Theorem C20_padding_asfound_refuted :
  exists s, avail_out_ s = 0 /\ inject_byte_padding_block_asfound s = Panic 3
            /\ exists s', inject_byte_padding_block s = Done s'.
Proof. exact padding_asfound_refuted. Qed.
Print Assumptions C20_padding_asfound_refuted.

(* No panic anywhere in the stream glue.  `inv` (proofs/NoPanic_proofs.v) constrains the output
   cursor: pending bytes lie inside the buffer the cursor points into, and when a flush still
   owes its padding block there is room for it behind them.  From ANY initialised state
   satisfying it, for ANY operation, input size, output capacity and ANY back-end answers
   within their size contract (answer_ok2), a stream call cannot reach a Panic outcome of the
   model (slice index out of range, write past the tiny buffer or the storage, missing payload
   byte) and re-establishes the invariant; likewise take_output.  A fresh encoder after any
   sequence of set_parameter calls satisfies it at its first call. *)
From V Require Import proofs.NoPanic_proofs.

Theorem C20_no_panic : forall t0 s op payload offered capn,
  initialized s = true -> inv s -> meta_ok s -> all_ok2 (oracle s) ->
  (op = OpMeta -> offered <= lenN payload /\ offered < 2 ^ 32) ->
  call_ok (compress_stream_from t0 s op payload offered capn).
Proof. exact stream_call_no_panic. Qed.
Print Assumptions C20_no_panic.

Theorem C20_no_panic_take : forall s n, inv s ->
  exists bs s', take_output s n = Done (bs, s') /\ inv s'.
Proof. exact take_output_no_panic. Qed.
Print Assumptions C20_no_panic_take.

Theorem C20_inv_initial : forall s, fresh s -> initialized s = false ->
  inv (ensure_initialized s) /\ meta_ok (ensure_initialized s) /\ oracle (ensure_initialized s) = oracle s.
Proof. exact fresh_inv. Qed.
Print Assumptions C20_inv_initial.

Theorem C20_fresh_params : fresh init_st /\ forall s id v, fresh s -> fresh (snd (set_parameter s id v)).
Proof. split; [exact fresh_init|exact fresh_set_parameter]. Qed.
Print Assumptions C20_fresh_params.
