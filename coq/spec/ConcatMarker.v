(* C03: the well-formedness side condition of the bit-level theorem, as an executable predicate in
   the quantities of spec/ConcatSpec.v (definitions only, extractable).

   concat_spec only looks at a member's window field, the shape of its first meta-block header and the
   two end-marker bits.  A real Brotli stream has more structure: the metadata / uncompressed first
   header the concatenator may shift is followed by byte-aligned content, so the end marker (ISLAST,
   ISLASTEMPTY of the final empty meta-block) always starts at or after bit 8 * src_bytes, where
   src_bytes = ceil((wlen + hlen) / 8) is the number of look-ahead bytes the window field and header
   occupy; and a stream of exactly five bytes cannot have a marker straddling bytes 3 and 4 (that
   needs a compressed meta-block ending at bit 31, which does not fit).  `member_marker_ok` says
   exactly this:  8 * max 4 src_bytes <= number of bits before the end marker
   (src_bytes counted as 0 for the member that supplies the window, whose header is not shifted, and
   when the header does not fit the look-ahead, where concat_spec is undefined anyway).  Every byte
   string of 7 or more bytes that ends in a marker satisfies it (C03_marker_ok_long): the condition
   only excludes degenerate strings of 5 or 6 bytes.
   On byte strings that violate it (not streams) the concatenator's 2-byte tail logic and
   concat_spec disagree, see C03_bits_stmt_refuted. *)
From Coq Require Import NArith List Bool.
From V Require Import lib.Words model.Concat model.ConcatRun spec.ConcatSpec.
Import ListNotations.
Open Scope N_scope.

(* later = an earlier member (or a window override) already fixed the output window *)
Definition member_marker_ok (later : bool) (m : list N) : bool :=
  if lenN m <? LOOKAHEAD then true else
  match rfc_wbits (byte_at m 0 + 256 * byte_at m 1), strip_end_marker (bits_of_bytes m) with
  | Some (_, wlen), Some body =>
    let src := if later then
                 match first_header_len (skipn (N.to_nat wlen) (bits_of_bytes (takeN 6 m))) with
                 | Some hlen => let n := (wlen + hlen + 7) / 8 in if LOOKAHEAD <? n then 0 else n
                 | None => 0
                 end
               else 0 in
    8 * N.max 4 src <=? N.of_nat (length body)
  | _, _ => true
  end.

Fixpoint members_marker_ok (later : bool) (ms : list (list N)) : bool :=
  match ms with
  | [] => true
  | m :: t => member_marker_ok later m && members_marker_ok (later || (LOOKAHEAD <=? lenN m)) t
  end.

Definition markers_ok (override : option N) (ms : list (list N)) : bool :=
  members_marker_ok (match override with Some _ => true | None => false end) ms.
