(* Executable specifications for the concatenator properties C16 / C12 / C03, written
   against the documented protocol and RFC 7932, not against the code.
   * C16: what a single `stream` / `finish` answer must satisfy (`c16_call_ok`), and the
          state invariant as a boolean (`invb`);
   * C12: two protocol-following runs over the same members agree (`c12_agree`);
   * the RFC 7932 section 9.1 WBITS reader incl. the large-window extension (`rfc_wbits`);
   * C03: the bit-level meaning of concatenation (`concat_spec`). *)
From Coq Require Import NArith List Bool.
From V Require Import lib.Words model.Concat model.ConcatRun.
Import ListNotations.
Open Scope N_scope.

(* ------------------------------------------------------------------ state invariant *)
Definition is_byte (x : N) : bool := x <? 256.

Definition nsd_invb (ws : N) (sanitized : bool) (p : NewStreamData) : bool :=
  (lenN (bytes_so_far p) =? 5) && forallb is_byte (bytes_so_far p) && (num_bytes_read p <=? 5) &&
  match num_bytes_written p with
  | None => true
  | Some k => (k <? num_bytes_read p) && negb (ws =? 0) && sanitized
  end.

Definition invb (s : BroCatli) : bool :=
  is_byte (lb0 s) && is_byte (lb1 s) && (last_bytes_len s <=? 2) && (last_byte_bit_offset s <? 8) &&
  ((window_size s =? 0) || ((10 <=? window_size s) && (window_size s <=? 30))) &&
  (negb (window_size s =? 0) || ((last_bytes_len s =? 0) && (last_byte_bit_offset s =? 0))) &&
  (negb (last_byte_sanitized s) ||
     ((last_bytes_len s <=? 1) && ((last_bytes_len s =? 0) || (lb0 s <? 2 ^ last_byte_bit_offset s)))) &&
  match new_stream_pending s with
  | None => true
  | Some p => nsd_invb (window_size s) (last_byte_sanitized s) p
  end.

(* a member has been announced: stream is only called after new_brotli_file *)
Definition startedb (s : BroCatli) : bool :=
  negb (window_size s =? 0) || is_some (new_stream_pending s).

(* ------------------------------------------------------------------ C16: one call *)
Definition is_rc (a : rcode) (b : rcode) : bool := rcode_eqb a b.

Definition c16_call_ok (c : call_rec) : bool :=
  match cr_rc c with
  | None => false                                               (* panic *)
  | Some rc =>
    (cr_in0 c <=? cr_in1 c) && (cr_in1 c <=? cr_inlen c) &&
    (cr_off0 c <=? cr_off1 c) && (cr_off1 c <=? cr_cap c) &&
    (negb (is_rc rc NeedsMoreInput) || (cr_in1 c =? cr_inlen c)) &&
    (negb (is_rc rc NeedsMoreOutput) || (cr_off1 c =? cr_cap c)) &&
    (if cr_op c =? 0 then
       negb (is_rc rc Success) &&
       (* progress: with input available and output space, a non-error answer moved a cursor *)
       (negb (is_rc rc NeedsMoreInput || is_rc rc NeedsMoreOutput) ||
        negb ((cr_off0 c <? cr_cap c) && (cr_in0 c <? cr_inlen c)) ||
        (cr_in0 c <? cr_in1 c) || (cr_off0 c <? cr_off1 c))
     else
       (is_rc rc Success || is_rc rc NeedsMoreOutput) &&
       (negb (cr_off0 c <? cr_cap c) || is_rc rc Success || (cr_off0 c <? cr_off1 c)))
  end.

(* monitor of the theorems' hypothesis: the state after the call satisfies the invariant *)
Definition c16_state_ok (c : call_rec) : bool :=
  match deserialize_from_buffer (cr_state c) with
  | None => false
  | Some s => invb s
  end.

Definition c16_run_ok (r : run_result) : bool :=
  match rr_final r with
  | Done _ => forallb c16_call_ok (rr_trace r)
  | _ => false
  end.

(* ------------------------------------------------------------------ C12 *)
Definition outcome_eqb (a b : outcome) : bool :=
  match a, b with
  | Done x, Done y => rcode_eqb x y
  | Panicked, Panicked => true
  | Looped, Looped => true
  | _, _ => false
  end.
Fixpoint list_eqb (a b : list N) : bool :=
  match a, b with
  | [], [] => true
  | x :: a', y :: b' => (x =? y) && list_eqb a' b'
  | _, _ => false
  end.
Definition c12_agree (o1 : outcome) (out1 : list N) (o2 : outcome) (out2 : list N) : bool :=
  outcome_eqb o1 o2 && list_eqb out1 out2.

(* ------------------------------------------------------------------ RFC 7932 9.1 WBITS *)
(* v = the first two stream bytes, little-endian.  Result: (lgwin, number of bits). *)
Definition rfc_wbits (v : N) : option (N * N) :=
  if negb (N.testbit v 0) then Some (16, 1) else
  let n := N.land (N.shiftr v 1) 7 in
  if negb (n =? 0) then Some (17 + n, 4) else
  let m := N.land (N.shiftr v 4) 7 in
  if m =? 0 then Some (17, 7) else
  if negb (m =? 1) then Some (8 + m, 7) else
  (* large-window extension: 0b0010001, then a zero bit, then 6 bits of window size *)
  if N.testbit v 7 then None else
  let w := N.land (N.shiftr v 8) 63 in
  if (10 <=? w) && (w <=? 30) then Some (w, 14) else None.
