(* Executable specifications for the concatenator properties C16 / C12 / C03, written
   against the documented protocol and RFC 7932, not against the code.
   * C16: what a single `stream` / `finish` answer must satisfy (`c16_call_ok`), and the
          state invariant as a boolean (`invb`);
   * C12: two protocol-following runs over the same members agree (`c12_agree`);
   * the RFC 7932 section 9.1 WBITS reader incl. the large-window extension (`rfc_wbits`);
   * C03: the bit-level meaning of concatenation (`concat_spec`). *)
From Coq Require Import NArith List Bool.
From V Require Import lib.Words model.Concat model.ConcatRun.
Import ListNotations.
Open Scope N_scope.

(* ------------------------------------------------------------------ state invariant *)
Definition is_byte (x : N) : bool := x <? 256.

Definition nsd_invb (ws : N) (sanitized : bool) (p : NewStreamData) : bool :=
  (lenN (bytes_so_far p) =? 5) && forallb is_byte (bytes_so_far p) && (num_bytes_read p <=? 5) &&
  match num_bytes_written p with
  | None => true
  | Some k => (k <? num_bytes_read p) && negb (ws =? 0)
  end.

Definition invb (s : BroCatli) : bool :=
  is_byte (lb0 s) && is_byte (lb1 s) && (last_bytes_len s <=? 2) && (last_byte_bit_offset s <? 8) &&
  ((window_size s =? 0) || ((10 <=? window_size s) && (window_size s <=? 30))) &&
  (negb (window_size s =? 0) || ((last_bytes_len s =? 0) && (last_byte_bit_offset s =? 0))) &&
  (negb (last_byte_sanitized s) ||
     ((last_bytes_len s <=? 1) && ((last_bytes_len s =? 0) || (lb0 s <? 2 ^ last_byte_bit_offset s)))) &&
  match new_stream_pending s with
  | None => negb (last_byte_sanitized s)
  | Some p => nsd_invb (window_size s) (last_byte_sanitized s) p
  end.

(* a member has been announced: stream is only called after new_brotli_file *)
Definition startedb (s : BroCatli) : bool :=
  negb (window_size s =? 0) || is_some (new_stream_pending s).

(* ------------------------------------------------------------------ C16: one call *)
Definition is_rc (a : rcode) (b : rcode) : bool := rcode_eqb a b.

Definition c16_call_ok (c : call_rec) : bool :=
  match cr_rc c with
  | None => false                                               (* panic *)
  | Some rc =>
    (cr_in0 c <=? cr_in1 c) && (cr_in1 c <=? cr_inlen c) &&
    (cr_off0 c <=? cr_off1 c) && (cr_off1 c <=? cr_cap c) &&
    (negb (is_rc rc NeedsMoreInput) || (cr_in1 c =? cr_inlen c)) &&
    (negb (is_rc rc NeedsMoreOutput) || (cr_off1 c =? cr_cap c)) &&
    (if cr_op c =? 0 then
       negb (is_rc rc Success) &&
       (* progress: with input available and output space, a non-error answer moved a cursor *)
       (negb (is_rc rc NeedsMoreInput || is_rc rc NeedsMoreOutput) ||
        negb ((cr_off0 c <? cr_cap c) && (cr_in0 c <? cr_inlen c)) ||
        (cr_in0 c <? cr_in1 c) || (cr_off0 c <? cr_off1 c))
     else
       (is_rc rc Success || is_rc rc NeedsMoreOutput) &&
       (negb (cr_off0 c <? cr_cap c) || is_rc rc Success || (cr_off0 c <? cr_off1 c)))
  end.

(* monitor of the theorems' hypothesis: the state after the call satisfies the invariant *)
Definition c16_state_ok (c : call_rec) : bool :=
  match deserialize_from_buffer (cr_state c) with
  | None => false
  | Some s => invb s
  end.

Definition c16_run_ok (r : run_result) : bool :=
  match rr_final r with
  | Done _ => forallb c16_call_ok (rr_trace r)
  | _ => false
  end.

(* ------------------------------------------------------------------ C12 *)
Definition outcome_eqb (a b : outcome) : bool :=
  match a, b with
  | Done x, Done y => rcode_eqb x y
  | Panicked, Panicked => true
  | Looped, Looped => true
  | _, _ => false
  end.
Fixpoint list_eqb (a b : list N) : bool :=
  match a, b with
  | [], [] => true
  | x :: a', y :: b' => (x =? y) && list_eqb a' b'
  | _, _ => false
  end.
Definition c12_agree (o1 : outcome) (out1 : list N) (o2 : outcome) (out2 : list N) : bool :=
  outcome_eqb o1 o2 && list_eqb out1 out2.

(* ------------------------------------------------------------------ RFC 7932 9.1 WBITS *)
(* v = the first two stream bytes, little-endian.  Result: (lgwin, number of bits). *)
Definition rfc_wbits (v : N) : option (N * N) :=
  if negb (N.testbit v 0) then Some (16, 1) else
  let n := N.land (N.shiftr v 1) 7 in
  if negb (n =? 0) then Some (17 + n, 4) else
  let m := N.land (N.shiftr v 4) 7 in
  if m =? 0 then Some (17, 7) else
  if negb (m =? 1) then Some (8 + m, 7) else
  (* large-window extension: 0b0010001, then a zero bit, then 6 bits of window size *)
  if N.testbit v 7 then None else
  let w := N.land (N.shiftr v 8) 63 in
  if (10 <=? w) && (w <=? 30) then Some (w, 14) else None.

(* ------------------------------------------------------------------ C03: what concatenation means, bit by bit *)
(* Bits are least-significant first within a byte (RFC 7932 section 1.5.2). *)
Fixpoint byte_bits (n : nat) (b : N) : list bool :=
  match n with O => [] | S n' => N.odd b :: byte_bits n' (N.div2 b) end.
Fixpoint bits_of_bytes (l : list N) : list bool :=
  match l with [] => [] | b :: t => byte_bits 8 b ++ bits_of_bytes t end.
Fixpoint bits_val (l : list bool) : N :=
  match l with [] => 0 | b :: t => (if b then 1 else 0) + 2 * bits_val t end.
Fixpoint bytes_of_bits (fuel : nat) (l : list bool) : list N :=
  match fuel with
  | O => []
  | S f => match l with [] => [] | _ => bits_val (firstn 8 l) :: bytes_of_bits f (skipn 8 l) end
  end.
Definition pack (l : list bool) : list N := bytes_of_bits (S (length l)) l.

(* RFC 7932 9.1 encoder side: the WBITS field for a window (large-window form above 24) *)
Definition wbits_field (w : N) : list bool :=
  if w =? 16 then [false]
  else if (18 <=? w) && (w <=? 24) then byte_bits 4 (1 + 2 * (w - 17))
  else if w =? 17 then byte_bits 7 1
  else if (10 <=? w) && (w <=? 15) then byte_bits 7 (1 + 16 * (w - 8))
  else byte_bits 8 17 ++ byte_bits 6 w.

(* drop the final empty meta-block (ISLAST = 1, ISLASTEMPTY = 1) and the zero padding after it;
   the stream must end in a non-zero byte whose top set bit and the bit before it are the marker *)
Fixpoint strip_zeros (r : list bool) : list bool :=     (* r = reversed bits *)
  match r with false :: t => strip_zeros t | _ => r end.
Definition strip_end_marker (bits : list bool) : option (list bool) :=
  match rev_append bits [] with                                     (* linear-time reversal *)
  | [] => None
  | r =>
    if negb (existsb (fun b => b) (firstn 8 r)) then None else       (* last byte is zero *)
    match strip_zeros r with
    | true :: true :: t => Some (rev_append t [])
    | _ => None
    end
  end.

(* length in bits of the first meta-block header (after WBITS) when it is one the concatenator
   may shift: ISLAST = 0 and either metadata (reserved bit 0) or uncompressed *)
Definition first_header_len (h : list bool) : option N :=
  match h with
  | false :: m0 :: m1 :: rest =>
    if m0 && m1 then
      match rest with
      | false :: k0 :: k1 :: _ => Some (6 + 8 * bits_val [k0; k1])
      | _ => None
      end
    else
      let nib := 4 + bits_val [m0; m1] in
      if nth (N.to_nat (4 * nib)) rest false then Some (3 + 4 * nib + 1) else None
  | _ => None
  end.

Definition LOOKAHEAD : N := 5.

(* acc = (window of the first processed member or the override, output bits so far without end marker) *)
Definition add_member (acc : option (N * list bool)) (m : list N) : option (option (N * list bool)) :=
  if lenN m <? LOOKAHEAD then Some acc else                         (* necessarily an empty stream: skipped *)
  match rfc_wbits (byte_at m 0 + 256 * byte_at m 1) with
  | None => None
  | Some (lgwin, wlen) =>
    match strip_end_marker (bits_of_bytes m) with
    | None => None
    | Some body =>
      match acc with
      | None => Some (Some (lgwin, body))
      | Some (w0, prev) =>
        if w0 <? lgwin then None else
        match first_header_len (skipn (N.to_nat wlen) (bits_of_bytes (takeN 6 m))) with
        | None => None
        | Some hlen =>
          let src_bytes := (wlen + hlen + 7) / 8 in
          if LOOKAHEAD <? src_bytes then None else
          let hdr := firstn (N.to_nat hlen) (skipn (N.to_nat wlen) body) in
          let mid := prev ++ hdr in
          let pad := repeat false (N.to_nat ((8 - (N.of_nat (length mid)) mod 8) mod 8)) in
          Some (Some (w0, mid ++ pad ++ skipn (N.to_nat (8 * src_bytes)) body))
        end
      end
    end
  end.

Fixpoint add_members (acc : option (N * list bool)) (ms : list (list N)) : option (option (N * list bool)) :=
  match ms with
  | [] => Some acc
  | m :: t => match add_member acc m with None => None | Some acc' => add_members acc' t end
  end.

(* override = Some w for new_with_window_size(w).  None = the specification does not apply
   (a member is not of the appendable/catable shape, windows grow, header too long) *)
Definition concat_spec (override : option N) (ms : list (list N)) : option (list N) :=
  let acc0 := match override with None => None | Some w => Some (w, wbits_field w) end in
  match add_members acc0 ms with
  | None => None
  | Some None => Some [59]                                           (* nothing but empty streams: ";" *)
  | Some (Some (_, bits)) => Some (pack (bits ++ [true; true]))
  end.

(* the invariant as a proposition *)
Definition Inv (s : BroCatli) : Prop := invb s = true.
Definition Started (s : BroCatli) : Prop := startedb s = true.

(* the last two bytes (a, b) of a stream end in the final empty meta-block: the last byte is not
   zero and the highest set bit (ISLASTEMPTY) has the bit below it (ISLAST) set as well *)
Definition end_marker_ok (a b : N) : bool :=
  let v := a + 256 * b in
  negb (b =? 0) && (1 <=? N.log2 v) && N.testbit v (N.log2 v - 1).
