(* Reference monitor of the documented stream-call contract (c/brotli/encode.h and the text
   of property C20), written without looking at the encoder's control flow.  It consumes
   one observation per API call and says whether the call's observable outcome is allowed.
   Violation codes:
     1 cursor moved beyond the buffers          2 set_parameter accepted after the first stream call
     3 activity after finished (consumed/produced/left finished/accepted input)
     4 input consumed or accepted after the finish request was accepted
     5 input accepted while a flush is pending  6 oversized metadata accepted
     7 metadata amount/operation changed mid-block but the call was accepted
     8 no progress although output space was offered and work remains
     9 a call that must succeed under the contract failed *)
From Coq Require Import NArith List Bool.
Import ListNotations.
Open Scope N_scope.

Inductive okind := KStream | KTake | KSetParam.
Inductive cop := CProcess | CFlush | CFinish | CMeta.

Record obs := {
  o_kind : okind; o_op : cop; o_offered : N; o_cap : N;
  o_ret : bool; o_consumed : N; o_produced : N; o_fin : bool; o_more : bool;
  o_finish_accepted : bool;   (* the encoder reports the FINISHED stream state after the call *)
  o_flush_pending : bool      (* the encoder reports FLUSH_REQUESTED after the call *) }.

Record mon := {
  m_started : bool; m_fin : bool; m_finacc : bool; m_flushing : bool;
  m_meta : option N  (* Some r: inside a metadata block with r payload bytes still to supply *) }.

Definition mon0 : mon := {| m_started := false; m_fin := false; m_finacc := false; m_flushing := false; m_meta := None |}.

Definition cop_is_meta (c : cop) : bool := match c with CMeta => true | _ => false end.

Definition mon_step (m : mon) (o : obs) : option N * mon :=
  match o_kind o with
  | KSetParam =>
      if m_started m && o_ret o then (Some 2, m) else (None, m)
  | KTake =>
      (* "If output is acquired via BrotliEncoderTakeOutput, then operation should be repeated
         after output buffer is drained": draining alone does not complete a request *)
      (None, {| m_started := m_started m; m_fin := o_fin o || m_fin m; m_finacc := m_finacc m || o_finish_accepted o;
                m_flushing := o_flush_pending o; m_meta := m_meta m |})
  | KStream =>
      let m1 := {| m_started := true; m_fin := m_fin m || o_fin o; m_finacc := m_finacc m || o_finish_accepted o;
                   m_flushing := o_flush_pending o;
                   m_meta :=
                     if negb (o_ret o) then m_meta m
                     else if cop_is_meta (o_op o) then
                       let r := o_offered o - o_consumed o in
                       if (r =? 0) && negb (o_more o) then None else Some r
                     else m_meta m |} in
      if (o_offered o <? o_consumed o) || (o_cap o <? o_produced o) then (Some 1, m1)
      else if m_fin m && (negb (o_consumed o =? 0) || negb (o_produced o =? 0) || negb (o_fin o)
                          || (negb (o_offered o =? 0) && o_ret o)) then (Some 3, m1)
      else if m_finacc m && (negb (o_consumed o =? 0) || (negb (o_offered o =? 0) && o_ret o)) then (Some 4, m1)
      else if m_flushing m && negb (o_offered o =? 0) && o_ret o then (Some 5, m1)
      else if cop_is_meta (o_op o) && (2 ^ 24 <? o_offered o) && (o_ret o || negb (o_consumed o =? 0)) then (Some 6, m1)
      else match m_meta m with
           | Some r =>
               if (negb (cop_is_meta (o_op o)) || negb (o_offered o =? r)) && (o_ret o || negb (o_consumed o =? 0))
               then (Some 7, m1) else
               if o_ret o && negb (o_cap o =? 0) && ((o_consumed o <? o_offered o) || o_more o)
                  && (o_consumed o =? 0) && (o_produced o =? 0) then (Some 8, m1) else (None, m1)
           | None =>
               if o_ret o && negb (o_cap o =? 0) && ((o_consumed o <? o_offered o) || o_more o)
                  && (o_consumed o =? 0) && (o_produced o =? 0) then (Some 8, m1)
               else if negb (o_ret o) && negb (m_fin m) && negb (m_finacc m) && negb (m_flushing m)
                       && negb (cop_is_meta (o_op o)) then (Some 9, m1)
               else (None, m1)
           end
  end.

Fixpoint mon_run (m : mon) (l : list obs) (k : N) : option (N * N) :=   (* (index, code) of the first violation *)
  match l with
  | [] => None
  | o :: t => match mon_step m o with
              | (Some c, _) => Some (k, c)
              | (None, m') => mon_run m' t (k + 1)
              end
  end.
