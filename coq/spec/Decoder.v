(* RFC 7932 -- an executable decoder for complete brotli streams: the SPECIFICATION side of C01.

   Written from the RFC text (sections 2-10 and the appendices), not from the encoder:
     9.1  WBITS (plus the 14-bit "large window" form of the reference decoder's extension:
          the pattern 0010001 that RFC 7932 leaves invalid, one zero bit, six bits of WBITS 10..30),
     9.2  meta-block header: ISLAST, ISLASTEMPTY, MNIBBLES/MLEN, reserved bit, MSKIPBYTES/MSKIPLEN,
          ISUNCOMPRESSED, fill bits,
     6    block types and block counts for the three categories,
     4    NPOSTFIX/NDIRECT, distance codes, the ring of four last distances with its 16 short codes,
     7    context modes, the context-ID functions (LSB6, MSB6, UTF8, Signed with Lut0/Lut1/Lut2),
          context maps (RLEMAX, inverse move-to-front),
     3    prefix codes (spec/PrefixCode.v: simple and complex prefix codes),
     5    insert-and-copy lengths (spec/RfcTables.v),
     8    static dictionary words and the 121 transforms (the dictionary itself and the
          (prefix, type, suffix) table are Section parameters: every statement about the
          decoder holds for any dictionary),
     10   the decoding algorithm.
   A stream is a list of bytes; bits are taken least-significant first within a byte.
   The decoder is total: it answers [Ok (bytes, info)] or [Err code] (codes below), where
   [info] counts what the stream used (meta-block kinds, block switches, dictionary
   references, ...), so that a check can report which parts of the format a run reached.

   Besides the stream it takes the bytes of a custom dictionary ("prefix": history that
   precedes the stream, section 1.? of the C/Rust APIs, not part of RFC 7932): positions
   count the prefix, so max distance = min(|prefix| + bytes so far, 2^WBITS - 16).

   Error codes:
     1 stream ends inside a field        2 invalid WBITS                    3 reserved bit set
     4 MLEN: last nibble zero            5 MSKIPLEN: last byte zero         6 fill bits not zero
     7 invalid prefix code description   8 context map run too long         9 large-window form not allowed
    10 insert longer than MLEN          11 copy / word longer than MLEN    12 short code gives distance <= 0
    13 distance beyond 0x7FFFFFFC       14 dictionary: length not 4..24    15 dictionary: transform >= 121
    16 bytes follow the last block      17 symbol not decodable            18 block count exhausted, one type
    19 internal fuel exhausted (never: fuel is a function of the stream length)                          *)
From Coq Require Import NArith PArith List Bool.
From V Require Import lib.PMap spec.RfcTables spec.PrefixCode.
Import ListNotations.
Open Scope N_scope.

Inductive res (A : Type) := Ok (a : A) | Err (code : N).
Arguments Ok {A}. Arguments Err {A}.

(* ------------------------------------------------------------------ bounded iteration *)
Inductive step_res (S R : Type) := Continue (s : S) | Stop (r : R).
Arguments Continue {S R}. Arguments Stop {S R}.

(* apply f at most p times, stopping at the first Stop *)
Fixpoint loop_pos {S R} (p : positive) (f : S -> step_res S R) (s : S) : step_res S R :=
  match p with
  | xH => f s
  | xO q => match loop_pos q f s with Continue s' => loop_pos q f s' | Stop r => Stop r end
  | xI q => match f s with
            | Continue s1 => match loop_pos q f s1 with Continue s2 => loop_pos q f s2 | Stop r => Stop r end
            | Stop r => Stop r
            end
  end.
Definition loop_n {S R} (n : N) (f : S -> step_res S R) (s : S) : step_res S R :=
  match n with N0 => Continue s | Npos p => loop_pos p f s end.

(* ------------------------------------------------------------------ bit readers *)
Definition R (A : Type) := bits -> res (A * bits).
Definition ret {A} (a : A) : R A := fun bs => Ok (a, bs).
Definition fail {A} (e : N) : R A := fun _ => Err e.
Definition bind {A B} (m : R A) (f : A -> R B) : R B :=
  fun bs => match m bs with Ok (a, r) => f a r | Err e => Err e end.
Notation "'do' x <- m ; k" := (bind m (fun x => k)) (at level 200, x pattern, m at level 100, k at level 200).

Definition rbits (n : nat) : R N :=
  fun bs => match read_bits n bs with Some (v, r) => Ok (v, r) | None => Err 1 end.
Definition rbitsN (n : N) : R N := rbits (N.to_nat n).

(* number of bits before the next byte boundary = (number of remaining bits) mod 8: the
   stream is a whole number of bytes *)
Fixpoint len_mod8 (bs : bits) : nat :=
  match bs with
  | _ :: _ :: _ :: _ :: _ :: _ :: _ :: _ :: r => len_mod8 r
  | short => length short
  end.
(* "fill bits ... must be zero" *)
Definition align : R unit :=
  fun bs => match read_bits (len_mod8 bs) bs with
            | Some (v, r) => if v =? 0 then Ok (tt, r) else Err 6
            | None => Err 1
            end.
Fixpoint rbytes_pos (n : positive) (acc : list N) : R (list N) := (* reversed *)
  fun bs =>
  match n with
  | xH => match read_bits 8 bs with Some (v, r) => Ok (v :: acc, r) | None => Err 1 end
  | xO q => match rbytes_pos q acc bs with Ok (a1, r1) => rbytes_pos q a1 r1 | Err e => Err e end
  | xI q => match read_bits 8 bs with
            | Some (v, r) => match rbytes_pos q (v :: acc) r with Ok (a1, r1) => rbytes_pos q a1 r1 | Err e => Err e end
            | None => Err 1
            end
  end.
(* n whole bytes, in order *)
Definition rbytes (n : N) : R (list N) :=
  match n with N0 => ret [] | Npos p => do l <- rbytes_pos p []; ret (rev' l) end.

(* ---- 9.1 WBITS ---- *)
Definition read_wbits (allow_large : bool) : R (N * bool) :=
  do b0 <- rbits 1;
  if b0 =? 0 then ret (16, false) else
  do n <- rbits 3;
  if negb (n =? 0) then ret (17 + n, false) else
  do m <- rbits 3;
  if m =? 0 then ret (17, false)
  else if m =? 1 then
    (if allow_large then
       do z <- rbits 1;
       if negb (z =? 0) then fail 2 else
       do w <- rbits 6;
       if (10 <=? w) && (w <=? 30) then ret (w, true) else fail 2
     else fail 9)
  else ret (8 + m, false).

(* ---- variable-length code for 1..256 (NBLTYPES, NTREES): 0 -> 1; 1 nnn -> 2 (nnn=0) or
        1 + 2^nnn + nnn extra bits ---- *)
Definition read_1_256 : R N :=
  do b <- rbits 1;
  if b =? 0 then ret 1 else
  do n <- rbits 3;
  if n =? 0 then ret 2 else
  do x <- rbitsN n; ret (1 + 2 ^ n + x).

(* ------------------------------------------------------------------ prefix codes *)
(* decoding tree of a canonical code: symbols in order of (length, value) fill the tree from
   the all-zeros code word on (section 3.2) *)
Inductive htree := HEmpty | HLeaf (s : N) | HNode (l r : htree).

Fixpoint index_from (i : N) (l : list N) : list (N * N) :=
  match l with [] => [] | x :: t => (i, x) :: index_from (i + 1) t end.
Definition lens15 : list N := [1;2;3;4;5;6;7;8;9;10;11;12;13;14;15].
Definition sorted_syms (d : list N) : list (N * N) :=
  let ix := filter (fun p => negb (snd p =? 0)) (index_from 0 d) in
  flat_map (fun l => filter (fun p => snd p =? l) ix) lens15.

Fixpoint hbuild (fuel : nat) (depth : N) (syms : list (N * N)) : htree * list (N * N) :=
  match fuel with
  | O => (HEmpty, syms)
  | S f =>
    match syms with
    | [] => (HEmpty, [])
    | (s, l) :: rest =>
      if l <=? depth then (HLeaf s, rest)
      else let '(a, r1) := hbuild f (depth + 1) syms in
           let '(b, r2) := hbuild f (depth + 1) r1 in
           (HNode a b, r2)
    end
  end.
Definition mk_tree (pc : prefix_code) : htree :=
  match pc_single pc with
  | Some s => HLeaf s
  | None => fst (hbuild 16 0 (sorted_syms (pc_lengths pc)))
  end.

(* code words are read most significant bit first: 0 = left *)
Fixpoint hdecode (t : htree) (bs : bits) : res (N * bits) :=
  match t with
  | HLeaf s => Ok (s, bs)
  | HEmpty => Err 17
  | HNode l r => match bs with
                 | [] => Err 1
                 | b :: rest => if b then hdecode r rest else hdecode l rest
                 end
  end.

(* 3.4 with separate "symbol width" and "symbol limit" alphabets (they differ only for the
   distance alphabet of large-window streams); for amax = limit this is rfc_read_simple *)
Definition read_simple2 (amax limit : N) (bs : bits) : option (prefix_code * bits) :=
  match read_bits 2 bs with
  | None => None
  | Some (nsym1, r0) =>
    match read_symbols (N.to_nat (nsym1 + 1)) (alphabet_bits amax) r0 with
    | None => None
    | Some (syms, r1) =>
      if negb (forallb (fun s => s <? limit) syms && distinct syms) then None
      else match syms with
           | [s] => Some ({| pc_lengths := zeros limit; pc_single := Some s |}, r1)
           | [_; _] => Some ({| pc_lengths := assign_lengths (zeros limit) syms [1; 1]; pc_single := None |}, r1)
           | [_; _; _] => Some ({| pc_lengths := assign_lengths (zeros limit) syms [1; 2; 2]; pc_single := None |}, r1)
           | [_; _; _; _] =>
             match read_bits 1 r1 with
             | None => None
             | Some (ts, r2) =>
               let lens := if ts =? 0 then [2; 2; 2; 2] else [1; 2; 3; 3] in
               Some ({| pc_lengths := assign_lengths (zeros limit) syms lens; pc_single := None |}, r2)
             end
           | _ => None
           end
    end
  end.
Definition read_prefix_code2 (amax limit : N) (bs : bits) : option (prefix_code * bits * bool) :=
  match read_bits 2 bs with
  | None => None
  | Some (hskip, r) =>
    if hskip =? 1
    then match read_simple2 amax limit r with Some (pc, r') => Some (pc, r', true) | None => None end
    else match rfc_read_complex limit hskip r with Some (pc, r') => Some (pc, r', false) | None => None end
  end.

(* ------------------------------------------------------------------ what a stream used *)
Definition info := pt N.
Definition bump (i : info) (k : N) : info := nset i k (ngetd i k + 1).
Definition bump_by (i : info) (k n : N) : info := nset i k (ngetd i k + n).
Definition setmax (i : info) (k v : N) : info := if ngetd i k <? v then nset i k v else i.
Definition K_compressed := 1. Definition K_uncompressed := 2. Definition K_metadata := 3.
Definition K_empty_last := 4. Definition K_last_nonempty := 5. Definition K_commands := 6.
Definition K_dict_refs := 7. Definition K_nbl_l := 8. Definition K_nbl_i := 9. Definition K_nbl_d := 10.
Definition K_ntrees_l := 11. Definition K_ntrees_d := 12. Definition K_npostfix := 13.
Definition K_ndirect := 14. Definition K_mode0 := 15. (* 15..18: context modes LSB6 MSB6 UTF8 Signed *)
Definition K_simple := 19. Definition K_complex := 20. Definition K_implicit := 21.
Definition K_short := 22. Definition K_overlap := 23. Definition K_large := 24. Definition K_wbits := 25.
Definition K_switches := 26. Definition K_imtf := 27. Definition K_rle := 28. Definition K_literals := 29.
Definition K_maxdist := 30. Definition K_window_reached := 31. Definition K_single_sym := 32.
Definition K_last_metadata := 33. Definition K_ring_pushes := 34.

Definition read_code (amax limit : N) (i : info) : R (htree * info) :=
  fun bs => match read_prefix_code2 amax limit bs with
            | Some (pc, r, simple) =>
              let i1 := bump i (if simple then K_simple else K_complex) in
              let i2 := match pc_single pc with Some _ => bump i1 K_single_sym | None => i1 end in
              Ok ((mk_tree pc, i2), r)
            | None => Err 7
            end.
Definition rsym (t : htree) : R N := hdecode t.

(* ------------------------------------------------------------------ 6. block switching *)
Record bstate := { b_n : N; b_ttree : htree; b_ltree : htree; b_cur : N; b_prev : N; b_left : N }.

Definition read_block_count (lt : htree) : R N :=
  do c <- rsym lt;
  do x <- rbitsN (rfc_blen_extra c);
  ret (rfc_blen_base c + x).

(* "read NBLTYPESi; if NBLTYPESi >= 2: read prefix code for block types (alphabet NBLTYPES+2),
    for block counts (alphabet 26), the first block count; block type 0; the previous
    block type is 1" *)
Definition read_block_header (i : info) : R (bstate * info) :=
  do n <- read_1_256;
  if n <? 2 then ret ({| b_n := 1; b_ttree := HEmpty; b_ltree := HEmpty; b_cur := 0; b_prev := 1; b_left := 16777216 |}, i)
  else
    do (tyt, i1) <- read_code (n + 2) (n + 2) i;
    do (lt, i2) <- read_code 26 26 i1;
    do cnt <- read_block_count lt;
    ret ({| b_n := n; b_ttree := tyt; b_ltree := lt; b_cur := 0; b_prev := 1; b_left := cnt |}, i2).

(* block type code 0: the second-to-last type; 1: last type + 1; k >= 2: k - 2; mod NBLTYPES *)
Definition block_switch (b : bstate) : R bstate :=
  if b_n b <? 2 then fail 18 else
  do sym <- rsym (b_ttree b);
  let t := if sym =? 0 then b_prev b else if sym =? 1 then b_cur b + 1 else sym - 2 in
  let t := if b_n b <=? t then t - b_n b else t in
  do cnt <- read_block_count (b_ltree b);
  ret {| b_n := b_n b; b_ttree := b_ttree b; b_ltree := b_ltree b; b_cur := t; b_prev := b_cur b; b_left := cnt |}.
Definition b_dec (b : bstate) : bstate :=
  {| b_n := b_n b; b_ttree := b_ttree b; b_ltree := b_ltree b; b_cur := b_cur b; b_prev := b_prev b; b_left := b_left b - 1 |}.

(* ------------------------------------------------------------------ 7. contexts *)
(* Lut0, Lut1, Lut2 of section 7.1 *)
Definition rfc_lut0 : list N :=
  [ 0;  0;  0;  0;  0;  0;  0;  0;  0;  4;  4;  0;  0;  4;  0;  0;
    0;  0;  0;  0;  0;  0;  0;  0;  0;  0;  0;  0;  0;  0;  0;  0;
    8; 12; 16; 12; 12; 20; 12; 16; 24; 28; 12; 12; 32; 12; 36; 12;
   44; 44; 44; 44; 44; 44; 44; 44; 44; 44; 32; 32; 24; 40; 28; 12;
   12; 48; 52; 52; 52; 48; 52; 52; 52; 48; 52; 52; 52; 52; 52; 48;
   52; 52; 52; 52; 52; 48; 52; 52; 52; 52; 52; 24; 12; 28; 12; 12;
   12; 56; 60; 60; 60; 56; 60; 60; 60; 56; 60; 60; 60; 60; 60; 56;
   60; 60; 60; 60; 60; 56; 60; 60; 60; 60; 60; 24; 12; 28; 12;  0;
    0;  1;  0;  1;  0;  1;  0;  1;  0;  1;  0;  1;  0;  1;  0;  1;
    0;  1;  0;  1;  0;  1;  0;  1;  0;  1;  0;  1;  0;  1;  0;  1;
    0;  1;  0;  1;  0;  1;  0;  1;  0;  1;  0;  1;  0;  1;  0;  1;
    0;  1;  0;  1;  0;  1;  0;  1;  0;  1;  0;  1;  0;  1;  0;  1;
    2;  3;  2;  3;  2;  3;  2;  3;  2;  3;  2;  3;  2;  3;  2;  3;
    2;  3;  2;  3;  2;  3;  2;  3;  2;  3;  2;  3;  2;  3;  2;  3;
    2;  3;  2;  3;  2;  3;  2;  3;  2;  3;  2;  3;  2;  3;  2;  3;
    2;  3;  2;  3;  2;  3;  2;  3;  2;  3;  2;  3;  2;  3;  2;  3].
Definition rfc_lut1 : list N :=
  [ 0;  0;  0;  0;  0;  0;  0;  0;  0;  0;  0;  0;  0;  0;  0;  0;
    0;  0;  0;  0;  0;  0;  0;  0;  0;  0;  0;  0;  0;  0;  0;  0;
    0;  1;  1;  1;  1;  1;  1;  1;  1;  1;  1;  1;  1;  1;  1;  1;
    2;  2;  2;  2;  2;  2;  2;  2;  2;  2;  1;  1;  1;  1;  1;  1;
    1;  2;  2;  2;  2;  2;  2;  2;  2;  2;  2;  2;  2;  2;  2;  2;
    2;  2;  2;  2;  2;  2;  2;  2;  2;  2;  2;  1;  1;  1;  1;  1;
    1;  3;  3;  3;  3;  3;  3;  3;  3;  3;  3;  3;  3;  3;  3;  3;
    3;  3;  3;  3;  3;  3;  3;  3;  3;  3;  3;  1;  1;  1;  1;  0;
    0;  0;  0;  0;  0;  0;  0;  0;  0;  0;  0;  0;  0;  0;  0;  0;
    0;  0;  0;  0;  0;  0;  0;  0;  0;  0;  0;  0;  0;  0;  0;  0;
    0;  0;  0;  0;  0;  0;  0;  0;  0;  0;  0;  0;  0;  0;  0;  0;
    0;  0;  0;  0;  0;  0;  0;  0;  0;  0;  0;  0;  0;  0;  0;  0;
    0;  0;  0;  0;  0;  0;  0;  0;  0;  0;  0;  0;  0;  0;  0;  0;
    0;  0;  0;  0;  0;  0;  0;  0;  0;  0;  0;  0;  0;  0;  0;  0;
    2;  2;  2;  2;  2;  2;  2;  2;  2;  2;  2;  2;  2;  2;  2;  2;
    2;  2;  2;  2;  2;  2;  2;  2;  2;  2;  2;  2;  2;  2;  2;  2].
(* Lut2: 0 | 1 x15 | 2 x48 | 3 x64 | 4 x64 | 5 x48 | 6 x15 | 7 *)
Definition rfc_lut2 : list N :=
  [0] ++ repeat 1 15 ++ repeat 2 48 ++ repeat 3 64 ++ repeat 4 64 ++ repeat 5 48 ++ repeat 6 15 ++ [7].

Definition lut0_t : pt N := pt_of_list rfc_lut0.
Definition lut1_t : pt N := pt_of_list rfc_lut1.
Definition lut2_t : pt N := pt_of_list rfc_lut2.

(* context ID for a literal from the last two bytes p1 (last), p2 (second-to-last) *)
Definition context_id (mode p1 p2 : N) : N :=
  if mode =? 0 then N.land p1 63
  else if mode =? 1 then N.shiftr p1 2
  else if mode =? 2 then N.lor (ngetd lut0_t p1) (ngetd lut1_t p2)
  else N.lor (N.shiftl (ngetd lut2_t p1) 3) (ngetd lut2_t p2).

(* distance context from the copy length *)
Definition dist_context (clen : N) : N := if clen <? 2 then 0 else if 4 <? clen then 3 else clen - 2.

(* 7.3 context maps *)
(* inverse move-to-front transform over the alphabet 0..255 *)
Fixpoint mtf_take (l : list N) (k : nat) : N * list N :=
  match l, k with
  | [], _ => (0, [])
  | x :: t, O => (x, t)
  | x :: t, S k' => let '(v, r) := mtf_take t k' in (v, x :: r)
  end.
Fixpoint seqN (lo : N) (len : nat) : list N := match len with O => [] | S k => lo :: seqN (lo + 1) k end.
Fixpoint imtf_go (mtf : list N) (vs : list N) : list N :=
  match vs with
  | [] => []
  | v :: t => let '(x, r) := mtf_take mtf (N.to_nat v) in x :: imtf_go (x :: r) t
  end.
Definition inverse_mtf (vs : list N) : list N := imtf_go (seqN 0 256) vs.

(* symbols of a context map: 0 -> value 0; 1..RLEMAX -> 2^sym + extra zeros; else sym - RLEMAX *)
Fixpoint read_cmap_syms (fuel : nat) (t : htree) (rlemax size : N) (acc : list N) (n : N) : R (list N) :=
  fun bs =>
  if size <=? n then Ok (rev' acc, bs)
  else match fuel with
       | O => Err 19
       | S f =>
         match hdecode t bs with
         | Err e => Err e
         | Ok (sym, r) =>
           if sym =? 0 then read_cmap_syms f t rlemax size (0 :: acc) (n + 1) r
           else if sym <=? rlemax then
             match read_bits (N.to_nat sym) r with
             | None => Err 1
             | Some (x, r') =>
               let run := 2 ^ sym + x in
               if size <? n + run then Err 8
               else read_cmap_syms f t rlemax size (repeat 0 (N.to_nat run) ++ acc) (n + run) r'
             end
           else read_cmap_syms f t rlemax size ((sym - rlemax) :: acc) (n + 1) r
         end
       end.

(* returns (NTREES, map) *)
Definition read_context_map (size : N) (i : info) : R (N * pt N * info) :=
  do ntrees <- read_1_256;
  if ntrees <? 2 then ret (1, PE, i)
  else
    do rl <- rbits 1;
    do rlemax <- (if rl =? 0 then ret 0 else do x <- rbits 4; ret (x + 1));
    do (t, i1) <- read_code (ntrees + rlemax) (ntrees + rlemax) i;
    do vs <- read_cmap_syms (S (N.to_nat size)) t rlemax size [] 0;
    do im <- rbits 1;
    let vs' := if im =? 0 then vs else inverse_mtf vs in
    let i2 := if im =? 0 then i1 else bump i1 K_imtf in
    let i3 := if rlemax =? 0 then i2 else bump i2 K_rle in
    ret (ntrees, pt_of_list vs', i3).

Fixpoint read_codes (n : nat) (amax limit : N) (k : N) (acc : pt htree) (i : info) : R (pt htree * info) :=
  match n with
  | O => ret (acc, i)
  | S n' => do (t, i1) <- read_code amax limit i; read_codes n' amax limit (k + 1) (nset acc k t) i1
  end.

Fixpoint read_modes (n : nat) (k : N) (acc : pt N) (i : info) : R (pt N * info) :=
  match n with
  | O => ret (acc, i)
  | S n' => do m <- rbits 2; read_modes n' (k + 1) (nset acc k m) (bump i (K_mode0 + m))
  end.

(* ------------------------------------------------------------------ 4. distances *)
Definition max_allowed_distance : N := 2147483644.    (* 0x7FFFFFFC *)
Definition dist_alphabet (large : bool) (np nd : N) : N :=
  if large then 16 + nd + N.shiftl 62 (np + 1) else 16 + nd + N.shiftl 48 np.
(* large-window streams: only the symbols whose smallest distance is representable *)
Definition dist_limit (large : bool) (np nd : N) : N :=
  if large then
    N.of_nat (length (filter (fun s => rfc_distance np nd s 0 <=? max_allowed_distance)
                             (seqN 0 (N.to_nat (dist_alphabet true np nd)))))
  else dist_alphabet false np nd.

(* the ring of the four last distances: (last, second-to-last, third, fourth) *)
Definition ring := (N * N * N * N)%type.
Definition ring_init : ring := (4, 11, 15, 16).
Definition ring_push (r : ring) (d : N) : ring := let '(a, b, c, _) := r in (d, a, b, c).
(* short codes 0..15; None = distance would be <= 0 *)
Definition sub_pos (a k : N) : option N := if k <? a then Some (a - k) else None.
Definition short_distance (r : ring) (code : N) : option N :=
  let '(d1, d2, d3, d4) := r in
  match code with
  | 0 => Some d1 | 1 => Some d2 | 2 => Some d3 | 3 => Some d4
  | 4 => sub_pos d1 1 | 5 => Some (d1 + 1) | 6 => sub_pos d1 2 | 7 => Some (d1 + 2)
  | 8 => sub_pos d1 3 | 9 => Some (d1 + 3)
  | 10 => sub_pos d2 1 | 11 => Some (d2 + 1) | 12 => sub_pos d2 2 | 13 => Some (d2 + 2)
  | 14 => sub_pos d2 3 | _ => Some (d2 + 3)
  end.

(* ------------------------------------------------------------------ 8. static dictionary *)
Definition rfc_ndbits : list N := [0;0;0;0;10;10;11;11;10;10;10;10;10;9;9;8;7;7;8;7;7;6;6;5;5].

(* transform types: 0 identity, 1..9 omit last 1..9, 10 uppercase first, 11 uppercase all,
   12..20 omit first 1..9 *)
Definition xor_at (w : list N) (k : nat) (m : N) : list N :=
  match nth_error w k with
  | Some v => firstn k w ++ [N.lxor v m] ++ skipn (S k) w
  | None => w
  end.
(* uppercases the first (UTF-8 aware) character; returns the new word and the step *)
Definition upper1 (w : list N) : list N * nat :=
  match w with
  | [] => ([], 1%nat)
  | c :: _ =>
    if c <? 192 then ((if (97 <=? c) && (c <=? 122) then xor_at w 0 32 else w), 1%nat)
    else if c <? 224 then (xor_at w 1 32, 2%nat)
    else (xor_at w 2 5, 3%nat)
  end.
Fixpoint upper_all (fuel : nat) (w : list N) : list N :=
  match fuel with
  | O => w
  | S f => match w with
           | [] => []
           | _ => let '(w1, st) := upper1 w in firstn st w1 ++ upper_all f (skipn st w1)
           end
  end.
Definition apply_transform (ty : N) (w : list N) : list N :=
  if ty =? 0 then w
  else if ty <=? 9 then firstn (length w - N.to_nat ty) w
  else if ty =? 10 then fst (upper1 w)
  else if ty =? 11 then upper_all (length w) w
  else skipn (N.to_nat (ty - 11)) w.

Section Decoder.
  (* the static dictionary (appendix A): word [idx] among the words of length [len] *)
  Variable dict_word : N -> N -> list N.
  (* the transform list (appendix B): id -> (prefix, type, suffix) for id < 121 *)
  Variable transform_tbl : N -> option (list N * N * list N).

  Definition dictionary_ref (clen word_id : N) : res (list N) :=
    if (clen <? 4) || (24 <? clen) then Err 14 else
    let nb := rfc_nth rfc_ndbits clen in
    if nb =? 0 then Err 14 else
    let idx := word_id mod 2 ^ nb in
    let tid := word_id / 2 ^ nb in
    match transform_tbl tid with
    | None => Err 15
    | Some (pre, ty, suf) => Ok (pre ++ apply_transform ty (dict_word clen idx) ++ suf)
    end.

  (* ---------------------------------------------------------------- output *)
  Record ostate := { o_hist : pt N; o_rev : list N; o_pos : N; o_p1 : N; o_p2 : N }.
  Definition emit (o : ostate) (b : N) : ostate :=
    {| o_hist := nset (o_hist o) (o_pos o) b; o_rev := b :: o_rev o; o_pos := o_pos o + 1;
       o_p1 := b; o_p2 := o_p1 o |}.
  Definition emit_list (o : ostate) (l : list N) : ostate := fold_left emit l o.
  (* the custom dictionary is history, not output *)
  Definition prime (o : ostate) (b : N) : ostate :=
    {| o_hist := nset (o_hist o) (o_pos o) b; o_rev := o_rev o; o_pos := o_pos o + 1; o_p1 := b; o_p2 := o_p1 o |}.
  Definition o_init (prefix : list N) : ostate :=
    fold_left prime prefix {| o_hist := PE; o_rev := []; o_pos := 0; o_p1 := 0; o_p2 := 0 |}.
  Definition copy_byte (dist : N) (o : ostate) : step_res ostate N :=
    Continue (emit o (ngetd (o_hist o) (o_pos o - dist))).

  (* ---------------------------------------------------------------- one compressed meta-block *)
  Record mctx := {
    m_window : N;              (* 2^WBITS - 16 *)
    m_np : N; m_nd : N;
    m_modes : pt N;            (* context mode per literal block type *)
    m_cmapl : pt N; m_cmapd : pt N;
    m_treesl : pt htree; m_treesi : pt htree; m_treesd : pt htree }.

  Record cstate := {
    c_bl : bstate; c_bi : bstate; c_bd : bstate;
    c_out : ostate; c_ring : ring; c_left : N; c_info : info; c_bits : bits }.
  Definition upd_l (c : cstate) bl o i bs :=
    {| c_bl := bl; c_bi := c_bi c; c_bd := c_bd c; c_out := o; c_ring := c_ring c; c_left := c_left c; c_info := i; c_bits := bs |}.

  Definition tree_at (t : pt htree) (k : N) : htree := match nget t k with Some h => h | None => HEmpty end.

  (* one literal *)
  Definition lit_step (m : mctx) (c : cstate) : step_res cstate N :=
    let sw := if b_left (c_bl c) =? 0
              then match block_switch (c_bl c) (c_bits c) with
                   | Ok (b, r) => Ok (b, r, bump (c_info c) K_switches)
                   | Err e => Err e
                   end
              else Ok (c_bl c, c_bits c, c_info c) in
    match sw with
    | Err e => Stop e
    | Ok (bl, bs, i) =>
      let o := c_out c in
      let cid := context_id (ngetd (m_modes m) (b_cur bl)) (o_p1 o) (o_p2 o) in
      let tix := ngetd (m_cmapl m) (64 * b_cur bl + cid) in
      match hdecode (tree_at (m_treesl m) tix) bs with
      | Err e => Stop e
      | Ok (lit, r) => Continue (upd_l c (b_dec bl) (emit o lit) i r)
      end
    end.

  Inductive cmd_end := MetaDone (c : cstate) | CmdErr (e : N).

  Definition with_switch (b : bstate) (i : info) (bs : bits) : res (bstate * info * bits) :=
    if b_left b =? 0
    then match block_switch b bs with Ok (b', r) => Ok (b', bump i K_switches, r) | Err e => Err e end
    else Ok (b, i, bs).

  (* one command: Continue = more commands follow in this meta-block *)
  Definition cmd_step (m : mctx) (c : cstate) : step_res cstate cmd_end :=
    match with_switch (c_bi c) (c_info c) (c_bits c) with
    | Err e => Stop (CmdErr e)
    | Ok (bi0, i0, bs0) =>
      let bi := b_dec bi0 in
      match hdecode (tree_at (m_treesi m) (b_cur bi)) bs0 with
      | Err e => Stop (CmdErr e)
      | Ok (sym, bs1) =>
        let '(icode, ccode, implicit) := rfc_cell sym in
        match read_bits (N.to_nat (rfc_ins_extra icode)) bs1 with
        | None => Stop (CmdErr 1)
        | Some (ix, bs2) =>
          match read_bits (N.to_nat (rfc_copy_extra ccode)) bs2 with
          | None => Stop (CmdErr 1)
          | Some (cx, bs3) =>
            let ilen := rfc_ins_base icode + ix in
            let clen := rfc_copy_base ccode + cx in
            if c_left c <? ilen then Stop (CmdErr 10) else
            let c1 := {| c_bl := c_bl c; c_bi := bi; c_bd := c_bd c; c_out := c_out c; c_ring := c_ring c;
                         c_left := c_left c - ilen; c_info := bump_by (bump i0 K_commands) K_literals ilen; c_bits := bs3 |} in
            match loop_n ilen (lit_step m) c1 with
            | Stop e => Stop (CmdErr e)
            | Continue c2 =>
              if c_left c2 =? 0 then Stop (MetaDone c2) else
              (* distance *)
              let dres : res (N * bool * bstate * info * bits) :=     (* distance, push?, ... *)
                if implicit then
                  let '(d1, _, _, _) := c_ring c2 in Ok (d1, false, c_bd c2, bump (c_info c2) K_implicit, c_bits c2)
                else
                  match with_switch (c_bd c2) (c_info c2) (c_bits c2) with
                  | Err e => Err e
                  | Ok (bd0, i1, r0) =>
                    let bd := b_dec bd0 in
                    let tix := ngetd (m_cmapd m) (4 * b_cur bd + dist_context clen) in
                    match hdecode (tree_at (m_treesd m) tix) r0 with
                    | Err e => Err e
                    | Ok (dsym, r1) =>
                      if dsym <? 16 then
                        match short_distance (c_ring c2) dsym with
                        | None => Err 12
                        | Some d => Ok (d, negb (dsym =? 0), bd, (if dsym =? 0 then i1 else bump i1 K_short), r1)
                        end
                      else if dsym <? 16 + m_nd m then Ok (dsym - 15, true, bd, i1, r1)
                      else
                        match read_bits (N.to_nat (rfc_ndistbits (m_np m) (m_nd m) dsym)) r1 with
                        | None => Err 1
                        | Some (dx, r2) => Ok (rfc_distance (m_np m) (m_nd m) dsym dx, true, bd, i1, r2)
                        end
                    end
                  end in
              match dres with
              | Err e => Stop (CmdErr e)
              | Ok (dist, push, bd, i2, bs4) =>
                let o := c_out c2 in
                let maxd := N.min (m_window m) (o_pos o) in
                if dist <=? maxd then
                  if c_left c2 <? clen then Stop (CmdErr 11) else
                  match loop_n clen (copy_byte dist) o with
                  | Stop e => Stop (CmdErr e)
                  | Continue o' =>
                    let i3 := setmax (if dist <? clen then bump i2 K_overlap else i2) K_maxdist dist in
                    let i4 := if dist =? m_window m then bump i3 K_window_reached else i3 in
                    let i4 := if push then bump i4 K_ring_pushes else i4 in
                    let c3 := {| c_bl := c_bl c2; c_bi := c_bi c2; c_bd := bd; c_out := o';
                                 c_ring := if push then ring_push (c_ring c2) dist else c_ring c2;
                                 c_left := c_left c2 - clen; c_info := i4; c_bits := bs4 |} in
                    if c_left c3 =? 0 then Stop (MetaDone c3) else Continue c3
                  end
                else if max_allowed_distance <? dist then Stop (CmdErr 13)
                else
                  match dictionary_ref clen (dist - maxd - 1) with
                  | Err e => Stop (CmdErr e)
                  | Ok w =>
                    let wl := N.of_nat (length w) in
                    if c_left c2 <? wl then Stop (CmdErr 11) else
                    let c3 := {| c_bl := c_bl c2; c_bi := c_bi c2; c_bd := bd; c_out := emit_list o w;
                                 c_ring := c_ring c2; c_left := c_left c2 - wl; c_info := bump i2 K_dict_refs; c_bits := bs4 |} in
                    if c_left c3 =? 0 then Stop (MetaDone c3) else Continue c3
                  end
              end
            end
          end
        end
      end
    end.

  (* header of a compressed meta-block after MLEN / ISUNCOMPRESSED, then the commands *)
  Definition read_compressed (large : bool) (window budget mlen : N) (o : ostate) (rg : ring) (i : info)
    : R (ostate * ring * info) :=
    do (bl, i1) <- read_block_header i;
    do (bi, i2) <- read_block_header i1;
    do (bd, i3) <- read_block_header i2;
    do np <- rbits 2;
    do ndx <- rbits 4;
    let nd := N.shiftl ndx np in
    do (modes, i4) <- read_modes (N.to_nat (b_n bl)) 0 PE i3;
    do (ntl, cmapl, i5) <- read_context_map (64 * b_n bl) i4;
    do (ntd, cmapd, i6) <- read_context_map (4 * b_n bd) i5;
    do (tl, i7) <- read_codes (N.to_nat ntl) 256 256 0 PE i6;
    do (ti, i8) <- read_codes (N.to_nat (b_n bi)) 704 704 0 PE i7;
    do (td, i9) <- read_codes (N.to_nat ntd) (dist_alphabet large np nd) (dist_limit large np nd) 0 PE i8;
    let i10 := setmax (setmax (setmax (setmax (setmax i9 K_nbl_l (b_n bl)) K_nbl_i (b_n bi)) K_nbl_d (b_n bd)) K_ntrees_l ntl) K_ntrees_d ntd in
    let i11 := if np =? 0 then i10 else bump i10 K_npostfix in
    let i12 := if nd =? 0 then i11 else bump i11 K_ndirect in
    let m := {| m_window := window; m_np := np; m_nd := nd; m_modes := modes; m_cmapl := cmapl; m_cmapd := cmapd;
                m_treesl := tl; m_treesi := ti; m_treesd := td |} in
    fun bs =>
    let c0 := {| c_bl := bl; c_bi := bi; c_bd := bd; c_out := o; c_ring := rg; c_left := mlen; c_info := i12; c_bits := bs |} in
    match loop_n (mlen + budget) (cmd_step m) c0 with
    | Stop (MetaDone c) => Ok ((c_out c, c_ring c, c_info c), c_bits c)
    | Stop (CmdErr e) => Err e
    | Continue _ => Err 19
    end.

  (* ---------------------------------------------------------------- 9.2 / 10: meta-blocks *)
  Record dstate := { d_out : ostate; d_ring : ring; d_info : info; d_bits : bits }.

  Definition read_mlen : R (option N) :=      (* None = MNIBBLES is 0 *)
    do code <- rbits 2;
    if code =? 3 then ret None else
    let mn := 4 + code in
    do v <- rbitsN (4 * mn);
    if (4 <? mn) && (v / 2 ^ (4 * (mn - 1)) =? 0) then fail 4 else ret (Some (v + 1)).

  Definition read_metadata_body : R N :=
    do rsv <- rbits 1;
    if negb (rsv =? 0) then fail 3 else
    do sb <- rbits 2;
    do v <- rbitsN (8 * sb);
    if (1 <? sb) && (v / 2 ^ (8 * (sb - 1)) =? 0) then fail 5 else
    let skip := if sb =? 0 then 0 else v + 1 in
    do _ <- align;
    do _ <- rbytes skip;
    ret skip.

  (* 9.2: the fields in front of every meta-block *)
  Inductive mb_kind :=
  | MbEmptyLast                       (* ISLAST = 1, ISLASTEMPTY = 1 *)
  | MbMetadata                        (* MNIBBLES = 0 *)
  | MbData (mlen : N) (uncompressed : bool).
  Definition read_mb_header : R (bool * mb_kind) :=     (* (ISLAST, kind) *)
    do islast <- rbits 1;
    do empty <- (if islast =? 0 then ret 0 else rbits 1);
    if empty =? 1 then ret (true, MbEmptyLast) else
    do ml <- read_mlen;
    match ml with
    | None => ret (negb (islast =? 0), MbMetadata)
    | Some mlen =>
      do unc <- (if islast =? 0 then rbits 1 else ret 0);
      ret (negb (islast =? 0), MbData mlen (unc =? 1))
    end.

  Inductive mb_end := StreamDone (s : dstate) | MbErr (e : N).

  Definition meta_block (large : bool) (window budget : N) (s : dstate) : step_res dstate mb_end :=
    let next (last : bool) (s' : dstate) : step_res dstate mb_end :=
      if last then Stop (StreamDone s') else Continue s' in
    match read_mb_header (d_bits s) with
    | Err e => Stop (MbErr e)
    | Ok ((islast, MbEmptyLast), r1) =>
      Stop (StreamDone {| d_out := d_out s; d_ring := d_ring s; d_info := bump (d_info s) K_empty_last; d_bits := r1 |})
    | Ok ((islast, MbMetadata), r2) =>
      match read_metadata_body r2 with
      | Err e => Stop (MbErr e)
      | Ok (_, r3) =>
        let i1 := bump (d_info s) K_metadata in
        let i2 := if islast then bump i1 K_last_metadata else i1 in
        next islast {| d_out := d_out s; d_ring := d_ring s; d_info := i2; d_bits := r3 |}
      end
    | Ok ((islast, MbData mlen true), r3) =>
      match (do _ <- align; rbytes mlen) r3 with
      | Err e => Stop (MbErr e)
      | Ok (data, r4) =>
        Continue {| d_out := emit_list (d_out s) data; d_ring := d_ring s;
                    d_info := bump (d_info s) K_uncompressed; d_bits := r4 |}
      end
    | Ok ((islast, MbData mlen false), r3) =>
      match read_compressed large window budget mlen (d_out s) (d_ring s) (bump (d_info s) K_compressed) r3 with
      | Err e => Stop (MbErr e)
      | Ok ((o, rg, i), r4) =>
        next islast {| d_out := o; d_ring := rg;
                       d_info := (if islast then bump i K_last_nonempty else i); d_bits := r4 |}
      end
    end.

  (* the whole stream as bits.  [allow_large]: accept the large-window form of WBITS;
     [budget]: an upper bound on the number of meta-blocks (and of zero-length commands). *)
  Definition decode_bits (allow_large : bool) (prefix : list N) (bs : bits) (budget : N) : res (list N * info) :=
    match read_wbits allow_large bs with
    | Err e => Err e
    | Ok ((wbits, large), r) =>
      let i0 := nset (if large then bump PE K_large else PE) K_wbits wbits in
      let s0 := {| d_out := o_init prefix; d_ring := ring_init; d_info := i0; d_bits := r |} in
      match loop_n budget (meta_block large (2 ^ wbits - 16) budget) s0 with
      | Continue _ => Err 19
      | Stop (MbErr e) => Err e
      | Stop (StreamDone s) =>
        match align (d_bits s) with
        | Err e => Err e
        | Ok (_, []) => Ok (rev' (o_rev (d_out s)), d_info s)
        | Ok (_, _ :: _) => Err 16
        end
      end
    end.

  (* the decoder's state after a PREFIX of a stream that ends at a meta-block boundary (what an encoder has
     emitted when a flush has completed): the ring of last distances, the number of output bytes and the last
     two bytes -- the state the encoder must have tracked *)
  Definition prefix_step (large : bool) (window budget : N) (s : dstate) : step_res dstate mb_end :=
    match d_bits s with
    | [] => Stop (StreamDone s)
    | _ => meta_block large window budget s
    end.
  Definition decode_prefix (allow_large : bool) (prefix stream : list N) : res (ring * (N * N * N) * info) :=
    let bs := flat_map (fun b => N_to_bits 8 b) stream in
    let budget := 8 * N.of_nat (length stream) + 8 in
    match read_wbits allow_large bs with
    | Err e => Err e
    | Ok ((wbits, large), r) =>
      let s0 := {| d_out := o_init prefix; d_ring := ring_init; d_info := PE; d_bits := r |} in
      match loop_n budget (prefix_step large (2 ^ wbits - 16) budget) s0 with
      | Continue _ => Err 19
      | Stop (MbErr e) => Err e
      | Stop (StreamDone s) => Ok (d_ring s, (o_pos (d_out s), o_p1 (d_out s), o_p2 (d_out s)), d_info s)
      end
    end.

  (* a stream is a list of bytes; a meta-block takes at least one bit *)
  Definition decode (allow_large : bool) (prefix stream : list N) : res (list N * info) :=
    decode_bits allow_large prefix (flat_map (fun b => N_to_bits 8 b) stream) (8 * N.of_nat (length stream) + 8).
End Decoder.
