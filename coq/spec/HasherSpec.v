(* C19 - what the property says, independent of how the batched paths are written:
   the table after a bulk / range call equals the table after storing the same positions one
   at a time.  Also the domain the property quantifies over: a data buffer seen either without
   a mask or through a ring-buffer mask after the ring buffer has wrapped. *)
From Coq Require Import NArith List.
From V Require Import lib.Finite model.Hashers.
Import ListNotations.
Open Scope N_scope.

(* the reference: `for i in s..e { Store(data, mask, i) }` *)
Definition one_at_a_time {S : Type} (store : S -> N -> res S) (s e : N) (st : S) : res S :=
  for_each store (range s e) (Ok st).

(* a partition of [from, last cut) into consecutive pieces, each handed to the range entry point *)
Fixpoint pieces {S : Type} (call : S -> N -> N -> res S) (cuts : list N) (from : N) (r : res S) : res S :=
  match cuts with
  | [] => r
  | c :: cs => pieces call cs c (bind r (fun st => call st from c))
  end.
Fixpoint ascending (from : N) (cuts : list N) : Prop :=
  match cuts with [] => True | c :: cs => from <= c /\ ascending c cs end.
Definition last_cut (from : N) (cuts : list N) : N := last cuts from.

(* A ring buffer of 2^k bytes followed by a tail that repeats its first T bytes (what
   RingBufferWriteTail maintains), T <= 2^k. *)
Definition ring_ok (d : buf) (k T : N) : Prop :=
  T <= 2 ^ k /\ 2 ^ k + T <= blen d /\ forall j, j < T -> byte d (2 ^ k + j) = byte d j.

(* How positions below `lim` (one past the last byte any update of the range reads) are seen:
   without a mask (mask = usize::MAX, all of them inside the buffer), or through the mask
   2^k - 1 of a ring buffer with T bytes of tail; positions may be far beyond the mask. *)
Definition view_ok (d : buf) (mask T lim : N) : Prop :=
  lim < 2 ^ 63 /\
  ((mask = USIZE_MAX /\ lim <= blen d) \/ (exists k, mask = 2 ^ k - 1 /\ ring_ok d k T)).
