(* Specification side of C15 / C08: readers for the parts of a brotli stream that do not
   involve entropy codes, written from RFC 7932 section 9 (and, for the 14-bit form of WBITS,
   from the "large window" extension implemented by the reference decoder: the bit pattern
   0010001 that RFC 7932 reserves is followed by one zero bit and six bits of window size,
   10..30).  Nothing here looks at the encoder.

   Bits are booleans, least significant bit of each byte first (RFC 7932 section 1.5.1). *)
From Coq Require Import NArith ZArith List Bool.
Import ListNotations.
Open Scope N_scope.

Definition bits := list bool.

Definition bit_val (b : bool) : N := if b then 1 else 0.

(* read n bits as an unsigned number, least significant first *)
Fixpoint read_bits (n : nat) (l : bits) : option (N * bits) :=
  match n with
  | O => Some (0, l)
  | S n' =>
    match l with
    | [] => None
    | b :: t =>
      match read_bits n' t with
      | Some (v, r) => Some (bit_val b + 2 * v, r)
      | None => None
      end
    end
  end.

Fixpoint read_bytes (k : nat) (l : bits) : option (list N * bits) :=
  match k with
  | O => Some ([], l)
  | S k' =>
    match read_bits 8 l with
    | None => None
    | Some (b, r) =>
      match read_bytes k' r with
      | Some (bs, r') => Some (b :: bs, r')
      | None => None
      end
    end
  end.

(* bytes of a stream -> bits *)
Fixpoint byte_bits (n : nat) (v : N) : bits :=
  match n with O => [] | S n' => N.odd v :: byte_bits n' (N.div2 v) end.
Definition bytes_to_bits (bs : list N) : bits := flat_map (byte_bits 8) bs.

(* number of padding bits up to the next byte boundary when `pos` bits have been consumed *)
Definition pad_to_byte (pos : N) : N := (8 - pos mod 8) mod 8.

(* ---- RFC 7932 section 9.1: WBITS.  Result: (window bits, large-window form?, bits consumed, rest) ---- *)
Definition rfc_read_wbits (l : bits) : option (N * bool * N * bits) :=
  match read_bits 1 l with
  | None => None
  | Some (b0, l1) =>
    if b0 =? 0 then Some (16, false, 1, l1) else
    match read_bits 3 l1 with
    | None => None
    | Some (n, l2) =>
      if negb (n =? 0) then Some (17 + n, false, 4, l2) else
      match read_bits 3 l2 with
      | None => None
      | Some (m, l3) =>
        if m =? 0 then Some (17, false, 7, l3)
        else if m =? 1 then
          (* reserved by RFC 7932; large-window extension: one zero bit, then 6 bits of WBITS *)
          match read_bits 1 l3 with
          | None => None
          | Some (z, l4) =>
            if negb (z =? 0) then None else
            match read_bits 6 l4 with
            | None => None
            | Some (w, l5) => if (10 <=? w) && (w <=? 30) then Some (w, true, 14, l5) else None
            end
          end
        else Some (8 + m, false, 7, l3)
      end
    end
  end.

(* a decoder that implements RFC 7932 only *)
Definition rfc_read_wbits_strict (l : bits) : option (N * N * bits) :=
  match rfc_read_wbits l with
  | Some (w, false, n, r) => Some (w, n, r)
  | _ => None
  end.

(* skip to the byte boundary; the skipped bits must be zero (RFC 9.2: "ignored bits ... must be zero") *)
Definition read_align (pos : N) (l : bits) : option (N * bits) :=
  match read_bits (N.to_nat (pad_to_byte pos)) l with
  | Some (v, r) => if v =? 0 then Some (pos + pad_to_byte pos, r) else None
  | None => None
  end.

(* ---- RFC 7932 section 9.2: a metadata meta-block (ISLAST = 0, MNIBBLES = 0).
   `pos` = bits consumed before the block (for the byte alignment).
   Result: (the MSKIPLEN skipped bytes, position after them, rest). ---- *)
Definition rfc_read_metadata_block (pos : N) (l : bits) : option (list N * N * bits) :=
  match read_bits 1 l with
  | None => None
  | Some (islast, l1) =>
    if negb (islast =? 0) then None else
    match read_bits 2 l1 with
    | None => None
    | Some (mnib, l2) =>
      if negb (mnib =? 3) then None else
      match read_bits 1 l2 with
      | None => None
      | Some (reserved, l3) =>
        if negb (reserved =? 0) then None else
        match read_bits 2 l3 with
        | None => None
        | Some (mskipbytes, l4) =>
          match read_bits (N.to_nat (8 * mskipbytes)) l4 with
          | None => None
          | Some (lenm1, l5) =>
            (* "if MSKIPBYTES is greater than 1, and the last byte is all zeros, then the stream
               should be rejected as invalid" *)
            if (1 <? mskipbytes) && (lenm1 / 2 ^ (8 * (mskipbytes - 1)) =? 0) then None else
            let mskiplen := if mskipbytes =? 0 then 0 else lenm1 + 1 in
            match read_align (pos + 6 + 8 * mskipbytes) l5 with
            | None => None
            | Some (pos1, l6) =>
              match read_bytes (N.to_nat mskiplen) l6 with
              | None => None
              | Some (payload, l7) => Some (payload, pos1 + 8 * mskiplen, l7)
              end
            end
          end
        end
      end
    end
  end.

(* ---- base-128 numbers (little-endian groups of 7 bits, high bit = "more follows") ---- *)
Fixpoint base128_decode (l : list N) : option N :=
  match l with
  | [] => None
  | b :: t =>
    if b <? 128 then (match t with [] => Some b | _ :: _ => None end)
    else match base128_decode t with
         | Some v => Some ((b - 128) + 128 * v)
         | None => None
         end
  end.

(* ---- what the property text demands of the first bytes of a stream ---- *)
Definition clampZ (lo hi x : Z) : Z := Z.max lo (Z.min hi x).

(* requested window after clamping to the supported range; at quality 0 and 1 the larger of
   that and 18 *)
Definition spec_window (q lgwin : Z) (large : bool) : Z :=
  let w := clampZ 10 (if large then 30 else 24) lgwin in
  if (clampZ 0 11 q <=? 1)%Z then Z.max w 18 else w.

(* magic bytes for the concatenation mode: 0x81 catable (which excludes the static dictionary),
   0x82 appendable (a catable request implies appendable), 0x80 neither *)
Definition spec_mode_byte (cat app dict : bool) : N :=
  if cat && negb dict then 129 else if app || cat then 130 else 128.
Definition spec_format_version : N := 1.

(* size hint carried by the magic block: the requested one; if none was requested (0), the
   number of input bytes known to the encoder when it writes the header, capped at 2^30 *)
Definition spec_size_hint (hint known_input : N) : N :=
  if hint =? 0 then N.min known_input (2 ^ 30) else hint.

Definition list_eqb (a b : list N) : bool :=
  (length a =? length b)%nat && forallb (fun p => fst p =? snd p) (combine a b).

(* The executable specification of C15 applied to the bits of a stream:
   0 = conforms; otherwise the number of the first clause that fails. *)
Definition spec_check_header (q lgwin : Z) (large cat app dict magic : bool) (hint known_input : N)
           (stream : bits) : N :=
  match rfc_read_wbits stream with
  | None => 1                                            (* no valid WBITS *)
  | Some (w, lf, nb, rest) =>
    if negb (Z.of_N w =? spec_window q lgwin large)%Z then 2      (* declared window <> requested (clamped) *)
    else if negb (Bool.eqb lf large) then 3                       (* large form iff large window requested *)
    else if negb magic then 0
    else
      match rfc_read_metadata_block nb rest with
      | None => 4                                        (* magic requested: no metadata block first *)
      | Some (payload, pos', _) =>
        if negb (pos' mod 8 =? 0) then 5
        else if negb (list_eqb (firstn 4 payload) [225; 151; spec_mode_byte cat app dict; spec_format_version]) then 6
        else match base128_decode (skipn 4 payload) with
             | None => 7
             | Some h => if negb (h =? spec_size_hint hint known_input) then 8
                         else if (10 <? length (skipn 4 payload))%nat then 9 else 0
             end
      end
  end.

(* ======================================================================================
   C08: the remaining entropy-free meta-block forms of RFC 7932 section 9.2, and a reader for
   streams that consist of such blocks only ("stored" streams).
   ====================================================================================== *)

(* ---- an uncompressed meta-block: ISLAST = 0, MNIBBLES in 4..6, MLEN - 1, ISUNCOMPRESSED = 1,
   padding to the byte boundary (zero bits), MLEN literal bytes.
   Result: (the bytes, position after them, rest). ---- *)
Definition rfc_read_uncompressed_block (pos : N) (l : bits) : option (list N * N * bits) :=
  match read_bits 1 l with
  | None => None
  | Some (islast, l1) =>
    if negb (islast =? 0) then None else
    match read_bits 2 l1 with
    | None => None
    | Some (code, l2) =>
      if code =? 3 then None else        (* MNIBBLES = 0: a metadata block, not this form *)
      let mnibbles := 4 + code in
      match read_bits (N.to_nat (4 * mnibbles)) l2 with
      | None => None
      | Some (mlenm1, l3) =>
        (* "if MNIBBLES is greater than 4, and the last nibble is all zeros, then the stream
           should be rejected as invalid" *)
        if (4 <? mnibbles) && (mlenm1 / 2 ^ (4 * (mnibbles - 1)) =? 0) then None else
        match read_bits 1 l3 with
        | None => None
        | Some (isuncompressed, l4) =>
          if negb (isuncompressed =? 1) then None else
          match read_align (pos + 3 + 4 * mnibbles + 1) l4 with
          | None => None
          | Some (pos1, l5) =>
            match read_bytes (N.to_nat (mlenm1 + 1)) l5 with
            | None => None
            | Some (data, l6) => Some (data, pos1 + 8 * (mlenm1 + 1), l6)
            end
          end
        end
      end
    end
  end.

(* ---- the empty last meta-block: ISLAST = 1, ISLASTEMPTY = 1 ---- *)
Definition rfc_read_last_empty (pos : N) (l : bits) : option (N * bits) :=
  match read_bits 1 l with
  | Some (islast, l1) =>
    if negb (islast =? 1) then None else
    match read_bits 1 l1 with
    | Some (isempty, l2) => if isempty =? 1 then Some (pos + 2, l2) else None
    | None => None
    end
  | None => None
  end.

(* ---- a stream made of metadata, uncompressed and one final empty meta-block.
   After the last meta-block the rest of the final byte must be zero and nothing may follow.
   Result: the decoded bytes. ---- *)
Fixpoint rfc_read_stored_blocks (fuel : nat) (pos : N) (l : bits) (acc : list N) : option (list N) :=
  match fuel with
  | O => None
  | S f =>
    match rfc_read_last_empty pos l with
    | Some (pos1, l1) =>
      match read_align pos1 l1 with
      | Some (_, []) => Some acc
      | _ => None
      end
    | None =>
      match rfc_read_metadata_block pos l with
      | Some (_, pos1, l1) => rfc_read_stored_blocks f pos1 l1 acc
      | None =>
        match rfc_read_uncompressed_block pos l with
        | Some (data, pos1, l1) => rfc_read_stored_blocks f pos1 l1 (acc ++ data)
        | None => None
        end
      end
    end
  end.

Definition rfc_read_stored_stream (stream : list N) : option (list N) :=
  match rfc_read_wbits (bytes_to_bits stream) with
  | Some (_, _, nb, rest) => rfc_read_stored_blocks (S (length stream)) nb rest []
  | None => None
  end.

(* size of an uncompressed meta-block header in bits, by MLEN (1 .. 2^24) *)
Definition rfc_uncompressed_header_bits (mlen : N) : N :=
  let mnibbles := if mlen <=? 2 ^ 16 then 4 else if mlen <=? 2 ^ 20 then 5 else 6 in
  1 + 2 + 4 * mnibbles + 1.
