(* C11 - the property itself as an executable predicate over what a caller and the wrapped
   stream can OBSERVE of one adapter session (written from the property text, not from the code):
     (1) every adapter call returns (no hang, no panic);
     (2) every error / zero-length write the wrapped stream answered is reported by the adapter
         call during which it happened, and an error is reported unchanged;
     (3) short reads / short writes do not change the compressed bytes (compared with the same
         session over a wrapped stream that never answers short);
     (4) if every call succeeded the sink holds a complete stream that decodes to everything
         written (decoding is done by the harness with brotli_decompressor; here: its verdict) -
         and "everything" is the whole input: a reader / copy session may only end successfully
         after the wrapped reader itself signalled end of input (answered Ok(0)) or has nothing
         left; an adapter that stops pulling earlier delivers a valid stream of a mere prefix.
   Used by the check on the answers of the IMPLEMENTATION (search), independently of the model. *)
From Coq Require Import NArith List Bool Arith.
Import ListNotations.

(* one adapter call as the caller saw it *)
Inductive ores :=
| OOk                       (* returned Ok(..) *)
| OErrScript (code : N)     (* returned the wrapped stream's own error `code` *)
| OErrOther                 (* returned some other error (InvalidData, WriteZero, UnexpectedEof) *)
| ONoReport                 (* returned normally but has no way to report (into_inner / Drop) *)
| OPanic
| OHang.

(* a fault the wrapped stream answered, and the index of the adapter call in progress *)
Inductive fault := FErr (code : N) | FZero.

Record obs := {
  o_results : list ores;
  o_faults : list (fault * nat);
  o_all_ok : bool;
  o_input_exhausted : bool;           (* the wrapped reader answered Ok(0) or has no byte left (true for the writer) *)
  o_decodes : option bool;            (* Some b only when a complete stream is expected *)
  o_same_as_unscripted : option bool  (* Some b only when the two sessions are comparable *)
}.

Inductive verdict :=
| VOk
| VHang (call : nat)
| VPanic (call : nat)
| VSwallowed (call : nat)        (* a fault was answered but the call returned Ok *)
| VNoReport (call : nat)         (* a fault was answered during a call that cannot report *)
| VWrongError (call : nat)       (* an error was reported, but not the wrapped stream's *)
| VTruncated                      (* every call succeeded but the input was not read to its end *)
| VBytesChanged
| VBadStream.

Fixpoint first_stuck (l : list ores) (i : nat) : verdict :=
  match l with
  | [] => VOk
  | OHang :: _ => VHang i
  | OPanic :: _ => VPanic i
  | _ :: l' => first_stuck l' (S i)
  end.

Definition reported (f : fault) (r : ores) (i : nat) : verdict :=
  match f, r with
  | FErr c, OErrScript c' => if N.eqb c c' then VOk else VWrongError i
  | FErr _, OErrOther => VWrongError i
  | FZero, OErrScript _ => VOk
  | FZero, OErrOther => VOk
  | _, OOk => VSwallowed i
  | _, ONoReport => VNoReport i
  | _, OPanic => VPanic i
  | _, OHang => VHang i
  end.

Fixpoint faults_reported (fs : list (fault * nat)) (rs : list ores) : verdict :=
  match fs with
  | [] => VOk
  | (f, i) :: fs' =>
    match nth_error rs i with
    | None => VHang i
    | Some r => match reported f r i with VOk => faults_reported fs' rs | v => v end
    end
  end.

Definition spec_check (o : obs) : verdict :=
  match first_stuck (o_results o) 0 with
  | VOk =>
    match faults_reported (o_faults o) (o_results o) with
    | VOk =>
      if o_all_ok o && negb (o_input_exhausted o) then VTruncated else
      match o_same_as_unscripted o with
      | Some false => VBytesChanged
      | _ =>
        if o_all_ok o then
          match o_decodes o with Some true => VOk | _ => VBadStream end
        else VOk
      end
    | v => v
    end
  | v => v
  end.
