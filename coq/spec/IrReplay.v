(* Specification side of C14: what it means to "replay" the intermediate representation that
   the meta-block callback receives, and what the encoder's own command list denotes under the
   decoder's rules (RFC 7932 sections 4, 8, 9.3, 10).  Written without looking at
   process_command_queue; the static dictionary and the 121 transforms are Section parameters
   (instantiated in the extracted driver from brotli-decompressor's dictionary/mod.rs and
   transform.rs).  Bytes are N below 256; histories are kept newest-first (rev_append l l' = rev l ++ l',
   used instead of rev because the extracted rev is quadratic). *)
From Coq Require Import NArith ZArith List Bool.
From V Require Import model.Arith.
Import ListNotations.
Open Scope N_scope.

(* ---- the IR (src/enc/interface.rs Command<SliceOffset>, without PredictionMode which the
        command queue never contains) ---- *)
Inductive ir_cmd :=
| IrCopy (distance num_bytes : N)
| IrDict (word_size transform final_size empty word_id : N)
| IrLiteral (offset len : N) (high_entropy : bool)        (* slice of the meta-block input *)
| IrBlockSwitchCommand (t : N)
| IrBlockSwitchLiteral (t stride : N)
| IrBlockSwitchDistance (t : N).

Inductive ir_err :=
| EDistanceZero | EDistanceBeyondProduced | EOverrun | ENoSuchWord | EFinalSize
| ELiteralOffset | ELiteralRange
| ECmdInsertOverrun | ECmdDistance | ECmdCopyOverrun | ECmdMismatch | ECmdTrailing.

Inductive res (A : Type) := Ok (a : A) | Err (e : ir_err).
Arguments Ok {A} a.
Arguments Err {A} e.

Fixpoint list_eqb (a b : list N) : bool :=
  match a, b with
  | [], [] => true
  | x :: a', y :: b' => (x =? y) && list_eqb a' b'
  | _, _ => false
  end.

(* RFC 7932 section 8: NDBITS *)
Definition ndbits_tbl : list N := [0;0;0;0;10;10;11;11;10;10;10;10;10;9;9;8;7;7;8;7;7;6;6;5;5].
Definition ndbits (len : N) : N := nth (N.to_nat len) ndbits_tbl 0.

(* ---- LZ77 copy, byte-serial (overlap allowed) on a newest-first history ---- *)
Fixpoint copy_loop (n : nat) (d : nat) (hist : list N) : list N :=
  match n with
  | O => hist
  | S n' => copy_loop n' d (nth (d - 1) hist 0 :: hist)
  end.
(* same result, block move when the source does not overlap the destination *)
Definition copy_fast (n d : nat) (hist : list N) : list N :=
  if Nat.leb n d then firstn n (skipn (d - n) hist) ++ hist else copy_loop n d hist.

Section Dict.
Variable dict_word : N -> N -> list N.                 (* word length, word index -> raw word *)
Variable transforms : list (list N * N * list N).      (* prefix, elementary transform, suffix *)

(* elementary transforms (numbering of transform.rs): 0 identity, 1..9 omit last k,
   10 uppercase first, 11 uppercase all, 12..20 omit first k-11 *)
Definition upper_step (w : list N) : list N * list N :=
  match w with
  | [] => ([], [])
  | a :: r =>
    if a <? 192 then ([if (97 <=? a) && (a <=? 122) then N.lxor a 32 else a], r)
    else if a <? 224 then
      match r with b :: r' => ([a; N.lxor b 32], r') | [] => ([a], []) end
    else
      match r with b :: c :: r' => ([a; b; N.lxor c 5], r') | _ => (a :: r, []) end
  end.
Fixpoint upper_all (fuel : nat) (w : list N) : list N :=
  match fuel with
  | O => w
  | S f => match w with [] => [] | _ => let (h, r) := upper_step w in h ++ upper_all f r end
  end.
Definition elementary (ty : N) (w : list N) : list N :=
  if ty =? 0 then w
  else if ty <=? 9 then firstn (length w - N.to_nat ty) w
  else if ty =? 10 then let (h, r) := upper_step w in h ++ r
  else if ty =? 11 then upper_all (length w) w
  else skipn (N.to_nat (ty - 11)) w.
Definition apply_transform (t : N) (w : list N) : option (list N) :=
  match nth_error transforms (N.to_nat t) with
  | Some (p, ty, s) => Some (p ++ elementary ty w ++ s)
  | None => None
  end.
Definition dict_expand (word_size word_id t : N) : option (list N) :=
  if (4 <=? word_size) && (word_size <=? 24) && (word_id <? 2 ^ ndbits word_size)
  then apply_transform t (dict_word word_size word_id) else None.

(* ---- replay state: history (newest first) with its length, position inside the meta-block,
        the part of the meta-block input not yet covered, and its length ---- *)
Record rstate := { hist : list N; produced : N; pos : N; rest : list N; remaining : N }.
Definition rinit (pre mb : list N) : rstate :=
  {| hist := rev_append pre []; produced := N.of_nat (length pre); pos := 0; rest := mb; remaining := N.of_nat (length mb) |}.
Definition emit (bytes : list N) (n : N) (s : rstate) : rstate :=
  {| hist := rev_append bytes (hist s); produced := produced s + n; pos := pos s + n;
     rest := skipn (N.to_nat n) (rest s); remaining := remaining s - n |}.
Definition emit_copy (d n : N) (s : rstate) : rstate :=
  {| hist := copy_fast (N.to_nat n) (N.to_nat d) (hist s); produced := produced s + n; pos := pos s + n;
     rest := skipn (N.to_nat n) (rest s); remaining := remaining s - n |}.

Definition ir_step (c : ir_cmd) (s : rstate) : res rstate :=
  match c with
  | IrCopy d n =>
    if d =? 0 then Err EDistanceZero
    else if produced s <? d then Err EDistanceBeyondProduced
    else if remaining s <? n then Err EOverrun
    else Ok (emit_copy d n s)
  | IrDict ws tr fs _ id =>
    match dict_expand ws id tr with
    | None => Err ENoSuchWord
    | Some w =>
      if negb (N.of_nat (length w) =? fs) then Err EFinalSize
      else if remaining s <? fs then Err EOverrun
      else Ok (emit w fs s)
    end
  | IrLiteral off len _ =>
    if negb (off =? pos s) then Err ELiteralOffset
    else if remaining s <? len then Err ELiteralRange
    else Ok (emit (firstn (N.to_nat len) (rest s)) len s)
  | IrBlockSwitchCommand _ | IrBlockSwitchLiteral _ _ | IrBlockSwitchDistance _ => Ok s
  end.
Fixpoint ir_run (cs : list ir_cmd) (s : rstate) : res rstate :=
  match cs with
  | [] => Ok s
  | c :: r => match ir_step c s with Ok s' => ir_run r s' | Err e => Err e end
  end.

(* bytes the replay produced for this meta-block, oldest first *)
Definition produced_here (s : rstate) : list N := rev_append (firstn (N.to_nat (pos s)) (hist s)) [].

(* the property of one IR list: it replays, over `pre` (custom dictionary and everything replayed
   before), to exactly the meta-block input `mb`; every copy stays inside what has been produced,
   every dictionary command expands to its stated length and every literal slice sits at the
   position the replay has reached (ir_step refuses anything else). *)
Definition ir_replays (pre mb : list N) (cs : list ir_cmd) : Prop :=
  exists s, ir_run cs (rinit pre mb) = Ok s /\ remaining s = 0 /\ produced_here s = mb
            /\ hist s = rev mb ++ rev pre.

(* ---- what the encoder's own command list denotes under the decoder's rules, as a checker
        against the meta-block input.  State: rstate + the ring of the last four distances. ---- *)
Definition ring_get (ring : list Z) (i : N) : Z := nth (N.to_nat i) ring 0%Z.
Definition ring_push (ring : list Z) (d : Z) : list Z := d :: firstn 3 ring.

Definition cmd_step (lgwin nd np : N) (c : command) (st : rstate * list Z) : res (rstate * list Z) :=
  let (s, ring) := st in
  if remaining s =? 0 then Err ECmdTrailing else      (* the meta-block is already complete *)
  let ins := insert_len_ c in
  if remaining s <? ins then Err ECmdInsertOverrun else
  let s1 := emit (firstn (N.to_nat ins) (rest s)) ins s in
  let cl := cmd_copy_len_code c in
  let (idx, off) := distance_index_and_offset (dist_prefix_ c) (dist_extra_ c) nd np in
  let dist := if idx =? 0 then off else (ring_get ring (idx - 1) + off)%Z in
  let maxd := N.min (produced s1) (2 ^ lgwin - 16) in
  if remaining s1 =? 0 then
    (* MLEN reached: a decoder does not execute the copy part.  The encoder leaves there either
       Command::init_insert's (copy code 4, distance 1) or the all-zero command of an uncompressed
       meta-block; all that is required is that it does not denote a dictionary reference. *)
    if (0 <=? dist)%Z && (dist <=? Z.of_N maxd)%Z then Ok (s1, ring) else Err ECmdDistance
  else
    if (dist <=? 0)%Z || (2 ^ 62 <=? dist)%Z then Err ECmdDistance else
    let d := Z.to_N dist in
    if d <=? maxd then
      if remaining s1 <? cl then Err ECmdCopyOverrun else
      let s2 := emit_copy d cl s1 in
      if negb (list_eqb (firstn (N.to_nat cl) (hist s2)) (rev_append (firstn (N.to_nat cl) (rest s1)) [])) then Err ECmdMismatch else
      Ok (s2, if (idx =? 1) && (off =? 0)%Z then ring else ring_push ring dist)
    else
      let o := d - maxd - 1 in
      match dict_expand cl (o mod 2 ^ ndbits cl) (o / 2 ^ ndbits cl) with
      | None => Err ENoSuchWord
      | Some w =>
        let n := N.of_nat (length w) in
        if remaining s1 <? n then Err ECmdCopyOverrun else
        if negb (list_eqb w (firstn (N.to_nat n) (rest s1))) then Err ECmdMismatch else
        Ok (emit w n s1, ring)
      end.
Fixpoint cmd_run (lgwin nd np : N) (cs : list command) (st : rstate * list Z) : res (rstate * list Z) :=
  match cs with
  | [] => Ok st
  | c :: r => match cmd_step lgwin nd np c st with Ok st' => cmd_run lgwin nd np r st' | Err e => Err e end
  end.

(* boolean well-formedness of a meta-block's command list: insert and copy lengths tile the
   block, every distance is within what has been produced (and the window) or denotes an existing
   dictionary word, and the bytes the decoder would produce are the meta-block input *)
Definition cmds_ok (lgwin nd np : N) (pre mb : list N) (ring : list Z) (cs : list command) : bool :=
  match cmd_run lgwin nd np cs (rinit pre mb, ring) with
  | Ok (s, _) => remaining s =? 0
  | Err _ => false
  end.
End Dict.
