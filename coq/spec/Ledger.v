(* C09 specification: the ledger of live blocks of a set of allocator instances.

   Written without looking at the encoder: it only says what an allocator sees.

   A *block* is what one `alloc_cell(len)` call with `len > 0` on instance `binst` returns
   (`alloc_cell(0)` yields the empty default value, which is not a block).  Three things can
   happen to a block:
     - it is handed to `free_cell` of some instance                        (EvFree),
     - its value is dropped (overwritten / goes out of scope) without free_cell (EvDrop),
     - nothing (it is still held somewhere).

   "Returned exactly once to the allocator that produced it" means, and is applied uniformly
   to every entry point:  at the end of the observation (the call has returned / the instance
   or wrapper has been destroyed or dropped) every block has seen exactly one EvFree, that
   EvFree went through the instance that allocated it, and it has seen no EvDrop.
   In particular a block whose value is merely dropped does NOT count as returned, even when
   the allocator's block type happens to release the underlying memory in its own Drop (as
   alloc-stdlib's does) - the plugged-in allocator never saw it again. *)
From Coq Require Import NArith List Bool.
Import ListNotations.
Open Scope N_scope.

(* element types the encoder asks its allocator for (enc/combined_alloc.rs BrotliAlloc), plus
   the C-ABI state block and "untyped bytes" (what the C callbacks see) *)
Inductive ety :=
| U8 | U16 | I32 | U32 | U64 | ECmd | F32 | V8 | S16 | EPDF | ESC
| EHL | EHC | EHD | EHP | ECT | EHT | EZN | EState | EBytes.

Definition ety_code (t : ety) : N :=
  match t with
  | U8 => 0 | U16 => 1 | I32 => 2 | U32 => 3 | U64 => 4 | ECmd => 5 | F32 => 6 | V8 => 7
  | S16 => 8 | EPDF => 9 | ESC => 10 | EHL => 11 | EHC => 12 | EHD => 13 | EHP => 14
  | ECT => 15 | EHT => 16 | EZN => 17 | EState => 18 | EBytes => 19
  end.
Definition ety_of_code (c : N) : ety :=
  match c with
  | 0 => U8 | 1 => U16 | 2 => I32 | 3 => U32 | 4 => U64 | 5 => ECmd | 6 => F32 | 7 => V8
  | 8 => S16 | 9 => EPDF | 10 => ESC | 11 => EHL | 12 => EHC | 13 => EHD | 14 => EHP
  | 15 => ECT | 16 => EHT | 17 => EZN | 18 => EState | _ => EBytes
  end.

Record blk := mkblk { bid : N; binst : N; bty : ety; blen : N }.

Inductive fault :=
| Foreign (b : blk) (by_inst : N)   (* freed through an instance that did not produce it *)
| Stray (id by_inst : N)            (* free of something that is not live: double free *)
| Dropped (b : blk)                 (* value dropped without free_cell: never returned *)
| DupId (id : N).                   (* malformed observation: id handed out twice *)

Record ledger := mkledger { next : N; live : list blk; faults : list fault }.

Definition empty_ledger : ledger := mkledger 1 [] [].

Definition has_id (id : N) (b : blk) : bool := bid b =? id.
Definition find_id (id : N) (l : list blk) : option blk := find (has_id id) l.
Definition remove_id (id : N) (l : list blk) : list blk := filter (fun b => negb (has_id id b)) l.

Definition l_alloc_id (id inst : N) (ty : ety) (len : N) (l : ledger) : ledger :=
  match find_id id (live l) with
  | Some _ => mkledger (N.max (next l) (id + 1)) (live l) (DupId id :: faults l)
  | None => mkledger (N.max (next l) (id + 1)) (mkblk id inst ty len :: live l) (faults l)
  end.

Definition l_free_id (id by_inst : N) (l : ledger) : ledger :=
  match find_id id (live l) with
  | None => mkledger (next l) (live l) (Stray id by_inst :: faults l)
  | Some b => mkledger (next l) (remove_id id (live l))
                (if binst b =? by_inst then faults l else Foreign b by_inst :: faults l)
  end.

(* the block stays live: nobody can free it any more *)
Definition l_drop_id (id : N) (l : ledger) : ledger :=
  match find_id id (live l) with
  | None => mkledger (next l) (live l) (Stray id 0 :: faults l)
  | Some b => mkledger (next l) (live l) (Dropped b :: faults l)
  end.

(* what an instrumented allocator records *)
Inductive ev :=
| EvAlloc (id inst : N) (ty : ety) (len : N)
| EvFree (id by_inst : N)
| EvDrop (id : N).

Definition apply_ev (l : ledger) (e : ev) : ledger :=
  match e with
  | EvAlloc id inst ty len => l_alloc_id id inst ty len l
  | EvFree id by_inst => l_free_id id by_inst l
  | EvDrop id => l_drop_id id l
  end.

Definition replay (log : list ev) : ledger := fold_left apply_ev log empty_ledger.

(* THE PROPERTY, on a ledger reached at the end of an observation *)
Definition returned (l : ledger) : Prop := live l = [] /\ faults l = [].

Definition returnedb (l : ledger) : bool :=
  match live l, faults l with
  | [], [] => true
  | _, _ => false
  end.

Lemma returnedb_spec l : returnedb l = true <-> returned l.
Proof.
  unfold returnedb, returned. destruct (live l), (faults l); split; intros H;
    try discriminate; try (destruct H; discriminate); auto.
Qed.

(* counts used by the drivers for diagnostics *)
Definition is_foreign (f : fault) : bool := match f with Foreign _ _ => true | _ => false end.
Definition is_stray (f : fault) : bool := match f with Stray _ _ => true | _ => false end.
Definition is_dropped (f : fault) : bool := match f with Dropped _ => true | _ => false end.
Definition is_dup (f : fault) : bool := match f with DupId _ => true | _ => false end.
Definition count_faults (p : fault -> bool) (l : ledger) : N := N.of_nat (length (filter p (faults l))).

(* --- the interface the encoder model uses: same transitions, ids drawn from `next` --- *)

Definition l_alloc (inst : N) (ty : ety) (len : N) (l : ledger) : list blk * ledger :=
  if len =? 0 then ([], l)
  else ([mkblk (next l) inst ty len], l_alloc_id (next l) inst ty len l).

Definition l_free (by_inst : N) (bs : list blk) (l : ledger) : ledger :=
  fold_left (fun l b => l_free_id (bid b) by_inst l) bs l.

Definition l_drop (bs : list blk) (l : ledger) : ledger :=
  fold_left (fun l b => l_drop_id (bid b) l) bs l.
