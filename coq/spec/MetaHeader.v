(* RFC 7932 section 9.2, the header of a metadata meta-block, written from the RFC.
   A stream prefix is a natural number whose binary digits are the stream's bits in
   order (bit k of the stream = N.testbit v k, as the format packs bits LSB-first). *)
From Coq Require Import NArith Bool.
Open Scope N_scope.

Definition field (v p n : N) : N := (v / 2 ^ p) mod 2 ^ n.

(* Reads a metadata meta-block header starting at bit position p.
   Returns (MSKIPLEN, bit position of the first payload byte). *)
Definition rfc_read_metadata_header (v p : N) : option (N * N) :=
  if negb (field v p 1 =? 0) then None                 (* ISLAST must be 0 for a metadata block *)
  else if negb (field v (p + 1) 2 =? 3) then None      (* MNIBBLES code 3 = "0 nibbles": metadata *)
  else if negb (field v (p + 3) 1 =? 0) then None      (* reserved bit must be 0 *)
  else
    let skipbytes := field v (p + 4) 2 in
    let lenm1 := field v (p + 6) (8 * skipbytes) in
    (* "if MSKIPBYTES > 1 and the last byte is all zeros, the stream is rejected" *)
    if (1 <? skipbytes) && (field v (p + 6 + 8 * (skipbytes - 1)) 8 =? 0) then None
    else
      let hdr_end := p + 6 + 8 * skipbytes in
      let aligned := 8 * ((hdr_end + 7) / 8) in
      (* fill bits up to the byte boundary must be zero *)
      if negb (field v hdr_end (aligned - hdr_end) =? 0) then None
      else Some (if skipbytes =? 0 then 0 else lenm1 + 1, aligned).
