(* Specification side of C07, written without looking at the code:
   (1) a bounded queue as a plain list (FIFO push/pop, `remove` = first match, the head takes
       the removed element's place, nothing else moves);
   (2) "a bag of jobs, each run once, each join gets its own job's result, ownership of the
       shared input comes back": a boolean predicate on the summary of a pool run.
   Both are executable and are applied to the implementation's own answers by the check. *)
From Coq Require Import NArith List Bool.
Import ListNotations.
Open Scope N_scope.

Section QueueSpec.
  Variable T : Type.

  Definition qs_push (cap : nat) (l : list T) (x : T) : bool * list T :=
    if Nat.eqb (length l) cap then (false, l) else (true, l ++ [x]).

  Definition qs_pop (l : list T) : option T * list T :=
    match l with [] => (None, []) | h :: t => (Some h, t) end.

  (* first element satisfying f, with what is before and after it *)
  Fixpoint qs_find (f : T -> bool) (l : list T) : option (list T * T * list T) :=
    match l with
    | [] => None
    | h :: t =>
      if f h then Some ([], h, t)
      else match qs_find f t with
           | None => None
           | Some (pre, x, post) => Some (h :: pre, x, post)
           end
    end.

  (* the queue after removing the first match: the old head moves into the hole *)
  Definition qs_remove (f : T -> bool) (l : list T) : option T * list T :=
    match qs_find f l with
    | None => (None, l)
    | Some (pre, x, post) =>
      (Some x, match pre with [] => post | h :: pre' => pre' ++ h :: post end)
    end.

  (* the predicate handed to `remove` sees the slot (Option<T>); on a queue element x it sees Some x *)
  Inductive qop := QPush (x : T) | QPop | QRemove (f : option T -> bool) | QSize | QCanPush | QFree.
  Inductive qans := APush (ok : bool) | APop (o : option T) | ARemove (o : option T) | ASize (n : N)
                  | ACan (b : bool) | AFree (n : N).

  Definition qs_step (cap : nat) (l : list T) (o : qop) : qans * list T :=
    match o with
    | QPush x => let (b, l') := qs_push cap l x in (APush b, l')
    | QPop => let (r, l') := qs_pop l in (APop r, l')
    | QRemove f => let (r, l') := qs_remove (fun x => f (Some x)) l in (ARemove r, l')
    | QSize => (ASize (N.of_nat (length l)), l)
    | QCanPush => (ACan (Nat.ltb (length l) cap), l)
    | QFree => (AFree (N.of_nat (cap - length l)), l)
    end.

  Fixpoint qs_run (cap : nat) (l : list T) (ops : list qop) : list qans :=
    match ops with
    | [] => []
    | o :: r => let (a, l') := qs_step cap l o in a :: qs_run cap l' r
    end.
End QueueSpec.

Arguments qs_push {T}.
Arguments qs_pop {T}.
Arguments qs_find {T}.
Arguments qs_remove {T}.
Arguments qs_step {T}.
Arguments qs_run {T}.
Arguments QPush {T}.
Arguments QPop {T}.
Arguments QRemove {T}.
Arguments QSize {T}.
Arguments QCanPush {T}.
Arguments QFree {T}.
Arguments APush {T}.
Arguments APop {T}.
Arguments ARemove {T}.
Arguments ASize {T}.
Arguments ACan {T}.
Arguments AFree {T}.

(* ---- summary of a pool run ---- *)
Record summary := mksum {
  sm_spawned : list (N * N);            (* (work id, payload) of every submitted job *)
  sm_joins : list (N * N);              (* (work id, value) of every join that returned *)
  sm_exec : N -> N;                     (* how often the body of each job ran *)
  sm_unwraps : list (bool * bool);      (* (had every join handle been consumed, did unwrap succeed) *)
  sm_clean_end : bool                   (* the pool was dropped and every thread terminated *)
}.

Fixpoint lookupN (w : N) (l : list (N * N)) : option N :=
  match l with [] => None | (k, v) :: r => if k =? w then Some v else lookupN w r end.

Fixpoint nodupN (l : list N) : bool :=
  match l with [] => true | h :: r => negb (existsb (N.eqb h) r) && nodupN r end.

Section RunSpec.
  Variable jf : N -> N.      (* what a job with a given payload returns *)

  Definition join_ok (sm : summary) (j : N * N) : bool :=
    match lookupN (fst j) (sm_spawned sm) with
    | Some payload => (snd j =? jf payload) && (sm_exec sm (fst j) =? 1)
    | None => false
    end.

  Definition spec_ok (sm : summary) : bool :=
    forallb (join_ok sm) (sm_joins sm)                                   (* routed, ran exactly once *)
    && nodupN (map fst (sm_joins sm))                                    (* no handle answered twice *)
    && nodupN (map fst (sm_spawned sm))                                  (* work ids are unique *)
    && forallb (fun j => sm_exec sm (fst j) <=? 1) (sm_spawned sm)       (* at most once, joined or not *)
    && forallb (fun u => implb (fst u) (snd u)) (sm_unwraps sm)          (* ownership comes back *)
    && sm_clean_end sm.                                                  (* no deadlock, drop terminates *)
End RunSpec.
