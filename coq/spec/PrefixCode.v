(* RFC 7932 prefix codes -- the SPECIFICATION side of C17.
   Written from the RFC text (sections 3.1-3.5), not from the encoder:
     3.2  canonical code assignment from a sequence of code lengths,
     3.4  simple prefix codes (NSYM 1..4, tree-select),
     3.5  complex prefix codes (HSKIP, code length code lengths in the fixed order with their
          fixed variable-length code, repeat codes 16/17 with the compounding rule, the
          32 / 32768 space accounting).
   Bits are `list bool` in stream order: the first element is the first bit a decoder reads,
   i.e. the least significant bit of the first byte -- the order `BrotliWriteBits` emits.
   Fixed-width integers are read least-significant-bit first (RFC 1.5.2); prefix codes are read
   most-significant-bit first (RFC 1.5.2 "Huffman codes are packed starting with the
   most-significant bit of the code").  Definitions only. *)
From Coq Require Import NArith List Bool.
Import ListNotations.
Open Scope N_scope.

Definition bits := list bool.

Definition b2n (b : bool) : N := if b then 1 else 0.

(* value of a bit list read least-significant-bit first *)
Fixpoint bits_to_N (bs : bits) : N :=
  match bs with [] => 0 | b :: t => b2n b + 2 * bits_to_N t end.

(* the n low bits of v, least significant first *)
Fixpoint N_to_bits (n : nat) (v : N) : bits :=
  match n with O => [] | S k => N.odd v :: N_to_bits k (N.div2 v) end.

(* the l-bit number c written most significant bit first (a code word as it appears in the stream) *)
Definition msb_first (l : nat) (c : N) : bits := rev (N_to_bits l c).

Fixpoint take_bits (n : nat) (bs : bits) : option (bits * bits) :=
  match n with
  | O => Some ([], bs)
  | S k => match bs with
           | [] => None
           | b :: t => match take_bits k t with Some (h, r) => Some (b :: h, r) | None => None end
           end
  end.

(* read an n-bit unsigned integer *)
Definition read_bits (n : nat) (bs : bits) : option (N * bits) :=
  match take_bits n bs with Some (h, r) => Some (bits_to_N h, r) | None => None end.

(* ------------------------------------------------------------------------------------------
   3.2  canonical prefix codes
   "(1) Count the number of codes for each code length.  Let bl_count[N] be the number of codes
        of length N, N >= 1.
    (2) Find the numerical value of the smallest code for each code length:
          code = 0; bl_count[0] = 0;
          for (bits = 1; bits <= MAX_BITS; bits++) { code = (code + bl_count[bits-1]) << 1;
                                                     next_code[bits] = code; }
    (3) Assign numerical values to all codes, using consecutive values for all codes of the same
        length with the base values determined at step 2.  Codes that are never used (which have
        a bit length of zero) must not be assigned a value."
   ------------------------------------------------------------------------------------------ *)
Definition MAX_BITS : N := 15.

(* a length vector is well formed when no length exceeds 15 *)
Definition wf_depths (d : list N) : Prop := forall l, In l d -> l <= MAX_BITS.
Definition wf_depthsb (d : list N) : bool := forallb (fun l => l <=? MAX_BITS) d.

Definition count_len (d : list N) (l : N) : N := N.of_nat (length (filter (N.eqb l) d)).
Definition bl_count (d : list N) (l : N) : N := if l =? 0 then 0 else count_len d l.

Fixpoint next_code_nat (d : list N) (b : nat) : N :=
  match b with
  | O => 0
  | S b' => 2 * (next_code_nat d b' + bl_count d (N.of_nat b'))
  end.
Definition rfc_next_code (d : list N) (l : N) : N := next_code_nat d (N.to_nat l).

(* code of symbol s (meaningful when its length is non-zero): base value of its length plus the
   number of earlier symbols of the same length *)
Definition rfc_code (d : list N) (s : nat) : N :=
  let l := nth s d 0 in rfc_next_code d l + count_len (firstn s d) l.

(* the whole assignment: for every symbol (length, code); code 0 for unused symbols *)
Fixpoint canon_from (d : list N) (rest : list N) (s : nat) : list (N * N) :=
  match rest with
  | [] => []
  | l :: t => (l, if l =? 0 then 0 else rfc_code d s) :: canon_from d t (S s)
  end.
Definition rfc_canonical (d : list N) : list (N * N) := canon_from d d 0.

(* the code word of symbol s as it appears in the stream *)
Definition rfc_codeword (d : list N) (s : nat) : bits :=
  msb_first (N.to_nat (nth s d 0)) (rfc_code d s).

(* Kraft sum in units of 2^-15: sum over used symbols of 2^(15-len); a complete code has 32768 *)
Definition kraft (d : list N) : N :=
  fold_right (fun l acc => if l =? 0 then acc else 2 ^ (MAX_BITS - l) + acc) 0 d.
Definition kraft_one : N := 32768.

Fixpoint is_prefix (a b : bits) : bool :=
  match a, b with
  | [], _ => true
  | x :: a', y :: b' => Bool.eqb x y && is_prefix a' b'
  | _ :: _, [] => false
  end.

Definition prefix_free (d : list N) : Prop :=
  forall s t, (s < length d)%nat -> (t < length d)%nat -> s <> t ->
    nth s d 0 <> 0 -> nth t d 0 <> 0 ->
    is_prefix (rfc_codeword d s) (rfc_codeword d t) = false.

(* bit-serial decoder: accumulate bits most-significant first; after each bit look for a symbol
   whose (length, code) equals the accumulated (count, value). *)
Fixpoint find_code (tab : list (N * N)) (l c : N) (s : N) : option N :=
  match tab with
  | [] => None
  | (l', c') :: t => if (negb (l' =? 0)) && (l' =? l) && (c' =? c) then Some s else find_code t l c (s + 1)
  end.

Fixpoint decode_aux (tab : list (N * N)) (fuel : nat) (l c : N) (bs : bits) : option (N * bits) :=
  match fuel with
  | O => None
  | S f => match bs with
           | [] => None
           | b :: r => let c' := 2 * c + b2n b in
                       let l' := l + 1 in
                       match find_code tab l' c' 0 with
                       | Some s => Some (s, r)
                       | None => decode_aux tab f l' c' r
                       end
           end
  end.
Definition rfc_decode_symbol (d : list N) (bs : bits) : option (N * bits) :=
  decode_aux (rfc_canonical d) 15 0 0 bs.

(* ------------------------------------------------------------------------------------------
   result of reading a prefix code description: the length vector over the whole alphabet, and,
   for the one-symbol code of 3.4 (NSYM = 1, code length zero), that symbol.
   ------------------------------------------------------------------------------------------ *)
Record prefix_code := { pc_lengths : list N; pc_single : option N }.

(* "ALPHABET_BITS ... is the smallest number of bits that can represent all symbols in the
   alphabet" *)
Definition alphabet_bits (asz : N) : nat := N.to_nat (N.size (asz - 1)).

Fixpoint set_nth (l : list N) (i : nat) (v : N) : list N :=
  match l, i with
  | [], _ => []
  | _ :: t, O => v :: t
  | h :: t, S k => h :: set_nth t k v
  end.

(* ---- 3.4 simple prefix codes ---- *)
Fixpoint read_symbols (n : nat) (width : nat) (bs : bits) : option (list N * bits) :=
  match n with
  | O => Some ([], bs)
  | S k => match read_bits width bs with
           | Some (s, r) => match read_symbols k width r with
                            | Some (l, r') => Some (s :: l, r')
                            | None => None
                            end
           | None => None
           end
  end.

Fixpoint distinct (l : list N) : bool :=
  match l with [] => true | x :: t => negb (existsb (N.eqb x) t) && distinct t end.

Fixpoint assign_lengths (d : list N) (syms lens : list N) : list N :=
  match syms, lens with
  | s :: ss, l :: ls => assign_lengths (set_nth d (N.to_nat s) l) ss ls
  | _, _ => d
  end.

Definition zeros (n : N) : list N := repeat 0 (N.to_nat n).

Definition rfc_read_simple (asz : N) (bs : bits) : option (prefix_code * bits) :=
  match read_bits 2 bs with
  | None => None
  | Some (nsym1, r0) =>
    match read_symbols (N.to_nat (nsym1 + 1)) (alphabet_bits asz) r0 with
    | None => None
    | Some (syms, r1) =>
      if negb (forallb (fun s => s <? asz) syms && distinct syms) then None
      else match syms with
           | [s] => Some ({| pc_lengths := zeros asz; pc_single := Some s |}, r1)
           | [_; _] => Some ({| pc_lengths := assign_lengths (zeros asz) syms [1; 1]; pc_single := None |}, r1)
           | [_; _; _] => Some ({| pc_lengths := assign_lengths (zeros asz) syms [1; 2; 2]; pc_single := None |}, r1)
           | [_; _; _; _] =>
             match read_bits 1 r1 with
             | None => None
             | Some (ts, r2) =>
               let lens := if ts =? 0 then [2; 2; 2; 2] else [1; 2; 3; 3] in
               Some ({| pc_lengths := assign_lengths (zeros asz) syms lens; pc_single := None |}, r2)
             end
           | _ => None
           end
    end
  end.

(* ---- 3.5 complex prefix codes ---- *)
(* order in which the code length code lengths appear *)
Definition rfc_cl_order : list N := [1; 2; 3; 4; 0; 5; 17; 6; 16; 7; 8; 9; 10; 11; 12; 13; 14; 15].

(* the fixed variable-length code for the code length code lengths,
      Symbol 0: 00   1: 0111   2: 011   3: 10   4: 01   5: 1111
   "as it appears in the compressed data, where the bits are parsed from right to left" --
   the rightmost character is the first bit in stream order. *)
Definition read_cl_len (bs : bits) : option (N * bits) :=
  match bs with
  | false :: false :: r => Some (0, r)
  | true :: false :: r => Some (4, r)
  | false :: true :: r => Some (3, r)
  | true :: true :: false :: r => Some (2, r)
  | true :: true :: true :: false :: r => Some (1, r)
  | true :: true :: true :: true :: r => Some (5, r)
  | _ => None
  end.

(* read code length code lengths for the symbols in `order` while space (in units of 1/32)
   remains; returns the 18-vector, the number of non-zero entries and the remaining space *)
Fixpoint read_clcl (order : list N) (space nz : N) (cl : list N) (bs : bits)
  : option (list N * N * N * bits) :=
  match order with
  | [] => Some (cl, nz, space, bs)
  | o :: rest =>
    if space =? 0 then Some (cl, nz, space, bs)
    else match read_cl_len bs with
         | None => None
         | Some (v, r) =>
           if v =? 0 then read_clcl rest space nz cl r
           else let w := N.shiftr 32 v in
                if space <? w then None
                else read_clcl rest (space - w) (nz + 1) (set_nth cl (N.to_nat o) v) r
         end
  end.

(* state of the code length sequence reader *)
Record cl_state := {
  cl_rev : list N;          (* code lengths so far, last first *)
  cl_n : N;                 (* how many *)
  cl_prev : N;              (* previous non-zero code length; 8 before any *)
  cl_rep : option (N * N);  (* Some (16|17, repeat count) when the previous symbol was that repeat code *)
  cl_space : N              (* sum of 32768 >> len over the non-zero lengths so far *)
}.
Definition cl_init : cl_state := {| cl_rev := []; cl_n := 0; cl_prev := 8; cl_rep := None; cl_space := 0 |}.

Fixpoint push_n (k : nat) (v : N) (l : list N) : list N :=
  match k with O => l | S k' => push_n k' v (v :: l) end.

(* one code length symbol with its extra bits; None = invalid stream *)
Definition cl_step (asz : N) (st : cl_state) (sym extra : N) : option cl_state :=
  if sym <? 16 then
    if cl_n st <? asz then
      Some {| cl_rev := sym :: cl_rev st; cl_n := cl_n st + 1;
              cl_prev := if sym =? 0 then cl_prev st else sym;
              cl_rep := None;
              cl_space := if sym =? 0 then cl_space st else cl_space st + 2 ^ (15 - sym) |}
    else None
  else if sym =? 16 then
    if 4 <=? extra then None else
    let old := match cl_rep st with Some (16, c) => c | _ => 0 end in
    let new := (if old =? 0 then 0 else 4 * (old - 2)) + 3 + extra in
    let delta := new - old in
    if asz <? cl_n st + delta then None
    else Some {| cl_rev := push_n (N.to_nat delta) (cl_prev st) (cl_rev st); cl_n := cl_n st + delta;
                 cl_prev := cl_prev st; cl_rep := Some (16, new);
                 cl_space := cl_space st + delta * 2 ^ (15 - cl_prev st) |}
  else if sym =? 17 then
    if 8 <=? extra then None else
    let old := match cl_rep st with Some (17, c) => c | _ => 0 end in
    let new := (if old =? 0 then 0 else 8 * (old - 2)) + 3 + extra in
    let delta := new - old in
    if asz <? cl_n st + delta then None
    else Some {| cl_rev := push_n (N.to_nat delta) 0 (cl_rev st); cl_n := cl_n st + delta;
                 cl_prev := cl_prev st; cl_rep := Some (17, new);
                 cl_space := cl_space st |}
  else None.

(* expansion of a whole sequence of (code length symbol, extra bits): used by C17_rle *)
Fixpoint cl_run (asz : N) (st : cl_state) (syms : list (N * N)) : option cl_state :=
  match syms with
  | [] => Some st
  | (s, e) :: t => match cl_step asz st s e with Some st' => cl_run asz st' t | None => None end
  end.
Definition rfc_expand (asz : N) (syms : list (N * N)) : option (list N) :=
  match cl_run asz cl_init syms with Some st => Some (rev (cl_rev st)) | None => None end.

(* the prefix code over the 18 code length symbols: either a canonical code from the code
   length code lengths or, when exactly one is non-zero, that symbol with a zero-length code *)
Definition read_cl_symbol (cl : list N) (single : option N) (bs : bits) : option (N * bits) :=
  match single with
  | Some s => Some (s, bs)
  | None => rfc_decode_symbol cl bs
  end.

Fixpoint read_cl_sequence (fuel : nat) (asz : N) (cl : list N) (single : option N)
                          (st : cl_state) (bs : bits) : option (cl_state * bits) :=
  if (cl_n st <? asz) && (cl_space st <? 32768) then
    match fuel with
    | O => None
    | S f =>
      match read_cl_symbol cl single bs with
      | None => None
      | Some (sym, r) =>
        let nextra := if sym =? 16 then 2%nat else if sym =? 17 then 3%nat else 0%nat in
        match read_bits nextra r with
        | None => None
        | Some (extra, r') =>
          match cl_step asz st sym extra with
          | None => None
          | Some st' => read_cl_sequence f asz cl single st' r'
          end
        end
      end
    end
  else Some (st, bs).

Fixpoint first_nonzero (l : list N) (i : N) : option N :=
  match l with [] => None | x :: t => if x =? 0 then first_nonzero t (i + 1) else Some i end.

Definition rfc_read_complex (asz : N) (hskip : N) (bs : bits) : option (prefix_code * bits) :=
  match read_clcl (skipn (N.to_nat hskip) rfc_cl_order) 32 0 (repeat 0 18%nat) bs with
  | None => None
  | Some (cl, nz, space, r) =>
    let single := if nz =? 1 then first_nonzero cl 0 else None in
    if negb ((nz =? 1) || (space =? 0)) then None
    else match read_cl_sequence (S (N.to_nat asz)) asz cl single cl_init r with
         | None => None
         | Some (st, r') =>
           if cl_space st =? 32768
           then Some ({| pc_lengths := rev (cl_rev st) ++ zeros (asz - cl_n st); pc_single := None |}, r')
           else None
         end
  end.

(* a prefix code description over an alphabet of `asz` symbols *)
Definition rfc_read_prefix_code (asz : N) (bs : bits) : option (prefix_code * bits) :=
  match read_bits 2 bs with
  | None => None
  | Some (hskip, r) => if hskip =? 1 then rfc_read_simple asz r else rfc_read_complex asz hskip r
  end.

(* trailing zeros removed (what the serialisation is allowed to drop) *)
Fixpoint strip_trailing_zeros (d : list N) : list N :=
  match d with
  | [] => []
  | x :: t => match strip_trailing_zeros t with
              | [] => if x =? 0 then [] else [x]
              | t' => x :: t'
              end
  end.
