(* RFC 7932 section 4 (distance codes), section 5 (insert & copy length codes, the
   704-symbol command layout) and section 6 (block count codes), transcribed BY HAND
   from the RFC text.  This file is the specification; it does not look at the code. *)
From Coq Require Import NArith ZArith List.
Import ListNotations.
Open Scope N_scope.

Definition rfc_nth (l : list N) (i : N) : N := nth (N.to_nat i) l 0.

(* Insert length code: (extra bits, base) for codes 0..23 *)
Definition rfc_ins_extra_tbl : list N :=
  [0;0;0;0;0;0;1;1;2;2;3;3;4;4;5;5;6;7;8;9;10;12;14;24].
Definition rfc_ins_base_tbl : list N :=
  [0;1;2;3;4;5;6;8;10;14;18;26;34;50;66;98;130;194;322;578;1090;2114;6210;22594].
(* Copy length code *)
Definition rfc_copy_extra_tbl : list N :=
  [0;0;0;0;0;0;0;0;1;1;2;2;3;3;4;4;5;5;6;7;8;9;10;24].
Definition rfc_copy_base_tbl : list N :=
  [2;3;4;5;6;7;8;9;10;12;14;18;22;30;38;54;70;102;134;198;326;582;1094;2118].
(* Block count code (section 6) *)
Definition rfc_blen_extra_tbl : list N :=
  [2;2;2;2;3;3;3;3;4;4;4;4;5;5;5;5;6;6;7;8;9;10;11;12;13;24].
Definition rfc_blen_base_tbl : list N :=
  [1;5;9;13;17;25;33;41;49;65;81;97;113;145;177;209;241;305;369;497;753;1265;2289;4337;8433;16625].

Definition rfc_ins_base c := rfc_nth rfc_ins_base_tbl c.
Definition rfc_ins_extra c := rfc_nth rfc_ins_extra_tbl c.
Definition rfc_copy_base c := rfc_nth rfc_copy_base_tbl c.
Definition rfc_copy_extra c := rfc_nth rfc_copy_extra_tbl c.
Definition rfc_blen_base c := rfc_nth rfc_blen_base_tbl c.
Definition rfc_blen_extra c := rfc_nth rfc_blen_extra_tbl c.

(* A value v is denoted by (code, extra) under a (base, nbits) table. *)
Definition denotes (base nbits : N -> N) (code extra v : N) : Prop :=
  extra < 2 ^ nbits code /\ base code + extra = v.

(* Section 5: the insert-and-copy symbol s (0..703) decomposes into
   (insert code, copy code, distance-is-implicit-zero).  Cell = s / 64:
       cell  ins-base copy-base
        0      0        0     implicit distance
        1      0        8     implicit distance
        2      0        0
        3      0        8
        4      8        0
        5      8        8
        6      0       16
        7     16        0
        8      8       16
        9     16        8
       10     16       16
   and within a cell: insert code = base + bits 3..5, copy code = base + bits 0..2. *)
Definition rfc_cell_bases : list (N * N) :=
  [(0,0);(0,8);(0,0);(0,8);(8,0);(8,8);(0,16);(16,0);(8,16);(16,8);(16,16)].
Definition rfc_cell (s : N) : N * N * bool :=
  let '(ib, cb) := nth (N.to_nat (s / 64)) rfc_cell_bases (0,0) in
  (ib + (s / 8) mod 8, cb + s mod 8, s <? 128).

(* Section 4: distance for a distance symbol dcode >= 16 and its extra bits, under
   NPOSTFIX / NDIRECT.  Returns the 1-based distance. *)
Definition rfc_ndistbits (np nd dcode : N) : N :=
  1 + ((dcode - nd - 16) / 2 ^ np) / 2.
Definition rfc_distance (np nd dcode dextra : N) : N :=
  if dcode <? 16 + nd then dcode - 15
  else
    let t := dcode - nd - 16 in
    let hcode := t / 2 ^ np in
    let lcode := t mod 2 ^ np in
    let ndistbits := 1 + hcode / 2 in
    let offset := (2 + hcode mod 2) * 2 ^ ndistbits - 4 in
    (offset + dextra) * 2 ^ np + lcode + nd + 1.
