// C01 harness: the streaming encoder driven through the raw `compress_stream`, its output
// judged by two independent decoders (brotli-decompressor 4.0.3 and Google libbrotlidec 1.0.9).
//
//   E P=<id:val,...> D=<kind>:<len>:<seed> L=<op><chunk>,... CAPS=<c1,c2,...> [T=<take>] [NOHEX=1]
//       logical script: every (op, chunk) is repeated with the output capacities of CAPS (cycled,
//       all >= 1, or output fetched with take_output(T)) until its input is consumed and, for
//       flush / finish, nothing is pending.  op: p process, f flush, e finish; chunk: bytes or R (rest).
//       answer:  R st=<ok|false@<call>|stall@<call>|unfinished|PANIC(..)> fin=<0|1> n=<input len> ih=<hash>
//                calls=<n> cfg=<quality,lgwin,lgblock,npostfix,ndirect,alphabet,maxdist,rbsize,rbmask,rbtail,rbtotal,rbpos,hasher>
//                rb=<ok|na|bad:..> tr=<back-end invocations: total,fast> rd=<..> gd=<..>
//                rg=<emitted bytes>:<dist_cache_[0..4]>:<prev_byte_.prev_byte2_>;... (state at completed flush/finish) out=<hex|->
//       rd / gd: ok | reject | mismatch | trailing | na
//   X <allow_large> <hex>     both decoders on arbitrary bytes:  rd=<A len hash|T len hash|R> gd=<..>
//                             (A accepted, all input consumed; T success with input left over; R rejected / truncated)
//   C P=<id:val,...>          configuration after ensure_initialized (no data): cfg=<..> as above
//   W <p>                     WrapPosition(p) through the verif hook
//   B <lgwin> <lgblock-as-set> <q> <n1,n2,...>   copy_input_to_ring_buffer with writes of these sizes (PRNG data):
//                             rb=<ok|bad:..> pos=<pos_> mask=<mask_> cur=<cur_size_>
//   G <q> <lgwin> <total> <chunk> <seed>   giant streamed run (release build): repetitive input generated on the fly,
//                             output piped into both streaming decoders; answer ok=<0|1> in=<len> ih=<hash> rd=<len hash> gd=<len hash> out=<compressed len>
#![allow(deprecated)]
use brotli::enc::encode::{BrotliEncoderOperation, BrotliEncoderStateStruct};
use brotli::enc::StandardAlloc;
use brotli_decompressor::{BrotliDecompressStream, BrotliResult, BrotliState};
use std::panic::AssertUnwindSafe;
use vharness::streamlib::*;
use vharness::*;

extern "C" {
    fn dlopen(filename: *const u8, flag: i32) -> *mut u8;
    fn dlsym(handle: *mut u8, symbol: *const u8) -> *mut u8;
}
type GCreate = unsafe extern "C" fn(*const u8, *const u8, *const u8) -> *mut u8;
type GSetParam = unsafe extern "C" fn(*mut u8, i32, u32) -> i32;
type GStream = unsafe extern "C" fn(*mut u8, *mut usize, *mut *const u8, *mut usize, *mut *mut u8, *mut usize) -> i32;
type GDestroy = unsafe extern "C" fn(*mut u8);
type GVersion = unsafe extern "C" fn() -> u32;
struct Google {
    create: GCreate,
    set_param: GSetParam,
    stream: GStream,
    destroy: GDestroy,
}
// Google's libbrotlidec is loaded with dlopen (see harness/src/bin/c15.rs): the crate links
// brotli-decompressor with `ffi-api`, which exports the same C symbol names.
fn google() -> Option<&'static Google> {
    use std::sync::OnceLock;
    static G: OnceLock<Option<Google>> = OnceLock::new();
    G.get_or_init(|| unsafe {
        let h = dlopen(b"libbrotlidec.so.1\0".as_ptr(), 0x2 | 0x8);
        if h.is_null() {
            return None;
        }
        let sym = |n: &[u8]| -> *mut u8 { dlsym(h, n.as_ptr()) };
        let v = sym(b"BrotliDecoderVersion\0");
        if v.is_null() {
            return None;
        }
        let ver: GVersion = core::mem::transmute(v);
        if ver() != 0x1000009 {
            return None;
        }
        Some(Google {
            create: core::mem::transmute(sym(b"BrotliDecoderCreateInstance\0")),
            set_param: core::mem::transmute(sym(b"BrotliDecoderSetParameter\0")),
            stream: core::mem::transmute(sym(b"BrotliDecoderDecompressStream\0")),
            destroy: core::mem::transmute(sym(b"BrotliDecoderDestroyInstance\0")),
        })
    })
    .as_ref()
}

fn hash_bytes(h0: u64, b: &[u8]) -> u64 {
    let mut h = h0;
    for x in b {
        h = hmix(h, *x as u64);
    }
    h
}

// ---------------------------------------------------------------------------------- decoders
/// (status, output): status 'A' accepted with all input consumed, 'T' success with input left, 'R' otherwise
fn rust_decode(data: &[u8], allow_large: bool, limit: usize) -> (char, Vec<u8>) {
    let a = StandardAlloc::default;
    let mut st: BrotliState<StandardAlloc, StandardAlloc, StandardAlloc> =
        if allow_large { BrotliState::new(a(), a(), a()) } else { BrotliState::new_strict(a(), a(), a()) };
    let mut out: Vec<u8> = Vec::new();
    let mut buf = vec![0u8; 1 << 16];
    let mut avail_in = data.len();
    let mut in_off = 0usize;
    let mut steps = 0usize;
    loop {
        steps += 1;
        if steps > 1_000_000 || out.len() > limit {
            return ('R', out);
        }
        let mut avail_out = buf.len();
        let mut out_off = 0usize;
        let mut total = 0usize;
        let r = BrotliDecompressStream(&mut avail_in, &mut in_off, data, &mut avail_out, &mut out_off, &mut buf[..], &mut total, &mut st);
        out.extend_from_slice(&buf[..out_off]);
        match r {
            BrotliResult::ResultSuccess => return (if avail_in == 0 { 'A' } else { 'T' }, out),
            BrotliResult::NeedsMoreOutput => continue,
            _ => return ('R', out),
        }
    }
}
fn google_decode(data: &[u8], allow_large: bool, limit: usize) -> Option<(char, Vec<u8>)> {
    let g = google()?;
    unsafe {
        let st = (g.create)(core::ptr::null(), core::ptr::null(), core::ptr::null());
        if st.is_null() {
            return None;
        }
        if allow_large {
            (g.set_param)(st, 1, 1);
        }
        let mut out: Vec<u8> = Vec::new();
        let mut buf = vec![0u8; 1 << 16];
        let mut avail_in = data.len();
        let mut next_in: *const u8 = data.as_ptr();
        let mut steps = 0usize;
        let res;
        loop {
            steps += 1;
            if steps > 1_000_000 || out.len() > limit {
                res = 'R';
                break;
            }
            let mut avail_out = buf.len();
            let mut next_out: *mut u8 = buf.as_mut_ptr();
            let mut total = 0usize;
            let r = (g.stream)(st, &mut avail_in, &mut next_in, &mut avail_out, &mut next_out, &mut total);
            out.extend_from_slice(&buf[..buf.len() - avail_out]);
            if r == 1 {
                res = if avail_in == 0 { 'A' } else { 'T' };
                break;
            } else if r == 3 {
                continue;
            } else {
                res = 'R';
                break;
            }
        }
        (g.destroy)(st);
        Some((res, out))
    }
}
fn judge(r: (char, Vec<u8>), expect: &[u8]) -> &'static str {
    match r.0 {
        'A' => {
            if r.1 == expect {
                "ok"
            } else {
                "mismatch"
            }
        }
        'T' => "trailing",
        _ => "reject",
    }
}

// ---------------------------------------------------------------------------------- inputs
thread_local! {
    /// description of the segments of the last `rs` data recipe: A:<repeat length>:<distance> / B:<repeat length>:<distance>:<variant>
    static SEGS: std::cell::RefCell<String> = std::cell::RefCell::new(String::new());
}
fn data_of(kind: &str, len: usize, seed: u64) -> Vec<u8> {
    SEGS.with(|g| g.borrow_mut().clear());
    let mut r = Rng::new(seed ^ 0x5bd1e995);
    if let Some(p) = kind.strip_prefix("far") {
        // PRNG block of the given period, repeated: distances of exactly `period`
        let period: usize = p.parse().unwrap_or(1000).max(1);
        let base: Vec<u8> = (0..period.min(len.max(1))).map(|_| r.next() as u8).collect();
        return (0..len).map(|i| base[i % base.len()]).collect();
    }
    if let Some(p) = kind.strip_prefix("rs") {
        // "ring segments": segments of S bytes.  Segment 0: PRNG bytes.  Odd segments (A): PRNG bytes with ONE
        // embedded repeat at a fresh distance (mostly incompressible: they end up as stored meta-blocks although the
        // match finder saw a copy).  Even segments >= 2 (B): a few PRNG bytes, a repeat whose distance is the one
        // of the previous A segment, that distance +-1..3 (the derived short codes), or one of the decoder's initial
        // ring values 4, 11, 15, 16, followed by compressible text.  Everything is derived from the seed.
        let sz: usize = p.parse().unwrap_or(1000).max(64);
        let mut v: Vec<u8> = Vec::with_capacity(len + 32);
        let text = b"the quick brown fox jumps over the lazy dog and ";
        let mut last_d: usize = 0;
        let mut j = 0usize;
        while v.len() < len {
            let seg_len = sz.min(len - v.len());
            let start = v.len();
            for _ in 0..seg_len {
                v.push(r.next() as u8);
            }
            if j > 0 && j % 2 == 1 && seg_len >= 64 {
                let cl = match r.below(5) {
                    0 => 4 + r.below(5) as usize,
                    1 | 2 => 8 + r.below(17) as usize,
                    3 => seg_len / 100 + 2 + r.below(8) as usize,
                    _ => seg_len * 3 / 200 + 4,
                }
                .max(4)
                .min(seg_len / 2);
                let at = r.below((seg_len - cl) as u64) as usize;
                let pos = start + at;
                if pos > cl {
                    let span = (pos - cl).min(3 * sz);
                    let d = cl + 1 + r.below(span as u64) as usize;
                    let d = d.min(pos);
                    for i in 0..cl {
                        v[pos + i] = v[pos + i - d];
                    }
                    last_d = d;
                    SEGS.with(|g| g.borrow_mut().push_str(&format!("{}A:{}:{}:{},", j, cl, d, seg_len)));
                }
            } else if j > 0 && j % 2 == 0 && seg_len >= 48 {
                let lead = r.below(12) as usize;
                let cl = (10 + r.below(14) as usize).min(seg_len - lead - 1);
                let pos = start + lead;
                let cand: [i64; 12] = [0, 1, -1, 2, -2, 3, -3, 0, 0, 0, 0, 0];
                let vsel = r.below(12) as usize;
                let mut d: usize = if vsel < 8 && last_d > 0 {
                    (last_d as i64 + cand[vsel]).max(1) as usize
                } else {
                    [4usize, 11, 15, 16][r.below(4) as usize]
                };
                if d > pos {
                    d = pos.max(1);
                }
                if pos >= d {
                    for i in 0..cl {
                        v[pos + i] = v[pos + i - d];
                    }
                    SEGS.with(|g| g.borrow_mut().push_str(&format!("{}B:{}:{}:{},", j, cl, d, if vsel < 8 && last_d > 0 { cand[vsel].to_string() } else { "init".to_string() })));
                }
                let mut t = r.below(text.len() as u64) as usize;
                for i in (lead + cl)..seg_len {
                    v[start + i] = text[t % text.len()];
                    t += 1;
                }
            }
            j += 1;
        }
        v.truncate(len);
        return v;
    }
    match kind {
        "runs" => {
            let mut v = Vec::with_capacity(len);
            while v.len() < len {
                let b = (r.next() % 7) as u8 * 37;
                let l = 1 + (r.next() % (1 + r.below(2000))) as usize;
                for _ in 0..l {
                    v.push(b);
                }
            }
            v.truncate(len);
            v
        }
        "fib" => {
            // Fibonacci-skewed alphabet: symbol k with probability ~ 2^-k (depth-limited codes)
            (0..len)
                .map(|_| {
                    let x = r.next();
                    (x.trailing_zeros().min(40)) as u8
                })
                .collect()
        }
        "utf8" => {
            let parts: [&[u8]; 10] = [
                "é".as_bytes(), "ü".as_bytes(), "日本".as_bytes(), "語".as_bytes(), b" the ", b"Stra", "ße ".as_bytes(),
                "Ω".as_bytes(), b"ing ", b". The ",
            ];
            let mut v = Vec::with_capacity(len + 8);
            while v.len() < len {
                v.extend_from_slice(parts[r.below(10) as usize]);
            }
            v.truncate(len);
            v
        }
        "bin" => {
            // little-endian small signed 16-bit values (font-table like)
            let mut v = Vec::with_capacity(len + 2);
            let mut x: i32 = 0;
            while v.len() < len {
                x += (r.next() % 9) as i32 - 4;
                let w = x as i16 as u16;
                v.push(w as u8);
                v.push((w >> 8) as u8);
            }
            v.truncate(len);
            v
        }
        "html" => {
            let parts: [&[u8]; 14] = [
                b"<div class=\"", b"\">", b"</div>\n", b"<a href=\"http://www.", b".com/\">", b"</a>", b"the ", b"of the ", b"and ",
                b"information ", b"<span style=\"color:", b"</span>", b"javascript", b" international ",
            ];
            let mut v = Vec::with_capacity(len + 32);
            while v.len() < len {
                v.extend_from_slice(parts[r.below(14) as usize]);
            }
            v.truncate(len);
            v
        }
        _ => gen_data(kind, len, seed),
    }
}

// ---------------------------------------------------------------------------------- E
struct LScript {
    params: Vec<(u32, u32)>,
    data: Vec<u8>,
    calls: Vec<(u8, Option<usize>)>,
    caps: Vec<usize>,
    take: usize,
    nohex: bool,
}
fn parse_l(toks: &[&str]) -> LScript {
    let mut s = LScript { params: vec![], data: vec![], calls: vec![], caps: vec![1 << 16], take: 0, nohex: false };
    for t in toks {
        if let Some(p) = t.strip_prefix("P=") {
            for kv in p.split(',').filter(|x| !x.is_empty()) {
                let mut it = kv.split(':');
                let k: u32 = it.next().unwrap().parse().unwrap();
                let v: i64 = it.next().unwrap().parse().unwrap();
                s.params.push((k, v as u32));
            }
        } else if let Some(d) = t.strip_prefix("D=") {
            let f: Vec<&str> = d.split(':').collect();
            s.data = data_of(f[0], f[1].parse().unwrap(), f[2].parse().unwrap());
        } else if let Some(c) = t.strip_prefix("L=") {
            for call in c.split(',').filter(|x| !x.is_empty()) {
                let (h, rest) = call.split_at(1);
                let op = match h {
                    "p" => 0,
                    "f" => 1,
                    _ => 2,
                };
                s.calls.push((op, if rest == "R" { None } else { Some(rest.parse().unwrap()) }));
            }
        } else if let Some(c) = t.strip_prefix("CAPS=") {
            s.caps = c.split(',').filter(|x| !x.is_empty()).map(|x| x.parse().unwrap()).collect();
        } else if let Some(c) = t.strip_prefix("T=") {
            s.take = c.parse().unwrap();
        } else if *t == "NOHEX=1" {
            s.nohex = true;
        }
    }
    s
}

fn cfg_string(st: &BrotliEncoderStateStruct<StandardAlloc>) -> String {
    let p = &st.params;
    let rb = &st.ringbuffer_;
    format!(
        "{},{},{},{},{},{},{},{},{},{},{},{},{},{}",
        p.quality,
        p.lgwin,
        p.lgblock,
        p.dist.distance_postfix_bits,
        p.dist.num_direct_distance_codes,
        p.dist.alphabet_size,
        p.dist.max_distance,
        rb.size_,
        rb.mask_,
        rb.tail_size_,
        rb.total_size_,
        rb.pos_,
        p.hasher.type_,
        p.size_hint
    )
}

/// the ring-buffer statement checked on the real buffer: the last min(total, size) input bytes
/// are at their masked positions, the two bytes before the buffer mirror the last two of the
/// window, the tail mirrors the head, pos_ agrees with the total modulo the mask
fn rb_check(st: &BrotliEncoderStateStruct<StandardAlloc>, data: &[u8], total: usize) -> String {
    use alloc_no_stdlib::SliceWrapper;
    let rb = &st.ringbuffer_;
    if total == 0 || rb.data_mo.slice().is_empty() {
        return "na".to_string();
    }
    let buf = rb.data_mo.slice();
    let bi = rb.buffer_index;
    let size = rb.size_ as usize;
    let mask = rb.mask_ as usize;
    if (rb.pos_ as usize) & mask != total & mask {
        return format!("bad:pos_{}_total_{}", rb.pos_, total);
    }
    let span = total.min(size);
    for p in (total - span)..total {
        if buf[bi + (p & mask)] != data[p] {
            return format!("bad:data@{}", p);
        }
    }
    if rb.cur_size_ == rb.total_size_ {
        // tail mirror: bytes of the second and later laps that fall into the first tail_size_
        // positions are also at size_ + (p & mask) (the first lap's are not: nobody reads them there)
        let tail = rb.tail_size_ as usize;
        for p in (total - span).max(size)..total {
            let m = p & mask;
            if m < tail && buf[bi + size + m] != data[p] {
                return format!("bad:tail@{}", p);
            }
        }
        if buf[bi - 2] != buf[bi + size - 2] || buf[bi - 1] != buf[bi + size - 1] {
            return "bad:wrapbytes".to_string();
        }
    }
    "ok".to_string()
}

fn run_e(toks: &[&str]) -> String {
    let sc = parse_l(toks);
    let mut e = RustEnc::new(StandardAlloc::default());
    for (k, v) in &sc.params {
        e.set_param(*k, *v);
    }
    let lw = sc.params.iter().any(|(k, v)| *k == 6 && *v != 0);
    brotli::enc::encode::verif_trace::enable();
    let _ = brotli::enc::encode::verif_trace::take();
    let mut emitted: Vec<u8> = Vec::new();
    let mut cursor = 0usize;
    let mut ncalls = 0usize;
    let mut ci = 0usize;
    let mut status = "ok".to_string();
    let mut snaps: Vec<String> = Vec::new();
    let r = std::panic::catch_unwind(AssertUnwindSafe(|| {
        'outer: for (li, (op, chunk)) in sc.calls.iter().enumerate() {
            let end = match chunk {
                Some(n) => (cursor + *n).min(sc.data.len()),
                None => sc.data.len(),
            };
            let mut inbuf: &[u8] = &sc.data[cursor..end];
            cursor = end;
            let mut stall = 0usize;
            loop {
                let cap = if sc.take > 0 { 0 } else { sc.caps[ci % sc.caps.len()] };
                ci += 1;
                ncalls += 1;
                let (ret, consumed, produced, _) = e.stream(*op, inbuf, cap);
                if !ret {
                    status = format!("false@{}", li);
                    break 'outer;
                }
                emitted.extend_from_slice(&produced);
                inbuf = &inbuf[consumed..];
                let mut took = 0usize;
                if sc.take > 0 {
                    while e.more() {
                        let bs = e.take(sc.take);
                        took += bs.len();
                        emitted.extend_from_slice(&bs);
                        if bs.is_empty() {
                            break;
                        }
                    }
                }
                let done = inbuf.is_empty() && (*op == 0 || (!e.more() && took == 0 && (*op != 2 || e.finished())));
                if done {
                    if *op != 0 && !emitted.is_empty() {
                        let st = &e.st;
                        // everything handed over and emitted: the encoder's idea of the decoder's state
                        if st.last_flush_pos_ == st.input_pos_ {
                            snaps.push(format!(
                                "{}:{}.{}.{}.{}:{}.{}",
                                emitted.len(),
                                st.dist_cache_[0],
                                st.dist_cache_[1],
                                st.dist_cache_[2],
                                st.dist_cache_[3],
                                st.prev_byte_,
                                st.prev_byte2_
                            ));
                        }
                    }
                    break;
                }
                if consumed == 0 && produced.is_empty() && took == 0 {
                    stall += 1;
                    if stall > 3 {
                        status = format!("stall@{}", li);
                        break 'outer;
                    }
                } else {
                    stall = 0;
                }
                if ncalls > 20_000_000 {
                    status = format!("stall@{}", li);
                    break 'outer;
                }
            }
        }
    }));
    if let Err(err) = r {
        status = panic_msg(err);
    }
    let trace = brotli::enc::encode::verif_trace::take();
    let fin = if status.starts_with("PANIC") { false } else { e.finished() };
    if status == "ok" && !fin {
        status = "unfinished".to_string();
    }
    let data = &sc.data[..cursor];
    let cfg = cfg_string(&e.st);
    let rb = if status.starts_with("PANIC") { "na".to_string() } else { rb_check(&e.st, data, e.st.input_pos_ as usize) };
    // what the back ends did
    let nfast = trace.iter().filter(|t| t.fast).count();
    let mut rd = "na";
    let mut gd = "na";
    if fin {
        rd = judge(rust_decode(&emitted, true, data.len() + 16), data);
        gd = match google_decode(&emitted, lw, data.len() + 16) {
            Some(r) => judge(r, data),
            None => "na",
        };
    }
    format!(
        "R st={} fin={} n={} ih={} calls={} cfg={} rb={} tr={},{} rd={} gd={} rg={} sg={} out={}",
        status,
        fin as u8,
        data.len(),
        hash_bytes(0, data),
        ncalls,
        cfg,
        rb,
        trace.len(),
        nfast,
        rd,
        gd,
        if snaps.is_empty() {
            "-".to_string()
        } else {
            // at most 10 snapshots: the first five, the last five
            let k = snaps.len();
            let pick: Vec<&String> = snaps.iter().enumerate().filter(|(i, _)| *i < 5 || *i + 5 >= k).map(|(_, x)| x).collect();
            pick.iter().map(|x| x.as_str()).collect::<Vec<&str>>().join(";")
        },
        SEGS.with(|g| if g.borrow().is_empty() { "-".to_string() } else { g.borrow().clone() }),
        if sc.nohex || emitted.is_empty() { format!("-{}", emitted.len()) } else { hex(&emitted) }
    )
}

fn run_x(toks: &[&str]) -> String {
    let lw = toks[1] != "0";
    let data = unhex(toks.get(2).copied().unwrap_or("-"));
    let limit = 1usize << 26;
    let f = |r: (char, Vec<u8>)| -> String {
        match r.0 {
            'R' => "R".to_string(),
            c => format!("{}:{}:{}", c, r.1.len(), hash_bytes(0, &r.1)),
        }
    };
    let rd = f(rust_decode(&data, lw, limit));
    let gd = match google_decode(&data, lw, limit) {
        Some(r) => f(r),
        None => "na".to_string(),
    };
    format!("rd={} gd={}", rd, gd)
}

fn run_c(toks: &[&str]) -> String {
    let sc = parse_l(toks);
    let mut e = RustEnc::new(StandardAlloc::default());
    let mut rets = String::new();
    for (k, v) in &sc.params {
        rets.push(if e.set_param(*k, *v) { '1' } else { '0' });
    }
    e.st.copy_input_to_ring_buffer(0, &[]);
    format!("cfg={} set={}", cfg_string(&e.st), if rets.is_empty() { "-".to_string() } else { rets })
}

fn run_b(toks: &[&str]) -> String {
    // B <lgwin> <lgblock> <q> <n1,n2,..> <data hex>
    use alloc_no_stdlib::SliceWrapper;
    let mut e = RustEnc::new(StandardAlloc::default());
    let lgwin = toks[1].parse::<i64>().unwrap();
    if lgwin > 24 {
        e.set_param(6, 1);
    }
    e.set_param(2, lgwin as u32);
    e.set_param(3, toks[2].parse::<i64>().unwrap() as u32);
    e.set_param(1, toks[3].parse::<i64>().unwrap() as u32);
    let sizes: Vec<usize> = toks[4].split(',').filter(|x| !x.is_empty()).map(|x| x.parse().unwrap()).collect();
    let data = unhex(toks.get(5).copied().unwrap_or("-"));
    let mut cur = 0usize;
    let mut verdict = "ok".to_string();
    for n in sizes {
        e.st.copy_input_to_ring_buffer(n, &data[cur..cur + n]);
        cur += n;
        let v = rb_check(&e.st, &data, cur);
        if v.starts_with("bad") {
            verdict = format!("{}@total{}", v, cur);
            break;
        }
    }
    let rb = &e.st.ringbuffer_;
    let mut h = 0u64;
    if !rb.data_mo.slice().is_empty() {
        let span = cur.min(rb.size_ as usize);
        let buf = rb.data_mo.slice();
        for p in (cur - span)..cur {
            h = hmix(h, buf[rb.buffer_index + (p & rb.mask_ as usize)] as u64);
        }
    }
    format!("rb={} pos={} mask={} cur={} size={} tail={} chk={}", verdict, rb.pos_, rb.mask_, rb.cur_size_, rb.size_, rb.tail_size_, h)
}

// ---------------------------------------------------------------------------------- G
struct StreamDec {
    rust: BrotliState<StandardAlloc, StandardAlloc, StandardAlloc>,
    rust_ok: bool,
    rust_done: bool,
    rlen: u64,
    rhash: u64,
    g: Option<*mut u8>,
    g_ok: bool,
    g_done: bool,
    glen: u64,
    ghash: u64,
    buf: Vec<u8>,
}
impl StreamDec {
    fn new(lw: bool) -> StreamDec {
        let a = StandardAlloc::default;
        let g = google().and_then(|g| unsafe {
            let st = (g.create)(core::ptr::null(), core::ptr::null(), core::ptr::null());
            if st.is_null() {
                None
            } else {
                if lw {
                    (g.set_param)(st, 1, 1);
                }
                Some(st)
            }
        });
        StreamDec { rust: BrotliState::new(a(), a(), a()), rust_ok: true, rust_done: false, rlen: 0, rhash: 0, g, g_ok: true, g_done: false, glen: 0, ghash: 0, buf: vec![0u8; 1 << 20] }
    }
    fn feed(&mut self, data: &[u8]) {
        if self.rust_ok && !self.rust_done {
            let mut avail_in = data.len();
            let mut in_off = 0usize;
            loop {
                let mut avail_out = self.buf.len();
                let mut out_off = 0usize;
                let mut total = 0usize;
                let r = BrotliDecompressStream(&mut avail_in, &mut in_off, data, &mut avail_out, &mut out_off, &mut self.buf[..], &mut total, &mut self.rust);
                self.rlen += out_off as u64;
                self.rhash = hash_bytes(self.rhash, &self.buf[..out_off]);
                match r {
                    BrotliResult::NeedsMoreOutput => continue,
                    BrotliResult::NeedsMoreInput => break,
                    BrotliResult::ResultSuccess => {
                        self.rust_done = true;
                        if avail_in != 0 {
                            self.rust_ok = false;
                        }
                        break;
                    }
                    BrotliResult::ResultFailure => {
                        self.rust_ok = false;
                        break;
                    }
                }
            }
        } else if !data.is_empty() {
            self.rust_ok = false;
        }
        if let Some(st) = self.g {
            if self.g_ok && !self.g_done {
                let g = google().unwrap();
                let mut avail_in = data.len();
                let mut next_in: *const u8 = data.as_ptr();
                loop {
                    let mut avail_out = self.buf.len();
                    let mut next_out: *mut u8 = self.buf.as_mut_ptr();
                    let mut total = 0usize;
                    let r = unsafe { (g.stream)(st, &mut avail_in, &mut next_in, &mut avail_out, &mut next_out, &mut total) };
                    let produced = self.buf.len() - avail_out;
                    self.glen += produced as u64;
                    self.ghash = hash_bytes(self.ghash, &self.buf[..produced]);
                    match r {
                        3 => continue,
                        2 => break,
                        1 => {
                            self.g_done = true;
                            if avail_in != 0 {
                                self.g_ok = false;
                            }
                            break;
                        }
                        _ => {
                            self.g_ok = false;
                            break;
                        }
                    }
                }
            } else if !data.is_empty() {
                self.g_ok = false;
            }
        }
    }
}
fn run_g(toks: &[&str]) -> String {
    let q: u32 = toks[1].parse().unwrap();
    let lgwin: u32 = toks[2].parse().unwrap();
    let total: u64 = toks[3].parse().unwrap();
    let chunk: usize = toks[4].parse().unwrap();
    let seed: u64 = toks[5].parse().unwrap();
    let mut e = RustEnc::new(StandardAlloc::default());
    e.set_param(1, q);
    e.set_param(2, lgwin);
    if lgwin > 24 {
        e.set_param(6, 1);
    }
    let mut dec = StreamDec::new(lgwin > 24);
    let base = gen_data("text", chunk, seed);
    let mut rng = Rng::new(seed);
    let mut fed: u64 = 0;
    let mut ih: u64 = 0;
    let mut out_len: u64 = 0;
    let mut ok = true;
    let mut block = base.clone();
    let mut wraps_seen = 0u32;
    let mut last_pos = 0u32;
    'outer: while fed < total {
        let n = ((total - fed) as usize).min(chunk);
        // vary a few bytes per block so that blocks are similar but not identical
        for _ in 0..8 {
            let i = rng.below(chunk as u64) as usize;
            block[i] = rng.next() as u8;
        }
        let mut inbuf: &[u8] = &block[..n];
        ih = hash_bytes(ih, inbuf);
        fed += n as u64;
        while !inbuf.is_empty() {
            let (ret, consumed, produced, _) = e.stream(0, inbuf, 1 << 20);
            if !ret {
                ok = false;
                break 'outer;
            }
            inbuf = &inbuf[consumed..];
            out_len += produced.len() as u64;
            dec.feed(&produced);
        }
        let p = e.st.ringbuffer_.pos_;
        if p < last_pos {
            wraps_seen += 1;
        }
        last_pos = p;
    }
    let mut spins = 0;
    while ok && !e.finished() {
        let (ret, _, produced, _) = e.stream(2, &[], 1 << 20);
        if !ret {
            ok = false;
            break;
        }
        out_len += produced.len() as u64;
        dec.feed(&produced);
        spins += 1;
        if spins > 1000 {
            ok = false;
        }
    }
    let rd_ok = dec.rust_ok && dec.rust_done && dec.rlen == fed && dec.rhash == ih;
    let gd = match dec.g {
        Some(st) => {
            unsafe { (google().unwrap().destroy)(st) };
            if dec.g_ok && dec.g_done && dec.glen == fed && dec.ghash == ih {
                "ok"
            } else {
                "fail"
            }
        }
        None => "na",
    };
    format!(
        "ok={} in={} ih={} rd={} rlen={} gd={} glen={} out={} input_pos={} rbpos={} pos_resets={}",
        (ok && e.finished()) as u8,
        fed,
        ih,
        if rd_ok { "ok" } else { "fail" },
        dec.rlen,
        gd,
        dec.glen,
        out_len,
        e.st.input_pos_,
        e.st.ringbuffer_.pos_,
        wraps_seen
    )
}

fn main() {
    quiet_panics();
    serve(|t| {
        let r = guarded(AssertUnwindSafe(|| match t[0] {
            "E" => run_e(t),
            "X" => run_x(t),
            "C" => run_c(t),
            "B" => run_b(t),
            "G" => run_g(t),
            "W" => {
                let p: u64 = t[1].parse().unwrap();
                format!("{}", brotli::enc::encode::verif_wrap_position(p))
            }
            _ => "BADREQ".to_string(),
        }));
        match r {
            Ok(s) => s,
            Err(e) => e,
        }
    });
}
