// C05 harness: the same logical (operation, chunk) script driven with different output-buffer
// slicings, push vs take, allocators and entry points; prints a hash of the emitted bytes.
//   L P=.. D=.. G=p1000,f0,e0 O=17,1,300 | O=take:5  A=std|shift|ffi|fficustom
//   W P=.. D=.. E=writer|reader|copy|oneshot B=<buffer> K=<chunk>
use brotli::enc::backward_references::BrotliEncoderParams;
use brotli::enc::StandardAlloc;
use std::io::{Read, Write};
use vharness::streamlib::*;
use vharness::*;

// An allocator with the same contract as the std one but different addresses and capacities:
// every block is followed by a junk allocation of data-dependent size that is kept alive.
#[derive(Default)]
struct ShiftAlloc {
    inner: StandardAlloc,
    junk: Vec<Vec<u8>>,
    n: usize,
}
impl<T: Clone + Default> alloc_no_stdlib::Allocator<T> for ShiftAlloc
where
    StandardAlloc: alloc_no_stdlib::Allocator<T>,
{
    type AllocatedMemory = <StandardAlloc as alloc_no_stdlib::Allocator<T>>::AllocatedMemory;
    fn alloc_cell(&mut self, len: usize) -> Self::AllocatedMemory {
        self.n += 1;
        self.junk.push(vec![0xa5u8; 17 + (self.n * 7919) % 4099]);
        <StandardAlloc as alloc_no_stdlib::Allocator<T>>::alloc_cell(&mut self.inner, len)
    }
    fn free_cell(&mut self, data: Self::AllocatedMemory) {
        <StandardAlloc as alloc_no_stdlib::Allocator<T>>::free_cell(&mut self.inner, data)
    }
}
impl brotli::enc::combined_alloc::BrotliAlloc for ShiftAlloc {}

fn kv<'a>(t: &'a [&'a str], key: &str) -> Option<&'a str> {
    t.iter().find_map(|x| x.strip_prefix(key))
}
fn parse_params(p: &str) -> Vec<(u32, u32)> {
    p.split(',')
        .filter(|x| !x.is_empty())
        .map(|kv| {
            let mut it = kv.split(':');
            let k: u32 = it.next().unwrap().parse().unwrap();
            let v: i64 = it.next().unwrap().parse().unwrap();
            (k, v as u32)
        })
        .collect()
}
fn parse_data(d: &str) -> Vec<u8> {
    let f: Vec<&str> = d.split(':').collect();
    gen_data(f[0], f[1].parse().unwrap(), f[2].parse().unwrap())
}
fn req_hash() -> (u64, usize) {
    // the sequence of requests made to the compression back ends during this run
    let recs = brotli::enc::encode::verif_trace::take();
    let mut h = 0u64;
    for r in &recs {
        if r.out.is_empty() {
            // a request that found nothing to emit (e.g. a flush repeated after it completed)
            continue;
        }
        h = hash_str(h, &format!("{} {} {} {} {}", r.fast as u8, r.is_last as u8, r.force_flush as u8, r.block_size, r.input_pos));
    }
    (h, recs.len())
}
fn summary(emitted: &[u8], expect: &[u8], calls: usize, ok: bool) -> String {
    let (rh, rn) = req_hash();
    let s = summary0(emitted, expect, calls, ok);
    format!("{} REQ={} NREQ={}", s, rh, rn)
}
fn summary0(emitted: &[u8], expect: &[u8], calls: usize, ok: bool) -> String {
    let dec = match decode_all(emitted) {
        Some(d) => {
            if d == expect {
                "ok"
            } else {
                "fail"
            }
        }
        None => "fail",
    };
    format!("EM={} LEN={} DEC={} CALLS={} OK={}", hash_str(0, &hex(emitted)), emitted.len(), dec, calls, ok as u8)
}

fn run_l(t: &[&str]) -> String {
    let params = parse_params(kv(t, "P=").unwrap_or(""));
    let data = parse_data(kv(t, "D=").unwrap());
    let mut calls = Vec::new();
    let mut total_in = 0usize;
    for c in kv(t, "G=").unwrap().split(',').filter(|x| !x.is_empty()) {
        let (h, rest) = c.split_at(1);
        let op = match h {
            "p" => 0,
            "f" => 1,
            "e" => 2,
            _ => 3,
        };
        let n: usize = rest.parse().unwrap();
        if op != 3 {
            total_in += n;
        }
        calls.push((op, n));
    }
    let o = kv(t, "O=").unwrap_or("1048576");
    let (caps, take) = if let Some(n) = o.strip_prefix("take:") {
        (vec![0usize], n.parse().unwrap())
    } else {
        (o.split(',').map(|x| x.parse().unwrap()).collect(), 0usize)
    };
    let lg = Logical { params, data: data.clone(), calls, caps, take };
    let expect = &data[..total_in.min(data.len())];
    let (em, n, ok) = match kv(t, "A=").unwrap_or("std") {
        "shift" => run_logical(&mut RustEnc::new(ShiftAlloc::default()), &lg),
        "ffi" => run_logical(&mut cabi::CEnc::new(false), &lg),
        "fficustom" => run_logical(&mut cabi::CEnc::new(true), &lg),
        _ => run_logical(&mut RustEnc::new(StandardAlloc::default()), &lg),
    };
    summary(&em, expect, n, ok)
}

struct ChunkReader<'a> {
    d: &'a [u8],
    k: usize,
}
impl<'a> Read for ChunkReader<'a> {
    fn read(&mut self, buf: &mut [u8]) -> std::io::Result<usize> {
        let n = self.k.min(buf.len()).min(self.d.len());
        buf[..n].copy_from_slice(&self.d[..n]);
        self.d = &self.d[n..];
        Ok(n)
    }
}

fn run_w(t: &[&str]) -> String {
    let plist = parse_params(kv(t, "P=").unwrap_or(""));
    let data = parse_data(kv(t, "D=").unwrap());
    let b: usize = kv(t, "B=").unwrap_or("4096").parse().unwrap();
    let k: usize = kv(t, "K=").unwrap_or("4096").parse().unwrap();
    let mut params = BrotliEncoderParams::default();
    for (id, v) in &plist {
        brotli::enc::encode::set_parameter(&mut params, param_of(*id), *v);
    }
    let mut out: Vec<u8> = Vec::new();
    let mut ok = true;
    match kv(t, "E=").unwrap() {
        "writer" => {
            let mut w = brotli::CompressorWriter::with_params(&mut out, b, &params);
            for ch in data.chunks(k.max(1)) {
                if w.write_all(ch).is_err() {
                    ok = false;
                }
            }
            drop(w);
        }
        "reader" => {
            let mut r = brotli::CompressorReader::with_params(ChunkReader { d: &data, k: k.max(1) }, b, &params);
            let mut buf = vec![0u8; k.max(1)];
            loop {
                match r.read(&mut buf) {
                    Ok(0) => break,
                    Ok(n) => out.extend_from_slice(&buf[..n]),
                    Err(_) => {
                        ok = false;
                        break;
                    }
                }
            }
        }
        "copy" => {
            let mut rd = ChunkReader { d: &data, k: k.max(1) };
            if brotli::BrotliCompress(&mut rd, &mut out, &params).is_err() {
                ok = false;
            }
        }
        "oneshot" => {
            let q = plist.iter().find(|x| x.0 == 1).map(|x| x.1 as i32).unwrap_or(11);
            let w = plist.iter().find(|x| x.0 == 2).map(|x| x.1 as i32).unwrap_or(22);
            let cap = unsafe { brotli::ffi::compressor::BrotliEncoderMaxCompressedSize(data.len()) } + 1024;
            let mut buf = vec![0u8; cap];
            let mut sz = cap;
            use brotli::ffi::compressor::BrotliEncoderMode as M;
            let mode = match plist.iter().find(|x| x.0 == 0).map(|x| x.1).unwrap_or(0) {
                1 => M::BROTLI_MODE_TEXT,
                2 => M::BROTLI_MODE_FONT,
                3 => M::BROTLI_MODE_FORCE_LSB_PRIOR,
                4 => M::BROTLI_MODE_FORCE_MSB_PRIOR,
                5 => M::BROTLI_MODE_FORCE_UTF8_PRIOR,
                6 => M::BROTLI_MODE_FORCE_SIGNED_PRIOR,
                _ => M::BROTLI_MODE_GENERIC,
            };
            let r = unsafe {
                brotli::ffi::compressor::BrotliEncoderCompress(
                    q,
                    w,
                    mode,
                    data.len(),
                    data.as_ptr(),
                    &mut sz,
                    buf.as_mut_ptr(),
                )
            };
            ok = r != 0;
            out = buf[..sz.min(cap)].to_vec();
        }
        _ => ok = false,
    }
    summary(&out, &data, 0, ok)
}

fn main() {
    quiet_panics();
    brotli::enc::encode::verif_trace::enable();
    serve(|t| {
        let _ = brotli::enc::encode::verif_trace::take();
        let r = guarded(std::panic::AssertUnwindSafe(|| match t[0] {
            "L" => run_l(&t[1..]),
            "W" => run_w(&t[1..]),
            _ => "BADREQ".to_string(),
        }));
        match r {
            Ok(s) => s,
            Err(e) => e,
        }
    });
}
