// C07 harness: runs the real FixedQueue and the real WorkerPool (src/enc/worker_pool.rs) under
// controlled schedules through the cfg(brotli_verif) scheduler shim (src/enc/verif_sync.rs).
// Same line protocol and canonical answer format as ocaml/c07_driver.ml.
//
//   Q <op> <op> ...                         FixedQueue<u64> operation sequence
//        p<v> push v | o pop | r<k> remove first x with x % 8 == k | s size | c can_push | f free space
//   P <workers> <script> | <sched>          one run of the pool
//        script: B make_spawner | S<payload> spawn | J<k> join k-th spawned | U unwrap | D drop pool
//        sched : x <mv> <mv> ...  explicit moves (t<tid> / w<tid> = spurious wake of tid), then lowest tid first
//                <policy> <seed> <spur>    policy in u n s k r (see choose()), spurious wake probability spur/64
//   E <workers> <script> | <spur_budget> <max_traces> <red 0|1> <mv> <mv> ...
//        every schedule extending the explicit prefix (depth-first, re-executing the pool)
//
// Thread ids: 0 = submitter, 1..workers = pool threads in creation order.  A job body has
// two yield points (before it runs, before it returns) so that Holding -> Ran -> Dropped of the
// model are separate moves of the real thread.
#![allow(deprecated)]
use brotli::enc::fixed_queue::FixedQueue;
use brotli::enc::threading::{
    BatchSpawnableLite, InternalSendAlloc, Joinable, Owned, OwnedRetriever, SendAlloc,
};
use brotli::enc::verif_sync as vs;
use brotli::enc::verif_sync::{Controller, Event};
use brotli::enc::worker_pool::WorkerJoinable;
use brotli::enc::{StandardAlloc, WorkerPool};
use core::marker::PhantomData;
use std::panic::{catch_unwind, AssertUnwindSafe};
use std::sync::atomic::{AtomicBool, AtomicUsize, Ordering};
use std::sync::{Arc, Condvar, Mutex, MutexGuard, RwLock, Weak};
use std::time::Duration;
use vharness::*;

// ------------------------------------------------------------------------------- FixedQueue

fn run_queue(toks: &[&str]) -> String {
    let ops: Vec<String> = toks.iter().map(|s| s.to_string()).collect();
    match guarded(move || {
        let mut q: FixedQueue<u64> = FixedQueue::new();
        let mut out: Vec<String> = Vec::new();
        for op in ops.iter() {
            let (c, rest) = op.split_at(1);
            match c {
                "p" => {
                    let v: u64 = rest.parse().unwrap();
                    out.push(match q.push(v) {
                        Ok(()) => "p:ok".to_string(),
                        Err(()) => "p:err".to_string(),
                    });
                }
                "o" => out.push(match q.pop() {
                    Some(v) => format!("o:{}", v),
                    None => "o:-".to_string(),
                }),
                "r" => {
                    let k: u64 = rest.parse().unwrap();
                    let r = q.remove(|x: &Option<u64>| match *x {
                        Some(v) => v % 8 == k,
                        None => false,
                    });
                    out.push(match r {
                        Some(v) => format!("r:{}", v),
                        None => "r:-".to_string(),
                    });
                }
                "s" => out.push(format!("s:{}", q.size())),
                "c" => out.push(format!("c:{}", q.can_push() as u8)),
                "f" => out.push(format!("f:{}", q.how_much_free_space())),
                _ => out.push("?".to_string()),
            }
        }
        out.join(",")
    }) {
        Ok(s) => s,
        Err(e) => e,
    }
}

// ------------------------------------------------------------------------------- controller

#[derive(Clone, Copy, PartialEq, Debug)]
enum St {
    Running,
    Blocked(Event),
    Exited,
}
struct Th {
    st: St,
    notified: bool,
    go: bool,
}
struct Shared {
    th: Vec<Th>,
    obs: [u64; 4],
    did_notify: bool,
    woken: Vec<usize>,
    events: Vec<String>,
    weak: Option<Weak<RwLock<Vec<u64>>>>,
    abort: bool,
    panicked: Option<String>,
}
struct Ctl {
    m: Mutex<Shared>,
    cv: Condvar,
}
impl Ctl {
    fn log(&self, s: String) {
        self.m.lock().unwrap().events.push(s);
    }
}
impl Controller for Ctl {
    fn new_thread(&self, _parent: usize) -> usize {
        let mut g = self.m.lock().unwrap();
        g.th.push(Th {
            st: St::Running,
            notified: false,
            go: false,
        });
        g.th.len() - 1
    }
    fn report(&self, tid: usize, ev: Event) {
        let mut g = self.m.lock().unwrap();
        match ev {
            Event::Release(o) => g.obs = o,
            Event::NotifyAll => {
                g.did_notify = true;
                let mut woken = Vec::new();
                for (i, t) in g.th.iter_mut().enumerate() {
                    if let St::Blocked(Event::Wait(_)) = t.st {
                        if !t.notified {
                            t.notified = true;
                            woken.push(i);
                        }
                    }
                }
                g.woken.extend(woken);
            }
            Event::Panicked => {
                // a pool thread unwinds: either a job body panicked (announced by the job) or
                // the pool code itself did
                if !JOB_PANICS.swap(false, Ordering::SeqCst) && g.panicked.is_none() {
                    g.panicked = Some("PANIC(pool code panicked in a worker thread)".to_string());
                }
            }
            Event::Exit => {
                g.th[tid].st = St::Exited;
                self.cv.notify_all();
            }
            _ => {}
        }
    }
    fn block(&self, tid: usize, ev: Event) {
        let mut g = self.m.lock().unwrap();
        if let Event::Wait(o) = ev {
            g.obs = o;
            g.th[tid].notified = false;
        }
        g.th[tid].st = St::Blocked(ev);
        self.cv.notify_all();
        loop {
            if g.abort {
                // the run was abandoned (deadlock / panic of the pool): this thread is leaked
                drop(g);
                loop {
                    std::thread::park();
                }
            }
            if g.th[tid].go {
                break;
            }
            g = self.cv.wait(g).unwrap();
        }
        g.th[tid].go = false;
    }
}

// ------------------------------------------------------------------------------- the jobs

const SALT: u64 = 777;
const MAXJOBS: usize = 1024;
const PANIC_BIT: u64 = 1 << 40;
static EXEC: [AtomicUsize; MAXJOBS] = {
    const Z: AtomicUsize = AtomicUsize::new(0);
    [Z; MAXJOBS]
};

static JOB_PANICS: AtomicBool = AtomicBool::new(false);

pub fn job_value(payload: u64) -> u64 {
    hmix(hmix(12345, SALT), payload)
}

fn job(payload: u64, index: usize, _thread_size: usize, data: &Vec<u64>, _alloc: StandardAlloc) -> u64 {
    vs::yield_point(1); // Holding: the body has not run yet
    EXEC[index % MAXJOBS].fetch_add(1, Ordering::SeqCst);
    if payload & PANIC_BIT != 0 {
        JOB_PANICS.store(true, Ordering::SeqCst);
        panic!("job body panics");
    }
    let v = hmix(hmix(12345, data[0]), payload);
    vs::yield_point(2); // Ran: about to return (the caller then drops its Arc clone)
    v
}

#[derive(Clone, Debug)]
enum Op {
    B,
    S(u64),
    J(usize),
    U,
    D,
}

fn parse_script(s: &str) -> Option<Vec<Op>> {
    let mut v = Vec::new();
    for t in s.split(',') {
        if t.is_empty() {
            continue;
        }
        let (c, rest) = t.split_at(1);
        v.push(match c {
            "B" => Op::B,
            "S" => Op::S(rest.parse().ok()?),
            "J" => Op::J(rest.parse().ok()?),
            "U" => Op::U,
            "D" => Op::D,
            _ => return None,
        });
    }
    Some(v)
}

type Pool = WorkerPool<u64, u64, StandardAlloc, Vec<u64>>;
type JoinH = WorkerJoinable<u64, u64, StandardAlloc, Vec<u64>>;

fn submitter(ctl: Arc<Ctl>, nworkers: usize, ops: Vec<Op>) {
    vs::enter(ctl.clone(), 0);
    let mut pool: Option<Pool> = Some(WorkerPool::new(nworkers));
    let mut fin: Option<Arc<RwLock<Vec<u64>>>> = None;
    let mut handles: Vec<Option<JoinH>> = Vec::new();
    let r = catch_unwind(AssertUnwindSafe(|| {
        for op in ops.iter() {
            match *op {
                Op::B => {
                    vs::yield_point(10);
                    let mut owned = Owned::new(vec![SALT]);
                    let h = pool.as_mut().unwrap().make_spawner(&mut owned);
                    ctl.m.lock().unwrap().weak = Some(Arc::downgrade(&h));
                    fin = Some(h);
                    ctl.log("B".to_string());
                }
                Op::S(payload) => {
                    let ord = handles.len();
                    let mut work: SendAlloc<u64, u64, StandardAlloc, JoinH> =
                        SendAlloc::new(StandardAlloc::default(), payload);
                    pool.as_mut()
                        .unwrap()
                        .spawn(fin.as_mut().unwrap(), &mut work, ord, 1, job);
                    match core::mem::replace(
                        &mut work.0,
                        InternalSendAlloc::SpawningOrJoining(PhantomData),
                    ) {
                        InternalSendAlloc::Join(j) => handles.push(Some(j)),
                        _ => panic!("spawn did not leave a join handle"),
                    }
                    ctl.log(format!("S{}", ord));
                }
                Op::J(k) => {
                    let h = handles[k].take().unwrap();
                    match h.join() {
                        Ok(v) => ctl.log(format!("J{}={}", k, v)),
                        Err(_) => ctl.log(format!("J{}=ERR", k)),
                    }
                }
                Op::U => {
                    vs::yield_point(11);
                    let h = fin.take().unwrap();
                    match OwnedRetriever::unwrap(h) {
                        Ok(v) => ctl.log(format!("U=ok{}", v[0])),
                        Err(_) => ctl.log("U=err".to_string()),
                    }
                }
                Op::D => {
                    drop(pool.take());
                    ctl.log("D".to_string());
                }
            }
        }
        // a script that does not end with D: the pool is dropped here all the same
        drop(pool.take());
    }));
    if let Err(e) = r {
        // the pool code panicked in the submitting thread (mutex poisoned): abandon the run
        let msg = panic_msg(e);
        core::mem::forget(pool);
        core::mem::forget(handles);
        core::mem::forget(fin);
        let mut g = ctl.m.lock().unwrap();
        g.panicked = Some(msg);
        drop(g);
    }
    vs::leave();
}

// ------------------------------------------------------------------------------- scheduler

#[derive(Clone, Copy, PartialEq, Debug)]
enum Mv {
    T(usize),
    W(usize),
}
impl Mv {
    fn show(&self) -> String {
        match *self {
            Mv::T(t) => format!("t{}", t),
            Mv::W(t) => format!("w{}", t),
        }
    }
    fn parse(s: &str) -> Option<Mv> {
        let (c, r) = s.split_at(1);
        let t: usize = r.parse().ok()?;
        match c {
            "t" => Some(Mv::T(t)),
            "w" => Some(Mv::W(t)),
            _ => None,
        }
    }
}

struct View<'a> {
    step: usize,
    enabled: &'a [usize],
    spur: &'a [usize],
    last: Option<Mv>,
    last_notified: bool,
    woken: &'a [usize],
    /// lowest enabled pool thread that sits at a purely local step (job body about to run, or
    /// notified inside wait): such a step commutes with every other move
    local: Option<usize>,
}

struct RunOut {
    sched: Vec<Mv>,
    steps: Vec<String>,
    exec: Vec<usize>,
    end: String,
    nopts: Vec<usize>, // number of options at each step (for the depth-first enumeration)
}

fn status_char(t: &Th) -> String {
    match t.st {
        St::Running => "R".to_string(),
        St::Exited => "X".to_string(),
        St::Blocked(Event::Acquire) => "A".to_string(),
        St::Blocked(Event::Wait(_)) => {
            if t.notified {
                "W".to_string()
            } else {
                "w".to_string()
            }
        }
        St::Blocked(Event::Join(c)) => format!("J{}", c),
        St::Blocked(Event::User(c)) => format!("U{}", c),
        St::Blocked(_) => "?".to_string(),
    }
}

fn enabled_of(g: &Shared) -> (Vec<usize>, Vec<usize>) {
    let mut en = Vec::new();
    let mut sp = Vec::new();
    for (i, t) in g.th.iter().enumerate() {
        match t.st {
            St::Blocked(Event::Acquire) | St::Blocked(Event::User(_)) => en.push(i),
            St::Blocked(Event::Wait(_)) => {
                if t.notified {
                    en.push(i)
                } else {
                    sp.push(i)
                }
            }
            St::Blocked(Event::Join(c)) => {
                if c < g.th.len() && g.th[c].st == St::Exited {
                    en.push(i)
                }
            }
            _ => {}
        }
    }
    (en, sp)
}

fn quiesce<'a>(ctl: &'a Ctl) -> Result<MutexGuard<'a, Shared>, ()> {
    let mut g = ctl.m.lock().unwrap();
    let mut waited = 0u32;
    while g.th.iter().any(|t| t.st == St::Running) {
        let (g2, to) = ctl.cv.wait_timeout(g, Duration::from_millis(500)).unwrap();
        g = g2;
        if to.timed_out() {
            waited += 1;
            if waited > 60 {
                return Err(()); // a thread runs without reaching a yield point: machinery failure
            }
        }
    }
    Ok(g)
}

fn record(g: &mut Shared, mv: &str) -> String {
    let st: Vec<String> = g.th.iter().map(status_char).collect();
    let (en, _sp) = enabled_of(g);
    let mut mask = 0u64;
    for t in en.iter() {
        mask |= 1 << t;
    }
    // once every thread has exited the submitter's locals (spawner Arc, join handles, queue) are being
    // torn down by the harness itself: no count is reported for that last record
    let all_exited = g.th.iter().all(|t| t.st == St::Exited);
    let strong = match g.weak {
        Some(ref w) if !all_exited => format!("{}", w.strong_count()),
        _ => "-".to_string(),
    };
    let ev = if g.events.is_empty() {
        "-".to_string()
    } else {
        g.events.join("+")
    };
    let s = format!(
        "{}|{}|{}|{},{},{},{}|{}|{:x}|{}",
        mv,
        st.join("."),
        if g.did_notify { "N" } else { "-" },
        g.obs[0],
        g.obs[1],
        g.obs[2],
        g.obs[3],
        strong,
        mask,
        ev
    );
    g.events.clear();
    s
}

const MAXSTEPS: usize = 20000;

fn run_pool(nworkers: usize, ops: &[Op], choose: &mut dyn FnMut(&View) -> Option<Mv>) -> RunOut {
    for e in EXEC.iter() {
        e.store(0, Ordering::SeqCst);
    }
    let njobs = ops.iter().filter(|o| matches!(o, Op::S(_))).count();
    let ctl = Arc::new(Ctl {
        m: Mutex::new(Shared {
            th: vec![Th {
                st: St::Running,
                notified: false,
                go: false,
            }],
            obs: [0; 4],
            did_notify: false,
            woken: Vec::new(),
            events: Vec::new(),
            weak: None,
            abort: false,
            panicked: None,
        }),
        cv: Condvar::new(),
    });
    let c2 = ctl.clone();
    let ops2: Vec<Op> = ops.to_vec();
    let sub = std::thread::spawn(move || submitter(c2, nworkers, ops2));
    let mut out = RunOut {
        sched: Vec::new(),
        steps: Vec::new(),
        exec: Vec::new(),
        end: String::new(),
        nopts: Vec::new(),
    };
    let mut last: Option<Mv> = None;
    let mut clean = false;
    loop {
        let mut g = match quiesce(&ctl) {
            Ok(g) => g,
            Err(()) => {
                out.end = "HANG".to_string();
                ctl.m.lock().unwrap().abort = true;
                break;
            }
        };
        let mvs = match last {
            None => "init".to_string(),
            Some(m) => m.show(),
        };
        let rec = record(&mut g, &mvs);
        out.steps.push(rec);
        if let Some(msg) = g.panicked.clone() {
            out.end = msg;
            g.abort = true;
            ctl.cv.notify_all();
            break;
        }
        if g.th.iter().all(|t| t.st == St::Exited) {
            out.end = "ok".to_string();
            clean = true;
            break;
        }
        let (en, sp) = enabled_of(&g);
        if en.is_empty() {
            out.end = "DEADLOCK".to_string();
            g.abort = true;
            ctl.cv.notify_all();
            break;
        }
        if out.sched.len() >= MAXSTEPS {
            out.end = "MAXSTEPS".to_string();
            g.abort = true;
            ctl.cv.notify_all();
            break;
        }
        let woken = g.woken.clone();
        let local = en.iter().cloned().find(|t| {
            *t > 0
                && match g.th[*t].st {
                    St::Blocked(Event::User(1)) => true,
                    St::Blocked(Event::Wait(_)) => g.th[*t].notified,
                    _ => false,
                }
        });
        let view = View {
            step: out.sched.len(),
            enabled: &en,
            spur: &sp,
            last,
            last_notified: g.did_notify,
            woken: &woken,
            local,
        };
        let mv = match choose(&view) {
            Some(m) => m,
            None => Mv::T(en[0]),
        };
        out.nopts.push(en.len() + sp.len());
        g.did_notify = false;
        g.woken.clear();
        match mv {
            Mv::W(t) => {
                g.th[t].notified = true;
            }
            Mv::T(t) => {
                g.th[t].go = true;
                g.th[t].st = St::Running;
                ctl.cv.notify_all();
            }
        }
        out.sched.push(mv);
        last = Some(mv);
    }
    if clean {
        let _ = sub.join();
    }
    out.exec = (0..njobs.min(MAXJOBS))
        .map(|i| EXEC[i].load(Ordering::SeqCst))
        .collect();
    out
}

fn render(o: &RunOut) -> String {
    let sched: Vec<String> = o.sched.iter().map(|m| m.show()).collect();
    let exec: Vec<String> = o.exec.iter().map(|c| c.to_string()).collect();
    format!(
        "sched={};steps={};exec={};end={}",
        sched.join(" "),
        o.steps.join(";"),
        exec.join(","),
        o.end
    )
}

/// Explicit prefix, then a policy.
struct Chooser {
    explicit: Vec<Mv>,
    policy: char,
    rng: Rng,
    spur: u64,
    bad: Option<usize>,
}
impl Chooser {
    fn choose(&mut self, v: &View) -> Option<Mv> {
        if v.step < self.explicit.len() {
            let m = self.explicit[v.step];
            let ok = match m {
                Mv::T(t) => v.enabled.contains(&t),
                Mv::W(t) => v.spur.contains(&t),
            };
            if ok {
                return Some(m);
            }
            if self.bad.is_none() {
                self.bad = Some(v.step);
            }
            return None;
        }
        if self.bad.is_some() {
            return None;
        }
        let en = v.enabled;
        if !v.spur.is_empty() && self.spur > 0 && self.rng.below(64) < self.spur {
            return Some(Mv::W(v.spur[self.rng.below(v.spur.len() as u64) as usize]));
        }
        let uniform = |r: &mut Rng| Mv::T(en[r.below(en.len() as u64) as usize]);
        let pick = |r: &mut Rng, c: Vec<usize>| -> Option<Mv> {
            if c.is_empty() {
                None
            } else {
                Some(Mv::T(c[r.below(c.len() as u64) as usize]))
            }
        };
        match self.policy {
            // uniform over the enabled threads
            'u' => Some(uniform(&mut self.rng)),
            // switch right after notify_all to a thread it woke; otherwise stay on the same thread
            'n' => {
                if v.last_notified {
                    let c: Vec<usize> = v.woken.iter().cloned().filter(|t| en.contains(t)).collect();
                    if let Some(m) = pick(&mut self.rng, c) {
                        if self.rng.below(8) != 0 {
                            return Some(m);
                        }
                    }
                }
                if let Some(Mv::T(t)) = v.last {
                    if en.contains(&t) && self.rng.below(4) != 0 {
                        return Some(Mv::T(t));
                    }
                }
                Some(uniform(&mut self.rng))
            }
            // submitter first: queues fill up before the workers run
            's' => {
                if en.contains(&0) && self.rng.below(8) != 0 {
                    Some(Mv::T(0))
                } else {
                    Some(uniform(&mut self.rng))
                }
            }
            // workers first: every worker is inside wait when the next submission arrives
            'k' => {
                let c: Vec<usize> = en.iter().cloned().filter(|t| *t != 0).collect();
                if !c.is_empty() && self.rng.below(8) != 0 {
                    pick(&mut self.rng, c)
                } else {
                    Some(uniform(&mut self.rng))
                }
            }
            // sticky: long runs of one thread
            'r' => {
                if let Some(Mv::T(t)) = v.last {
                    if en.contains(&t) && self.rng.below(8) != 0 {
                        return Some(Mv::T(t));
                    }
                }
                Some(uniform(&mut self.rng))
            }
            _ => None, // lowest enabled tid
        }
    }
}

fn cmd_pool(toks: &[&str]) -> String {
    // P <workers> <script> | <sched...>
    if toks.len() < 4 || toks[3] != "|" {
        return "BADREQ".to_string();
    }
    let nworkers: usize = match toks[1].parse() {
        Ok(n) => n,
        Err(_) => return "BADREQ".to_string(),
    };
    let ops = match parse_script(toks[2]) {
        Some(o) => o,
        None => return "BADREQ".to_string(),
    };
    let rest = &toks[4..];
    let mut ch = Chooser {
        explicit: Vec::new(),
        policy: 'l',
        rng: Rng::new(1),
        spur: 0,
        bad: None,
    };
    if !rest.is_empty() && rest[0] == "x" {
        for t in &rest[1..] {
            match Mv::parse(t) {
                Some(m) => ch.explicit.push(m),
                None => return "BADREQ".to_string(),
            }
        }
    } else if rest.len() == 3 {
        ch.policy = rest[0].chars().next().unwrap_or('u');
        ch.rng = Rng::new(rest[1].parse().unwrap_or(1));
        ch.spur = rest[2].parse().unwrap_or(0);
    } else if !rest.is_empty() {
        return "BADREQ".to_string();
    }
    let o = run_pool(nworkers, &ops, &mut |v| ch.choose(v));
    let mut s = render(&o);
    if let Some(k) = ch.bad {
        s.push_str(&format!(";badsched={}", k));
    }
    s
}

fn cmd_explore(toks: &[&str]) -> String {
    // E <workers> <script> | <spur_budget> <max_traces> <red> <prefix...>
    if toks.len() < 7 || toks[3] != "|" {
        return "BADREQ".to_string();
    }
    let nworkers: usize = toks[1].parse().unwrap_or(1);
    let ops = match parse_script(toks[2]) {
        Some(o) => o,
        None => return "BADREQ".to_string(),
    };
    let budget: usize = toks[4].parse().unwrap_or(0);
    let max_traces: usize = toks[5].parse().unwrap_or(1);
    let red = toks[6] == "1";
    let mut prefix = Vec::new();
    for t in &toks[7..] {
        match Mv::parse(t) {
            Some(m) => prefix.push(m),
            None => return "BADREQ".to_string(),
        }
    }
    let mut path: Vec<usize> = Vec::new(); // choice index at each depth beyond the prefix
    let mut out: Vec<String> = Vec::new();
    let mut complete = true;
    let mut bad = false;
    let mut aborted = 0usize;
    loop {
        let mut used = 0usize;
        let mut counts: Vec<usize> = Vec::new();
        let mut badstep = false;
        let o = {
            let p = &path;
            let pre = &prefix;
            run_pool(nworkers, &ops, &mut |v: &View| {
                // options: enabled threads ascending, then (budget permitting) spurious wake-ups;
                // with the reduction a thread at a purely local step runs first and alone
                let mut opts: Vec<Mv> = Vec::new();
                match (red, v.local) {
                    (true, Some(t)) => opts.push(Mv::T(t)),
                    _ => {
                        opts.extend(v.enabled.iter().map(|t| Mv::T(*t)));
                        if used < budget {
                            opts.extend(v.spur.iter().map(|t| Mv::W(*t)));
                        }
                    }
                }
                counts.push(opts.len());
                let m = if v.step < pre.len() {
                    if opts.contains(&pre[v.step]) {
                        pre[v.step]
                    } else {
                        badstep = true;
                        opts[0]
                    }
                } else {
                    let d = v.step - pre.len();
                    let c = if d < p.len() { p[d] } else { 0 };
                    opts[c.min(opts.len() - 1)]
                };
                if let Mv::W(_) = m {
                    used += 1;
                }
                Some(m)
            })
        };
        if badstep {
            bad = true;
        }
        let line = render(&o);
        let sched: Vec<String> = o.sched.iter().map(|m| m.show()).collect();
        out.push(format!("{}#{}#{}", sched.join(" "), hash_str(0, &line), o.end));
        if o.end != "ok" {
            aborted += 1;
        }
        // extend path to the full length of this run (choices beyond it were 0)
        let depth = o.sched.len().saturating_sub(prefix.len());
        while path.len() < depth {
            path.push(0);
        }
        path.truncate(depth);
        // backtrack
        let mut advanced = false;
        while let Some(c) = path.pop() {
            let k = prefix.len() + path.len();
            if k < counts.len() && c + 1 < counts[k] {
                path.push(c + 1);
                advanced = true;
                break;
            }
        }
        if !advanced {
            break;
        }
        if out.len() >= max_traces || bad {
            complete = false;
            break;
        }
        if aborted >= 40 {
            // every abandoned run leaks its threads: stop early
            complete = false;
            break;
        }
    }
    format!(
        "n={};complete={};bad={};{}",
        out.len(),
        complete as u8,
        bad as u8,
        out.join(";")
    )
}

fn main() {
    quiet_panics();
    serve(|t| match t[0] {
        "Q" => run_queue(&t[1..]),
        "P" => cmd_pool(t),
        "PH" => {
            let l = cmd_pool(t);
            let end = l.rsplit("end=").next().unwrap_or("?").to_string();
            format!("{}#{}", hash_str(0, &l), end)
        }
        "E" => cmd_explore(t),
        "V" => match t.get(1).and_then(|x| x.parse::<u64>().ok()) {
            Some(p) => format!("{}", job_value(p)),
            None => "BADREQ".to_string(),
        },
        _ => "BADREQ".to_string(),
    });
}
