// C08 harness: the advertised maximum compressed size and everything that is supposed to
// stay below it.  Same line protocol as ocaml/c08_driver.ml.
//
//   M <n>                      BrotliEncoderMaxCompressedSize(n):  "R=<v> F=<v>"  (Rust fn, C ABI fn)
//   MM <n> <t>                 BrotliEncoderMaxCompressedSizeMulti(n, t)
//   U <input>                  MakeUncompressedStream (hook): "len=<L> h=<hash of the bytes> [hex=<bytes> if L <= 600] dec=<ok|fail>"
//   C <api> <q> <lgwin> <mode> <input> <buf>
//        one-shot BrotliEncoderCompress, api R (enc::encode::BrotliEncoderCompress) or F (C ABI);
//        buf = absolute size, or B / B-k / B+k relative to BrotliEncoderMaxCompressedSize(len),
//        or S / S-k / S+k relative to the size of the stored stream for this input
//        "ret=<0|1> size=<encoded_size> buf=<b> bound=<B> guard=<ok|BROKEN> dec=<ok|fail|na> fb=<0|1>
//         inner=<result>,<finished>,<total_out>|na"
//        guard: 64 canary bytes behind the buffer are intact (C ABI) ; fb: output equals the stored stream ;
//        inner: the stream call encoder_compress makes, reproduced through the public API (not for quality 10)
//   T <q> <lgwin> <lw> <cat> <app> <magic> <hint> <lgblock> <input> <feed>
//        streaming encoder, never flushed; feed = a (one FINISH call) | c<k> (PROCESS k bytes per call, then FINISH)
//        "total=<emitted> bound=<B> dec=<ok|fail> recs=<n> | <bytes>:<out>:<carry bits>:<is_last> ..."
//        one record per encode_data call (trace hook): input bytes flushed by it, bytes it put
//        into storage (whole bytes), bits carried over, is_last
//   input = <kind>:<len>:<seed>, kind r (PRNG bytes) t (text) z (run of one byte) p (byte i = (7 i + seed) mod 256)
#![allow(deprecated)]
use brotli::enc::backward_references::BrotliEncoderMode;
use brotli::enc::encode::{
    verif_make_uncompressed_stream, verif_trace, BrotliEncoderCompress, BrotliEncoderMaxCompressedSize,
    BrotliEncoderMaxCompressedSizeMulti, BrotliEncoderOperation, BrotliEncoderParameter,
    BrotliEncoderStateStruct,
};
use brotli::enc::StandardAlloc;
use brotli::ffi::compressor as ffi;
use brotli_decompressor::{BrotliDecompressStream, BrotliResult, BrotliState};
use vharness::*;

fn make_input(spec: &str) -> Vec<u8> {
    let t: Vec<&str> = spec.split(':').collect();
    let kind = t[0];
    let len: usize = t.get(1).map(|s| s.parse().unwrap()).unwrap_or(0);
    let seed: u64 = t.get(2).map(|s| s.parse().unwrap()).unwrap_or(1);
    let mut r = Rng::new(seed);
    let mut v = Vec::with_capacity(len + 16);
    match kind {
        "r" => {
            while v.len() < len {
                let x = r.next();
                v.extend_from_slice(&x.to_le_bytes());
            }
        }
        "t" => {
            let words: [&[u8]; 10] = [
                b"the ", b"bound ", b"of ", b"a ", b"compressed ", b"stream ", b"is ", b"advertised ", b"in ",
                b"bytes, ",
            ];
            while v.len() < len {
                v.extend_from_slice(words[r.below(10) as usize]);
            }
        }
        "z" => {
            v.resize(len, seed as u8);
        }
        _ => {
            for i in 0..len {
                v.push(((7 * i as u64 + seed) & 255) as u8);
            }
        }
    }
    v.truncate(len);
    v
}

fn hash_bytes(b: &[u8]) -> u64 {
    let mut h = 0u64;
    for x in b {
        h = hmix(h, *x as u64);
    }
    h
}

fn decode_ok(data: &[u8], expect: &[u8]) -> bool {
    let mut st: BrotliState<StandardAlloc, StandardAlloc, StandardAlloc> =
        BrotliState::new(StandardAlloc::default(), StandardAlloc::default(), StandardAlloc::default());
    let mut out: Vec<u8> = Vec::with_capacity(expect.len() + 16);
    let mut buf = vec![0u8; 1 << 18];
    let mut avail_in = data.len();
    let mut in_off = 0usize;
    let mut steps = 0usize;
    loop {
        steps += 1;
        if steps > 1_000_000 {
            return false;
        }
        let mut avail_out = buf.len();
        let mut out_off = 0usize;
        let mut total = 0usize;
        let r = BrotliDecompressStream(
            &mut avail_in, &mut in_off, data, &mut avail_out, &mut out_off, &mut buf[..], &mut total, &mut st,
        );
        out.extend_from_slice(&buf[..out_off]);
        if out.len() > expect.len() {
            return false;
        }
        match r {
            BrotliResult::ResultSuccess => return avail_in == 0 && out == expect,
            BrotliResult::NeedsMoreOutput => continue,
            _ => return false,
        }
    }
}

fn f_max(n: usize) -> String {
    let r = guarded(move || BrotliEncoderMaxCompressedSize(n));
    match r {
        Ok(v) => {
            let f = ffi::BrotliEncoderMaxCompressedSize(n);
            format!("R={} F={}", v, f)
        }
        Err(e) => format!("R={} F=skipped", e),
    }
}
fn f_max_multi(n: usize, t: usize) -> String {
    let r = guarded(move || BrotliEncoderMaxCompressedSizeMulti(n, t));
    match r {
        Ok(v) => {
            let f = brotli::ffi::multicompress::BrotliEncoderMaxCompressedSizeMulti(n, t);
            format!("R={} F={}", v, f)
        }
        Err(e) => format!("R={} F=skipped", e),
    }
}

fn stored(input: &[u8]) -> Result<Vec<u8>, String> {
    let inp = input.to_vec();
    guarded(move || {
        let mut out = vec![0u8; inp.len() + (inp.len() >> 14) * 4 + 64];
        let n = verif_make_uncompressed_stream(&inp, &mut out[..]);
        out.truncate(n);
        out
    })
}

fn f_stored(spec: &str) -> String {
    let input = make_input(spec);
    match stored(&input) {
        Err(e) => e,
        Ok(out) => {
            let mut s = format!("len={} h={}", out.len(), hash_bytes(&out));
            if out.len() <= 600 {
                s.push_str(&format!(" hex={}", hex(&out)));
            }
            let o = out.clone();
            let i = input.clone();
            let dec = match guarded(std::panic::AssertUnwindSafe(move || decode_ok(&o, &i))) {
                Ok(true) => "ok",
                _ => "fail",
            };
            s.push_str(&format!(" dec={}", dec));
            s
        }
    }
}

fn mode_of(m: u32) -> BrotliEncoderMode {
    match m {
        1 => BrotliEncoderMode::BROTLI_MODE_TEXT,
        2 => BrotliEncoderMode::BROTLI_MODE_FONT,
        _ => BrotliEncoderMode::BROTLI_MODE_GENERIC,
    }
}
fn ffi_mode_of(m: u32) -> ffi::BrotliEncoderMode {
    match m {
        1 => ffi::BrotliEncoderMode::BROTLI_MODE_TEXT,
        2 => ffi::BrotliEncoderMode::BROTLI_MODE_FONT,
        _ => ffi::BrotliEncoderMode::BROTLI_MODE_GENERIC,
    }
}

type Cb<'a> = &'a mut dyn FnMut(
    &mut brotli::interface::PredictionModeContextMap<brotli::InputReferenceMut>,
    &mut [brotli::interface::StaticCommand],
    brotli::interface::InputPair,
    &mut StandardAlloc,
);

/// the stream call of encoder_compress, through the public API
fn inner_stream(q: i32, lgwin: i32, mode: u32, input: &[u8], bufsize: usize) -> (bool, bool, usize) {
    let mut s = BrotliEncoderStateStruct::new(StandardAlloc::default());
    s.set_parameter(BrotliEncoderParameter::BROTLI_PARAM_QUALITY, q as u32);
    s.set_parameter(BrotliEncoderParameter::BROTLI_PARAM_LGWIN, lgwin as u32);
    s.set_parameter(BrotliEncoderParameter::BROTLI_PARAM_MODE, mode_of(mode) as u32);
    s.set_parameter(BrotliEncoderParameter::BROTLI_PARAM_SIZE_HINT, input.len() as u32);
    if lgwin > 24 {
        s.set_parameter(BrotliEncoderParameter::BROTLI_PARAM_LARGE_WINDOW, 1);
    }
    let mut buf = vec![0u8; bufsize];
    let mut avail_in = input.len();
    let mut in_off = 0usize;
    let mut avail_out = bufsize;
    let mut out_off = 0usize;
    let mut total = Some(0usize);
    let mut nop = |_a: &mut brotli::interface::PredictionModeContextMap<brotli::InputReferenceMut>,
                   _b: &mut [brotli::interface::StaticCommand],
                   _c: brotli::interface::InputPair,
                   _d: &mut StandardAlloc| ();
    let r = s.compress_stream(
        BrotliEncoderOperation::BROTLI_OPERATION_FINISH,
        &mut avail_in, input, &mut in_off, &mut avail_out, &mut buf[..], &mut out_off, &mut total, &mut nop,
    );
    let fin = s.is_finished();
    brotli::enc::encode::BrotliEncoderDestroyInstance(&mut s);
    (r, fin, total.unwrap_or(0))
}

fn f_oneshot(t: &[&str]) -> String {
    if t.len() != 7 {
        return "BADREQ".to_string();
    }
    let api = t[1].to_string();
    let q: i32 = t[2].parse().unwrap();
    let lgwin: i32 = t[3].parse().unwrap();
    let mode: u32 = t[4].parse().unwrap();
    let input = make_input(t[5]);
    let bound = match guarded({
        let n = input.len();
        move || BrotliEncoderMaxCompressedSize(n)
    }) {
        Ok(b) => b,
        Err(e) => return e,
    };
    let bs = t[6];
    // S = size of the stored stream MakeUncompressedStream produces for this input
    let stored_size = || stored(&input).map(|v| v.len()).unwrap_or(0);
    let bufsize: usize = if bs == "S" {
        stored_size()
    } else if let Some(k) = bs.strip_prefix("S-") {
        stored_size().saturating_sub(k.parse().unwrap())
    } else if let Some(k) = bs.strip_prefix("S+") {
        stored_size() + k.parse::<usize>().unwrap()
    } else if bs == "B" {
        bound
    } else if let Some(k) = bs.strip_prefix("B-") {
        bound.saturating_sub(k.parse().unwrap())
    } else if let Some(k) = bs.strip_prefix("B+") {
        bound + k.parse::<usize>().unwrap()
    } else {
        bs.parse().unwrap()
    };
    const GUARD: usize = 64;
    let inp = input.clone();
    let api2 = api.clone();
    let r = guarded(std::panic::AssertUnwindSafe(move || {
        let mut buf = vec![0xA5u8; bufsize + GUARD];
        let mut size = bufsize;
        let ret: i32 = if api2 == "F" {
            unsafe {
                ffi::BrotliEncoderCompress(
                    q, lgwin, ffi_mode_of(mode), inp.len(),
                    if inp.is_empty() { core::ptr::null() } else { inp.as_ptr() },
                    &mut size, buf.as_mut_ptr(),
                )
            }
        } else {
            let mut m8 = StandardAlloc::default();
            let mut nop = |_a: &mut brotli::interface::PredictionModeContextMap<brotli::InputReferenceMut>,
                           _b: &mut [brotli::interface::StaticCommand],
                           _c: brotli::interface::InputPair,
                           _d: &mut StandardAlloc| ();
            let (head, _tail) = buf.split_at_mut(bufsize);
            BrotliEncoderCompress(
                StandardAlloc::default(), &mut m8, q, lgwin, mode_of(mode), inp.len(), &inp[..], &mut size, head, &mut nop,
            )
        };
        let guard_ok = buf[bufsize..].iter().all(|x| *x == 0xA5);
        buf.truncate(core::cmp::min(size, bufsize));
        (ret, size, guard_ok, buf)
    }));
    match r {
        Err(e) => e,
        Ok((ret, size, guard_ok, out)) => {
            let dec = if ret != 0 && size <= bufsize {
                let o = out.clone();
                let i = input.clone();
                match guarded(std::panic::AssertUnwindSafe(move || decode_ok(&o, &i))) {
                    Ok(true) => "ok",
                    _ => "fail",
                }
            } else {
                "na"
            };
            let fb = match stored(&input) {
                Ok(s) => (ret != 0 && s == out) as u8,
                Err(_) => 0,
            };
            let inner = if q != 10 && bufsize > 0 && !input.is_empty() {
                let i = input.clone();
                match guarded(std::panic::AssertUnwindSafe(move || inner_stream(q, lgwin, mode, &i, bufsize))) {
                    Ok((a, b, c)) => format!("{},{},{}", a as u8, b as u8, c),
                    Err(e) => e,
                }
            } else {
                "na".to_string()
            };
            format!(
                "ret={} size={} buf={} bound={} guard={} dec={} fb={} inner={}",
                (ret != 0) as u8, size, bufsize, bound, if guard_ok { "ok" } else { "BROKEN" }, dec, fb, inner
            )
        }
    }
}

fn f_stream(t: &[&str]) -> String {
    if t.len() != 11 {
        return "BADREQ".to_string();
    }
    let q: i32 = t[1].parse().unwrap();
    let lgwin: i32 = t[2].parse().unwrap();
    let b = |i: usize| t[i] != "0";
    let (lw, cat, app, magic) = (b(3), b(4), b(5), b(6));
    let hint: u64 = t[7].parse().unwrap();
    let lgblock: i32 = t[8].parse().unwrap();
    let input = make_input(t[9]);
    let feed = t[10].to_string();
    let inp = input.clone();
    let r = guarded(std::panic::AssertUnwindSafe(move || {
        let mut s = BrotliEncoderStateStruct::new(StandardAlloc::default());
        s.params.quality = q;
        s.params.lgwin = lgwin;
        s.params.large_window = lw;
        s.params.lgblock = lgblock;
        if cat {
            s.set_parameter(BrotliEncoderParameter::BROTLI_PARAM_CATABLE, 1);
        }
        s.params.appendable = app || cat;
        s.params.magic_number = magic;
        s.params.size_hint = hint as usize;
        verif_trace::enable();
        let _ = verif_trace::take();
        let chunk: usize = if feed == "a" { usize::MAX } else { feed[1..].parse().unwrap() };
        let mut out: Vec<u8> = Vec::new();
        let mut buf = vec![0u8; 1 << 18];
        let mut nop = |_a: &mut brotli::interface::PredictionModeContextMap<brotli::InputReferenceMut>,
                       _b: &mut [brotli::interface::StaticCommand],
                       _c: brotli::interface::InputPair,
                       _d: &mut StandardAlloc| ();
        let mut pos = 0usize;
        let mut steps = 0usize;
        let mut ok = true;
        loop {
            steps += 1;
            if steps > 50_000_000 {
                ok = false;
                break;
            }
            let (op, take) = if chunk == usize::MAX || pos >= inp.len() {
                (BrotliEncoderOperation::BROTLI_OPERATION_FINISH, inp.len() - pos)
            } else {
                (BrotliEncoderOperation::BROTLI_OPERATION_PROCESS, core::cmp::min(chunk, inp.len() - pos))
            };
            let mut avail_in = take;
            let mut in_off = 0usize;
            let mut avail_out = buf.len();
            let mut out_off = 0usize;
            let mut total = None;
            let r = s.compress_stream(
                op, &mut avail_in, &inp[pos..pos + take], &mut in_off, &mut avail_out, &mut buf[..], &mut out_off,
                &mut total, &mut nop,
            );
            pos += in_off;
            out.extend_from_slice(&buf[..out_off]);
            if !r {
                ok = false;
                break;
            }
            if s.is_finished() {
                break;
            }
        }
        let recs = verif_trace::take();
        brotli::enc::encode::BrotliEncoderDestroyInstance(&mut s);
        (ok, out, recs)
    }));
    match r {
        Err(e) => e,
        Ok((ok, out, recs)) => {
            if !ok {
                return "ERR(stream returned false or did not finish)".to_string();
            }
            let bound = match guarded({
                let n = input.len();
                move || BrotliEncoderMaxCompressedSize(n)
            }) {
                Ok(b) => b,
                Err(e) => return e,
            };
            let o = out.clone();
            let i = input.clone();
            let dec = match guarded(std::panic::AssertUnwindSafe(move || decode_ok(&o, &i))) {
                Ok(true) => "ok",
                _ => "fail",
            };
            let mut s = format!("total={} bound={} dec={} recs={} |", out.len(), bound, dec, recs.len());
            let mut prev_flush = 0u64;
            for r in recs.iter() {
                s.push_str(&format!(
                    " {}:{}:{}:{}",
                    r.last_flush_pos - prev_flush, r.out.len(), r.last_bytes_bits, r.is_last as u8
                ));
                prev_flush = r.last_flush_pos;
            }
            s
        }
    }
}


/// Line protocol on a private copy of stdout: library code under test prints diagnostics
/// ("leaking memory block ...") with print!, which would otherwise interleave with the answers.
fn serve_clean<F: FnMut(&[&str]) -> String>(mut f: F) {
    use std::io::{BufRead, Write};
    use std::os::unix::io::FromRawFd;
    extern "C" {
        fn dup(fd: i32) -> i32;
        fn dup2(a: i32, b: i32) -> i32;
        fn open(path: *const u8, flags: i32) -> i32;
    }
    let mut out = unsafe {
        let keep = dup(1);
        let null = open(b"/dev/null\0".as_ptr(), 1);
        dup2(null, 1);
        std::io::BufWriter::new(std::fs::File::from_raw_fd(keep))
    };
    let stdin = std::io::stdin();
    for line in stdin.lock().lines() {
        let line = line.unwrap();
        let toks: Vec<&str> = line.split_whitespace().collect();
        if toks.is_empty() {
            continue;
        }
        let ans = f(&toks);
        writeln!(out, "{}", ans).unwrap();
    }
    out.flush().unwrap();
}

fn main() {
    quiet_panics();
    serve_clean(|t| {
        // the trace of back-end calls is thread-local and stays enabled after a T request: empty it before
        // every request so that its invocation bound counts the calls of ONE request only
        if verif_trace::enabled() {
            let _ = verif_trace::take();
        }
        serve_one(t)
    });
}

fn serve_one(t: &[&str]) -> String {
    match t[0] {
        "M" => match t.get(1).and_then(|x| x.parse::<usize>().ok()) {
            Some(n) => f_max(n),
            None => "BADREQ".to_string(),
        },
        "MM" => match (t.get(1).and_then(|x| x.parse::<usize>().ok()), t.get(2).and_then(|x| x.parse::<usize>().ok())) {
            (Some(n), Some(k)) => f_max_multi(n, k),
            _ => "BADREQ".to_string(),
        },
        "U" => match t.get(1) {
            Some(s) => f_stored(s),
            None => "BADREQ".to_string(),
        },
        "C" => f_oneshot(t),
        "T" => f_stream(t),
        _ => "BADREQ".to_string(),
    }
}
