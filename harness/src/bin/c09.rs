// C09 harness: every block obtained from a plugged-in allocator is returned to it exactly once.
//
// Runs the real encoder entry points with a *tracking allocator* (every block gets an id; alloc,
// free_cell (with the instance it went through) and drop-without-free are recorded per instance)
// and, for the C ABI, with counting alloc/free callbacks keyed by `opaque`.
//
// Line protocol: one scenario per request line, one answer line:
//   OK <boundary>;<boundary>;...      boundary = name|ret|events|snapshot
//   events   = space-free comma list:  A<id>.<inst>.<ty>.<len>   F<id>.<inst>   D<id>
//   snapshot = k=v list (fields of the encoder state, only where the state is reachable)
// Panics are outcomes: PANIC(msg).
#![allow(deprecated, non_snake_case, dead_code, unused_variables, unused_mut)]
use brotli::enc::backward_references::{BrotliEncoderMode, UnionHasher};
use brotli::enc::encode::{
    BrotliEncoderDestroyInstance, BrotliEncoderOperation, BrotliEncoderParameter,
    BrotliEncoderStateStruct,
};
use brotli::enc::threading::{CompressMultiSlice, CompressionThreadResult, Owned, SendAlloc};
use brotli::enc::{Allocator, BrotliAlloc, BrotliEncoderParams, SliceWrapper, SliceWrapperMut};
use brotli_decompressor::ffi::interface::c_void;
use std::collections::{BTreeMap, HashMap};
use std::io::{self, Read, Write};
use std::panic::AssertUnwindSafe;
use std::sync::{Arc, Mutex};
use vharness::*;

// ------------------------------------------------------------------------------------------
// tracking allocator
// ------------------------------------------------------------------------------------------
#[derive(Default)]
struct Log {
    next: u64,
    ev: Vec<String>,
    ptr2id: HashMap<usize, u64>,
}
type Shared = Arc<Mutex<Log>>;

fn new_log() -> Shared {
    Arc::new(Mutex::new(Log {
        next: 1,
        ev: Vec::new(),
        ptr2id: HashMap::new(),
    }))
}
fn take_events(l: &Shared) -> String {
    let mut g = l.lock().unwrap();
    let s = g.ev.join(",");
    g.ev.clear();
    if s.is_empty() {
        "-".to_string()
    } else {
        s
    }
}

#[derive(Clone)]
struct Track {
    inst: u32,
    log: Shared,
}
impl Track {
    fn new(inst: u32, log: &Shared) -> Track {
        Track {
            inst,
            log: log.clone(),
        }
    }
}

struct TBlock<T> {
    v: Vec<T>,
    id: u64,
    log: Option<Shared>,
}
impl<T> Default for TBlock<T> {
    fn default() -> Self {
        TBlock {
            v: Vec::new(),
            id: 0,
            log: None,
        }
    }
}
impl<T> SliceWrapper<T> for TBlock<T> {
    fn slice(&self) -> &[T] {
        &self.v[..]
    }
}
impl<T> SliceWrapperMut<T> for TBlock<T> {
    fn slice_mut(&mut self) -> &mut [T] {
        &mut self.v[..]
    }
}
impl<T> Drop for TBlock<T> {
    fn drop(&mut self) {
        if self.id != 0 {
            if let Some(l) = self.log.take() {
                if let Ok(mut g) = l.lock() {
                    g.ev.push(format!("D{}", self.id));
                    g.ptr2id.remove(&(self.v.as_ptr() as usize));
                }
            }
        }
    }
}
fn tyname<T>() -> String {
    let n = core::any::type_name::<T>();
    let n = n.split('<').next().unwrap_or(n);
    let n = n.rsplit("::").next().unwrap_or(n);
    match n {
        "u8" => "U8",
        "u16" => "U16",
        "i32" => "I32",
        "u32" => "U32",
        "u64" => "U64",
        "f32" => "F32",
        "f64" => "F64",
        "Command" => "Cmd",
        "StaticCommand" => "SC",
        "HistogramLiteral" => "HL",
        "HistogramCommand" => "HC",
        "HistogramDistance" => "HD",
        "HistogramPair" => "HP",
        "ContextType" => "CT",
        "HuffmanTree" => "HT",
        "ZopfliNode" => "ZN",
        "CompatF8" => "V8",
        "Compat16x16" => "S16",
        other => other,
    }
    .to_string()
}
impl<T: Clone + Default> Allocator<T> for Track {
    type AllocatedMemory = TBlock<T>;
    fn alloc_cell(&mut self, n: usize) -> TBlock<T> {
        if n == 0 {
            return TBlock::default();
        }
        let v = vec![T::default(); n];
        let mut g = self.log.lock().unwrap();
        let id = g.next;
        g.next += 1;
        g.ev.push(format!("A{}.{}.{}.{}", id, self.inst, tyname::<T>(), n));
        g.ptr2id.insert(v.as_ptr() as usize, id);
        drop(g);
        TBlock {
            v,
            id,
            log: Some(self.log.clone()),
        }
    }
    fn free_cell(&mut self, mut b: TBlock<T>) {
        if b.id != 0 {
            let mut g = self.log.lock().unwrap();
            g.ev.push(format!("F{}.{}", b.id, self.inst));
            g.ptr2id.remove(&(b.v.as_ptr() as usize));
            b.id = 0;
            b.log = None;
        }
    }
}
impl BrotliAlloc for Track {}

fn id_of<T>(l: &Shared, s: &[T]) -> String {
    if s.is_empty() {
        return "0:0".to_string();
    }
    let g = l.lock().unwrap();
    match g.ptr2id.get(&(s.as_ptr() as usize)) {
        Some(id) => format!("{}:{}", id, s.len()),
        None => format!("?:{}", s.len()),
    }
}

// ------------------------------------------------------------------------------------------
// request parsing, inputs
// ------------------------------------------------------------------------------------------
struct Req {
    kv: HashMap<String, String>,
}
impl Req {
    fn parse(toks: &[&str]) -> Req {
        let mut kv = HashMap::new();
        for t in toks {
            if let Some(p) = t.find('=') {
                kv.insert(t[..p].to_string(), t[p + 1..].to_string());
            }
        }
        Req { kv }
    }
    fn num(&self, k: &str, d: i64) -> i64 {
        self.kv.get(k).and_then(|s| s.parse().ok()).unwrap_or(d)
    }
    fn s(&self, k: &str, d: &str) -> String {
        self.kv.get(k).cloned().unwrap_or_else(|| d.to_string())
    }
    fn list(&self, k: &str) -> Vec<String> {
        match self.kv.get(k) {
            None => Vec::new(),
            Some(s) if s == "-" || s.is_empty() => Vec::new(),
            Some(s) => s.split(',').map(|x| x.to_string()).collect(),
        }
    }
    fn ilist(&self, k: &str) -> Vec<i64> {
        self.list(k)
            .iter()
            .map(|s| if s == "e" { -1 } else if s == "z" { 0 } else { s.parse::<i64>().unwrap_or(1).max(1) })
            .collect()
    }
}

const WORDS: [&str; 24] = [
    "the ", "of ", "and ", "compression ", "window ", "block ", "stream ", "a ", "in ", "to ",
    "brotli ", "encoder ", "allocator ", "returns ", "every ", "exactly ", "once ", "hash ",
    "table ", "ring ", "buffer ", "is ", "that ", "with ",
];
fn gen_input(spec: &str) -> Vec<u8> {
    // kind:len:seed
    let p: Vec<&str> = spec.split(':').collect();
    if p.len() < 2 {
        return Vec::new();
    }
    let len: usize = p[1].parse().unwrap_or(0);
    let seed: u64 = p.get(2).and_then(|s| s.parse().ok()).unwrap_or(1);
    let mut r = Rng::new(seed);
    let mut v = Vec::with_capacity(len + 16);
    match p[0] {
        "zero" => v.resize(len, 0u8),
        "rand" => {
            while v.len() < len {
                v.push(r.next() as u8);
            }
        }
        "per" => {
            let period = 1 + (seed as usize % 61);
            let base: Vec<u8> = (0..period).map(|_| r.next() as u8).collect();
            while v.len() < len {
                v.push(base[v.len() % period]);
            }
        }
        _ => {
            while v.len() < len {
                let w = WORDS[r.below(WORDS.len() as u64) as usize];
                v.extend_from_slice(w.as_bytes());
                if r.below(9) == 0 {
                    v.push(b'\n');
                }
            }
        }
    }
    v.truncate(len);
    v
}

fn params_from(r: &Req) -> BrotliEncoderParams {
    let mut p = BrotliEncoderParams::default();
    p.quality = r.num("q", 5) as i32;
    p.lgwin = r.num("w", 18) as i32;
    p.lgblock = r.num("lgb", 0) as i32;
    p.size_hint = r.num("hint", 0) as usize;
    p.q9_5 = r.num("q95", 0) != 0;
    p.large_window = r.num("lw", 0) != 0;
    p.log_meta_block = r.num("log", 0) != 0;
    p.magic_number = r.num("magic", 0) != 0;
    p.favor_cpu_efficiency = r.num("favor", 0) != 0;
    if r.num("cat", 0) != 0 {
        p.catable = true;
        p.appendable = true;
        p.use_dictionary = false;
    }
    if r.num("app", 0) != 0 {
        p.appendable = true;
    }
    p.mode = match r.num("mode", 0) {
        1 => BrotliEncoderMode::BROTLI_MODE_TEXT,
        2 => BrotliEncoderMode::BROTLI_MODE_FONT,
        _ => BrotliEncoderMode::BROTLI_MODE_GENERIC,
    };
    p
}
// the same settings as a list of (parameter, value) pairs, for entry points that take those
fn param_list(r: &Req) -> Vec<(BrotliEncoderParameter, u32)> {
    use BrotliEncoderParameter::*;
    let mut v = vec![
        (BROTLI_PARAM_QUALITY, r.num("q", 5) as u32),
        (BROTLI_PARAM_LGWIN, r.num("w", 18) as u32),
    ];
    if r.num("lgb", 0) != 0 {
        v.push((BROTLI_PARAM_LGBLOCK, r.num("lgb", 0) as u32));
    }
    if r.num("hint", 0) != 0 {
        v.push((BROTLI_PARAM_SIZE_HINT, r.num("hint", 0) as u32));
    }
    if r.num("q95", 0) != 0 {
        v.push((BROTLI_PARAM_Q9_5, 1));
    }
    if r.num("lw", 0) != 0 {
        v.push((BROTLI_PARAM_LARGE_WINDOW, 1));
    }
    if r.num("log", 0) != 0 {
        v.push((BROTLI_METABLOCK_CALLBACK, 1));
    }
    if r.num("magic", 0) != 0 {
        v.push((BROTLI_PARAM_MAGIC_NUMBER, 1));
    }
    if r.num("favor", 0) != 0 {
        v.push((BROTLI_PARAM_FAVOR_EFFICIENCY, 1));
    }
    if r.num("cat", 0) != 0 {
        v.push((BROTLI_PARAM_CATABLE, 1));
    }
    if r.num("app", 0) != 0 {
        v.push((BROTLI_PARAM_APPENDABLE, 1));
    }
    if r.num("mode", 0) != 0 {
        v.push((BROTLI_PARAM_MODE, r.num("mode", 0) as u32));
    }
    v
}

fn opcode(s: &str) -> BrotliEncoderOperation {
    match s {
        "F" => BrotliEncoderOperation::BROTLI_OPERATION_FLUSH,
        "E" => BrotliEncoderOperation::BROTLI_OPERATION_FINISH,
        "M" => BrotliEncoderOperation::BROTLI_OPERATION_EMIT_METADATA,
        _ => BrotliEncoderOperation::BROTLI_OPERATION_PROCESS,
    }
}

// ------------------------------------------------------------------------------------------
// raw streaming encoder instance (state reachable: exact field snapshots)
// ------------------------------------------------------------------------------------------
fn hasher_snap(l: &Shared, h: &UnionHasher<Track>) -> String {
    match h {
        UnionHasher::Uninit => "Uninit".to_string(),
        UnionHasher::H2(x) => format!("H2+{}", id_of(l, x.buckets_.buckets_.slice())),
        UnionHasher::H3(x) => format!("H3+{}", id_of(l, x.buckets_.buckets_.slice())),
        UnionHasher::H4(x) => format!("H4+{}", id_of(l, x.buckets_.buckets_.slice())),
        UnionHasher::H54(x) => format!("H54+{}", id_of(l, x.buckets_.buckets_.slice())),
        UnionHasher::H5(x) => format!(
            "H5+{}+{}",
            id_of(l, x.buckets.slice()),
            id_of(l, x.num.slice())
        ),
        UnionHasher::H5q7(x) => format!(
            "H5q7+{}+{}",
            id_of(l, x.buckets.slice()),
            id_of(l, x.num.slice())
        ),
        UnionHasher::H5q5(x) => format!(
            "H5q5+{}+{}",
            id_of(l, x.buckets.slice()),
            id_of(l, x.num.slice())
        ),
        UnionHasher::H6(x) => format!(
            "H6+{}+{}",
            id_of(l, x.buckets.slice()),
            id_of(l, x.num.slice())
        ),
        UnionHasher::H9(x) => format!(
            "H9+{}+{}",
            id_of(l, x.num_.slice()),
            id_of(l, x.buckets_.slice())
        ),
        UnionHasher::H10(x) => format!(
            "H10+{}+{}",
            id_of(l, x.buckets_.slice()),
            id_of(l, x.forest.slice())
        ),
    }
}
fn snapshot(l: &Shared, s: &BrotliEncoderStateStruct<Track>) -> String {
    format!(
        "st={} rb={} cm={} h={} lt={} cb={} lb={} q={} w={} lgb={} hint={} q95={} cat={} ht={} init={}",
        id_of(l, s.storage_.slice()),
        id_of(l, s.ringbuffer_.data_mo.slice()),
        id_of(l, s.commands_.slice()),
        hasher_snap(l, &s.hasher_),
        id_of(l, s.large_table_.slice()),
        id_of(l, s.command_buf_.slice()),
        id_of(l, s.literal_buf_.slice()),
        s.params.quality,
        s.params.lgwin,
        s.params.lgblock,
        s.params.size_hint,
        s.params.q9_5 as u8,
        s.params.catable as u8,
        s.params.hasher.type_,
        s.is_initialized_ as u8
    )
    .replace(' ', "&")
}

fn do_raw(r: &Req) -> String {
    let log = new_log();
    let input = gen_input(&r.s("in", "text:0:1"));
    let dict = gen_input(&r.s("dict", "text:0:1"));
    let mut out: Vec<String> = Vec::new();
    let mut cursor = 0usize;
    let mut meta: Vec<u8> = Vec::new();
    let mut meta_pos = 0usize;
    {
        let mut st = BrotliEncoderStateStruct::new(Track::new(0, &log));
        let mut ok = true;
        for (p, v) in param_list(r) {
            ok &= st.set_parameter(p, v);
        }
        out.push(format!(
            "new|{}|{}|{}",
            ok as u8,
            take_events(&log),
            snapshot(&log, &st)
        ));
        let mut cb = |_a: &mut brotli::interface::PredictionModeContextMap<brotli::InputReferenceMut>,
                      _b: &mut [brotli::interface::StaticCommand],
                      _c: brotli::InputPair,
                      _d: &mut Track| ();
        for op in r.list("ops") {
            let f: Vec<&str> = op.split(':').collect();
            match f[0] {
                "P" => {
                    // set_parameter after creation: P:<param id>:<value>
                    let pid: u32 = f[1].parse().unwrap_or(1);
                    let val: u32 = f[2].parse().unwrap_or(0);
                    let p = match pid {
                        1 => BrotliEncoderParameter::BROTLI_PARAM_QUALITY,
                        2 => BrotliEncoderParameter::BROTLI_PARAM_LGWIN,
                        3 => BrotliEncoderParameter::BROTLI_PARAM_LGBLOCK,
                        5 => BrotliEncoderParameter::BROTLI_PARAM_SIZE_HINT,
                        150 => BrotliEncoderParameter::BROTLI_PARAM_Q9_5,
                        167 => BrotliEncoderParameter::BROTLI_PARAM_CATABLE,
                        _ => BrotliEncoderParameter::BROTLI_PARAM_MODE,
                    };
                    let ret = st.set_parameter(p, val);
                    out.push(format!(
                        "P:{}:{}|{}|{}|{}",
                        pid,
                        val,
                        ret as u8,
                        take_events(&log),
                        snapshot(&log, &st)
                    ));
                }
                "D" => {
                    let n: usize = f[1].parse().unwrap_or(0);
                    let n = n.min(dict.len());
                    st.set_custom_dictionary(n, &dict[..n]);
                    out.push(format!(
                        "D:{}|1|{}|{}",
                        n,
                        take_events(&log),
                        snapshot(&log, &st)
                    ));
                }
                "H" => {
                    // set_custom_dictionary_with_optional_precomputed_hasher with a hasher built the
                    // way CompressMulti builds it, through the allocator the state owns
                    use brotli::enc::backward_references::AnyHasher;
                    let n: usize = f[1].parse().unwrap_or(0);
                    let n = n.min(dict.len());
                    let mut p = st.params.clone();
                    brotli::enc::encode::SanitizeParams(&mut p);
                    let mut h = UnionHasher::Uninit;
                    brotli::enc::encode::HasherSetup(&mut st.m8, &mut h, &mut p, &[], 0, 0, 0);
                    let overlap = h.StoreLookahead().wrapping_sub(1);
                    if n > overlap {
                        h.BulkStoreRange(&dict[..n], usize::MAX, 0, n - overlap);
                    }
                    let built = log.lock().unwrap().ev.len();
                    st.set_custom_dictionary_with_optional_precomputed_hasher(n, &dict[..n], h);
                    out.push(format!(
                        "H:{}:{}|1|{}|{}",
                        n,
                        built,
                        take_events(&log),
                        snapshot(&log, &st)
                    ));
                }
                "S" => {
                    let o = opcode(f[1]);
                    let nin: usize = f[2].parse().unwrap_or(0);
                    let nout: usize = f[3].parse().unwrap_or(0);
                    let mut obuf = vec![0u8; nout];
                    let mut avail_out = nout;
                    let mut out_off = 0usize;
                    let mut total = Some(0usize);
                    let (ret, used, offered);
                    if f[1] == "M" {
                        if meta_pos >= meta.len() {
                            meta = gen_input(&format!("rand:{}:{}", nin.min(1 << 20), nin + 3));
                            meta_pos = 0;
                        }
                        let mut avail_in = meta.len() - meta_pos;
                        offered = avail_in;
                        let mut in_off = 0usize;
                        ret = st.compress_stream(
                            o,
                            &mut avail_in,
                            &meta[meta_pos..],
                            &mut in_off,
                            &mut avail_out,
                            &mut obuf,
                            &mut out_off,
                            &mut total,
                            &mut cb,
                        );
                        meta_pos += in_off;
                        used = in_off;
                    } else {
                        let n = nin.min(input.len() - cursor);
                        let mut avail_in = n;
                        offered = n;
                        let mut in_off = 0usize;
                        ret = st.compress_stream(
                            o,
                            &mut avail_in,
                            &input[cursor..cursor + n],
                            &mut in_off,
                            &mut avail_out,
                            &mut obuf,
                            &mut out_off,
                            &mut total,
                            &mut cb,
                        );
                        cursor += in_off;
                        used = in_off;
                    }
                    out.push(format!(
                        "S:{}:{}:{}:{}:{}|{}|{}|{}",
                        f[1],
                        offered,
                        nout,
                        used,
                        out_off,
                        ret as u8,
                        take_events(&log),
                        snapshot(&log, &st)
                    ));
                }
                "T" => {
                    let mut n: usize = f[1].parse().unwrap_or(0);
                    let got = st.take_output(&mut n).len();
                    out.push(format!(
                        "T:{}|1|{}|{}",
                        n,
                        take_events(&log),
                        snapshot(&log, &st)
                    ));
                }
                "X" => {
                    BrotliEncoderDestroyInstance(&mut st);
                    out.push(format!(
                        "X|1|{}|{}",
                        take_events(&log),
                        snapshot(&log, &st)
                    ));
                }
                _ => {}
            }
        }
    }
    out.push(format!("drop|1|{}|-", take_events(&log)));
    format!("OK {}", out.join(";"))
}

// ------------------------------------------------------------------------------------------
// scripted wrapped streams for the adapters
// ------------------------------------------------------------------------------------------
struct Buf(Vec<u8>);
impl SliceWrapper<u8> for Buf {
    fn slice(&self) -> &[u8] {
        &self.0[..]
    }
}
impl SliceWrapperMut<u8> for Buf {
    fn slice_mut(&mut self) -> &mut [u8] {
        &mut self.0[..]
    }
}
/// per call: -1 = Err, 0 = Ok(0), k > 0 = accept at most k bytes; past the end of the script: accept all.
struct SW {
    script: Vec<i64>,
    k: usize,
    n: usize,
    calls: Arc<Mutex<(usize, usize)>>,
}
impl Write for SW {
    fn write(&mut self, b: &[u8]) -> io::Result<usize> {
        let s = if self.k < self.script.len() {
            self.script[self.k]
        } else {
            i64::MAX
        };
        self.k += 1;
        self.calls.lock().unwrap().0 += 1;
        if self.k > 60_000_000 {
            panic!("sink call bound exceeded");
        }
        if s < 0 {
            return Err(io::Error::new(io::ErrorKind::Other, "scripted write error"));
        }
        if s == 0 {
            return Ok(0); // a sink that accepts nothing
        }
        let n = (s as usize).min(b.len());
        self.n += n;
        self.calls.lock().unwrap().1 += n;
        Ok(n)
    }
    fn flush(&mut self) -> io::Result<()> {
        Ok(())
    }
}
/// per call: -1 = Err, k > 0 = give at most k bytes; past the end of the script: as much as fits.
struct SR {
    data: Vec<u8>,
    pos: usize,
    script: Vec<i64>,
    k: usize,
}
impl Read for SR {
    fn read(&mut self, b: &mut [u8]) -> io::Result<usize> {
        let s = if self.k < self.script.len() {
            self.script[self.k]
        } else {
            i64::MAX
        };
        self.k += 1;
        if self.k > 60_000_000 {
            panic!("source call bound exceeded");
        }
        if s < 0 {
            return Err(io::Error::new(io::ErrorKind::Other, "scripted read error"));
        }
        let n = (s.max(1) as usize).min(b.len()).min(self.data.len() - self.pos);
        b[..n].copy_from_slice(&self.data[self.pos..self.pos + n]);
        self.pos += n;
        Ok(n)
    }
}

fn res_str<T: std::fmt::Debug>(r: &io::Result<T>) -> String {
    match r {
        Ok(v) => format!("ok{:?}", v).replace(' ', "").replace("()", ""),
        Err(_) => "err".to_string(),
    }
}

fn do_writer(r: &Req) -> String {
    let log = new_log();
    let input = gen_input(&r.s("in", "text:0:1"));
    let mut out: Vec<String> = Vec::new();
    let calls = Arc::new(Mutex::new((0usize, 0usize)));
    let sw = SW {
        script: r.ilist("wio"),
        k: 0,
        n: 0,
        calls: calls.clone(),
    };
    let mut cursor = 0usize;
    let mut w = Some(brotli::enc::writer::CompressorWriterCustomAlloc::new(
        sw,
        Buf(vec![0u8; (r.num("obuf", 4096) as usize).max(1)]),
        Track::new(0, &log),
        r.num("q", 5) as u32,
        r.num("w", 18) as u32,
    ));
    out.push(format!("new|1|{}|-", take_events(&log)));
    for op in r.list("ops") {
        let f: Vec<&str> = op.split(':').collect();
        match f[0] {
            "W" => {
                let n: usize = f[1].parse().unwrap_or(0);
                let n = n.min(input.len() - cursor);
                let res = match w.as_mut() {
                    Some(x) => x.write(&input[cursor..cursor + n]),
                    None => Ok(0),
                };
                if let Ok(k) = res {
                    cursor += k;
                }
                out.push(format!("W:{}|{}|{}|-", n, res_str(&res), take_events(&log)));
            }
            "L" => {
                let res = match w.as_mut() {
                    Some(x) => x.flush(),
                    None => Ok(()),
                };
                out.push(format!("L|{}|{}|-", res_str(&res), take_events(&log)));
            }
            "I" => {
                if let Some(x) = w.take() {
                    let inner = x.into_inner();
                    out.push(format!("I|sink{}|{}|-", inner.n, take_events(&log)));
                }
            }
            "Z" => {
                if let Some(x) = w.take() {
                    drop(x);
                    out.push(format!("Z|1|{}|-", take_events(&log)));
                }
            }
            _ => {}
        }
    }
    if let Some(x) = w.take() {
        drop(x);
        out.push(format!("Z|1|{}|-", take_events(&log)));
    }
    out.push(format!("drop|1|{}|-", take_events(&log)));
    format!("OK {}", out.join(";"))
}

fn do_reader(r: &Req) -> String {
    let log = new_log();
    let input = gen_input(&r.s("in", "text:0:1"));
    let mut out: Vec<String> = Vec::new();
    let sr = SR {
        data: input,
        pos: 0,
        script: r.ilist("rio"),
        k: 0,
    };
    let mut rd = Some(brotli::enc::reader::CompressorReaderCustomAlloc::new(
        sr,
        Buf(vec![0u8; (r.num("ibuf", 4096) as usize).max(1)]),
        Track::new(0, &log),
        r.num("q", 5) as u32,
        r.num("w", 18) as u32,
    ));
    out.push(format!("new|1|{}|-", take_events(&log)));
    for op in r.list("ops") {
        let f: Vec<&str> = op.split(':').collect();
        match f[0] {
            "R" => {
                let n: usize = f[1].parse::<usize>().unwrap_or(1).max(1);
                let mut b = vec![0u8; n];
                let res = match rd.as_mut() {
                    Some(x) => x.read(&mut b),
                    None => Ok(0),
                };
                out.push(format!("R:{}|{}|{}|-", n, res_str(&res), take_events(&log)));
            }
            "A" => {
                // read to the end (bounded)
                let n: usize = f[1].parse::<usize>().unwrap_or(4096).max(1);
                let mut b = vec![0u8; n];
                let mut total = 0usize;
                let mut res = "ok".to_string();
                if let Some(x) = rd.as_mut() {
                    for _ in 0..200000 {
                        match x.read(&mut b) {
                            Ok(0) => break,
                            Ok(k) => total += k,
                            Err(_) => {
                                res = "err".to_string();
                                break;
                            }
                        }
                    }
                }
                out.push(format!("A:{}|{}{}|{}|-", n, res, total, take_events(&log)));
            }
            "I" => {
                if let Some(x) = rd.take() {
                    let inner = x.into_inner();
                    out.push(format!("I|src{}|{}|-", inner.pos, take_events(&log)));
                }
            }
            "Z" => {
                if let Some(x) = rd.take() {
                    drop(x);
                    out.push(format!("Z|1|{}|-", take_events(&log)));
                }
            }
            _ => {}
        }
    }
    if let Some(x) = rd.take() {
        drop(x);
        out.push(format!("Z|1|{}|-", take_events(&log)));
    }
    out.push(format!("drop|1|{}|-", take_events(&log)));
    format!("OK {}", out.join(";"))
}

fn do_copy(r: &Req) -> String {
    let log = new_log();
    let input = gen_input(&r.s("in", "text:0:1"));
    let dict = gen_input(&r.s("dict", "text:0:1"));
    let calls = Arc::new(Mutex::new((0usize, 0usize)));
    let mut sr = SR {
        data: input,
        pos: 0,
        script: r.ilist("rio"),
        k: 0,
    };
    let mut sw = SW {
        script: r.ilist("wio"),
        k: 0,
        n: 0,
        calls,
    };
    let mut ib = vec![0u8; (r.num("ibuf", 4096) as usize).max(1)];
    let mut ob = vec![0u8; (r.num("obuf", 4096) as usize).max(1)];
    let params = params_from(r);
    let mut nmb = 0usize;
    let log2 = log.clone();
    let mut mids: Vec<String> = Vec::new();
    let res;
    {
        let mut cb = |_a: &mut brotli::interface::PredictionModeContextMap<brotli::InputReferenceMut>,
                      _b: &mut [brotli::interface::StaticCommand],
                      _c: brotli::InputPair,
                      _d: &mut Track| {
            nmb += 1;
        };
        res = brotli::enc::BrotliCompressCustomIoCustomDict(
            &mut brotli::enc::IoReaderWrapper(&mut sr),
            &mut brotli::enc::IoWriterWrapper(&mut sw),
            &mut ib[..],
            &mut ob[..],
            &params,
            Track::new(0, &log),
            &mut cb,
            &dict[..],
            io::Error::new(io::ErrorKind::UnexpectedEof, "eof"),
        );
    }
    let exit = match &res {
        Ok(_) => "fin".to_string(),
        Err(e) => format!("{:?}", e.kind()),
    };
    let rerr = sr.script.iter().take(sr.k).any(|x| *x < 0);
    let werr = sw.script.iter().take(sw.k).any(|x| *x < 0);
    let wzero = sw.script.iter().take(sw.k).any(|x| *x == 0);
    format!(
        "OK copy|{}:mb{}:r{}:w{}:re{}:we{}:wz{}|{}|-",
        exit,
        nmb,
        sr.k,
        sw.k,
        rerr as u8,
        werr as u8,
        wzero as u8,
        take_events(&log2)
    )
}

fn do_oneshot(r: &Req) -> String {
    let log = new_log();
    let input = gen_input(&r.s("in", "text:0:1"));
    let mut m8 = Track::new(0, &log);
    let empty = Track::new(1, &log);
    let mut outsize = r.num("out", 1 << 20) as usize;
    let mut ob = vec![0u8; outsize];
    let mode = match r.num("mode", 0) {
        1 => BrotliEncoderMode::BROTLI_MODE_TEXT,
        2 => BrotliEncoderMode::BROTLI_MODE_FONT,
        _ => BrotliEncoderMode::BROTLI_MODE_GENERIC,
    };
    let mut cb = |_a: &mut brotli::interface::PredictionModeContextMap<brotli::InputReferenceMut>,
                  _b: &mut [brotli::interface::StaticCommand],
                  _c: brotli::InputPair,
                  _d: &mut Track| ();
    let ret = brotli::enc::encode::BrotliEncoderCompress(
        empty,
        &mut m8,
        r.num("q", 5) as i32,
        r.num("w", 18) as i32,
        mode,
        input.len(),
        &input[..],
        &mut outsize,
        &mut ob[..],
        &mut cb,
    );
    let who = m8.inst;
    drop(m8);
    format!(
        "OK oneshot|{}:size{}:back{}|{}|-",
        ret,
        outsize,
        who,
        take_events(&log)
    )
}

struct VecW(Vec<u8>);
impl SliceWrapper<u8> for VecW {
    fn slice(&self) -> &[u8] {
        &self.0[..]
    }
}

fn do_multi(r: &Req) -> String {
    let log = new_log();
    let input = gen_input(&r.s("in", "text:0:1"));
    let n = (r.num("n", 2) as usize).max(1).min(16);
    let params = params_from(r);
    let outsize = r.num("out", 1 << 22) as usize;
    let mut ob = vec![0u8; outsize];
    let kind = r.s("kind", "owned");
    let res_s;
    let mut back: Vec<String> = Vec::new();
    match kind.as_str() {
        "slice" => {
            let mut allocs: Vec<_> = (0..n)
                .map(|i| SendAlloc::new(Track::new(i as u32, &log), UnionHasher::Uninit))
                .collect();
            // a panic inside the call is an outcome, but the allocator log up to it still counts
            let res = std::panic::catch_unwind(AssertUnwindSafe(|| {
                CompressMultiSlice(
                    &params,
                    &input[..],
                    &mut ob[..],
                    &mut allocs[..],
                    &mut brotli::enc::multithreading::MultiThreadedSpawner::default(),
                )
            }));
            res_s = match res {
                Ok(Ok(s)) => format!("ok{}", s),
                Ok(Err(e)) => format!("err:{:?}", e).replace(' ', "").replace('|', "/"),
                Err(e) => panic_msg(e).replace(' ', "_").replace('|', "/").replace(';', "_"),
            };
            for (i, a) in allocs.into_iter().enumerate() {
                let (al, _h) = a.unwrap_or(Track::new(99, &log), UnionHasher::Uninit);
                back.push(format!("{}", al.inst));
            }
        }
        "pool" => {
            let mut allocs: Vec<_> = (0..n)
                .map(|i| SendAlloc::new(Track::new(i as u32, &log), UnionHasher::Uninit))
                .collect();
            let mut pool = brotli::enc::new_work_pool(n.saturating_sub(1).max(1));
            let mut owned = Owned::new(VecW(input));
            let res = brotli::enc::compress_worker_pool(
                &params,
                &mut owned,
                &mut ob[..],
                &mut allocs[..],
                &mut pool,
            );
            res_s = match res {
                Ok(s) => format!("ok{}", s),
                Err(e) => format!("err:{:?}", e).replace(' ', "").replace('|', "/"),
            };
            for a in allocs.into_iter() {
                let (al, _h) = a.unwrap_or(Track::new(99, &log), UnionHasher::Uninit);
                back.push(format!("{}", al.inst));
            }
        }
        _ => {
            let mut allocs: Vec<_> = (0..n)
                .map(|i| SendAlloc::new(Track::new(i as u32, &log), UnionHasher::Uninit))
                .collect();
            let mut owned = Owned::new(VecW(input));
            let res = brotli::enc::compress_multi_no_threadpool(
                &params,
                &mut owned,
                &mut ob[..],
                &mut allocs[..],
            );
            res_s = match res {
                Ok(s) => format!("ok{}", s),
                Err(e) => format!("err:{:?}", e).replace(' ', "").replace('|', "/"),
            };
            for a in allocs.into_iter() {
                let (al, _h) = a.unwrap_or(Track::new(99, &log), UnionHasher::Uninit);
                back.push(format!("{}", al.inst));
            }
        }
    }
    format!(
        "OK multi|{}:back{}|{}|-",
        res_s,
        back.join("."),
        take_events(&log)
    )
}

// ------------------------------------------------------------------------------------------
// C ABI: counting alloc/free callbacks keyed by `opaque`; stdout capture for the default
// allocator's "leaking memory block" message
// ------------------------------------------------------------------------------------------
struct FfiLog {
    next: u64,
    ev: Vec<String>,
    live: HashMap<usize, (u64, u32, usize)>,
}
static FFI: Mutex<Option<FfiLog>> = Mutex::new(None);
fn ffi_reset() {
    *FFI.lock().unwrap() = Some(FfiLog {
        next: 1,
        ev: Vec::new(),
        live: HashMap::new(),
    });
}
fn ffi_events() -> String {
    let mut g = FFI.lock().unwrap();
    let l = g.as_mut().unwrap();
    let s = l.ev.join(",");
    l.ev.clear();
    if s.is_empty() {
        "-".to_string()
    } else {
        s
    }
}
fn ffi_id<T>(s: &[T]) -> String {
    if s.is_empty() {
        return "0:0".to_string();
    }
    let g = FFI.lock().unwrap();
    match g.as_ref().unwrap().live.get(&(s.as_ptr() as usize)) {
        Some((id, _, _)) => format!("{}:{}", id, s.len()),
        None => format!("?:{}", s.len()),
    }
}
#[repr(C)]
struct Opq {
    inst: u32,
}
extern "C" fn cb_alloc(opaque: *mut c_void, size: usize) -> *mut c_void {
    let inst = unsafe { (*(opaque as *mut Opq)).inst };
    let lay = std::alloc::Layout::from_size_align(size.max(1), 64).unwrap();
    let p = unsafe { std::alloc::alloc_zeroed(lay) };
    let mut g = FFI.lock().unwrap();
    let l = g.as_mut().unwrap();
    let id = l.next;
    l.next += 1;
    l.ev.push(format!("A{}.{}.B.{}", id, inst, size));
    l.live.insert(p as usize, (id, inst, size));
    p as *mut c_void
}
extern "C" fn cb_free(opaque: *mut c_void, ptr: *mut c_void) {
    if ptr.is_null() {
        return;
    }
    let inst = unsafe { (*(opaque as *mut Opq)).inst };
    let mut g = FFI.lock().unwrap();
    let l = g.as_mut().unwrap();
    match l.live.remove(&(ptr as usize)) {
        Some((id, _by, size)) => {
            l.ev.push(format!("F{}.{}", id, inst));
            let lay = std::alloc::Layout::from_size_align(size.max(1), 64).unwrap();
            unsafe { std::alloc::dealloc(ptr as *mut u8, lay) };
        }
        None => {
            l.ev.push(format!("F0.{}", inst));
        }
    }
}

extern "C" {
    fn dup(fd: i32) -> i32;
    fn dup2(a: i32, b: i32) -> i32;
    fn close(fd: i32) -> i32;
}
/// run `f` with fd 1 redirected to a scratch file; returns what was printed meanwhile.
fn capture_stdout<R, F: FnOnce() -> R>(f: F) -> (R, String) {
    use std::os::unix::io::AsRawFd;
    let dir = std::env::var("VERIF_TMP").unwrap_or_else(|_| "/verif/build/tmp".to_string());
    let _ = std::fs::create_dir_all(&dir);
    let path = format!("{}/c09-stdout-{}.txt", dir, std::process::id());
    let _ = io::stdout().flush();
    let file = std::fs::File::create(&path).unwrap();
    let saved = unsafe { dup(1) };
    unsafe { dup2(file.as_raw_fd(), 1) };
    let res = std::panic::catch_unwind(AssertUnwindSafe(f));
    let _ = io::stdout().flush();
    unsafe {
        dup2(saved, 1);
        close(saved);
    }
    drop(file);
    let text = std::fs::read_to_string(&path).unwrap_or_default();
    let _ = std::fs::remove_file(&path);
    match res {
        Ok(r) => (r, text),
        Err(e) => std::panic::resume_unwind(e),
    }
}
fn leak_msgs(s: &str) -> usize {
    s.matches("leaking memory block").count()
}

fn ffi_snapshot(st: *mut brotli::ffi::compressor::BrotliEncoderState) -> String {
    let s = unsafe { &(*st).compressor };
    let h = match &s.hasher_ {
        UnionHasher::Uninit => "Uninit".to_string(),
        UnionHasher::H2(x) => format!("H2+{}", ffi_id(x.buckets_.buckets_.slice())),
        UnionHasher::H3(x) => format!("H3+{}", ffi_id(x.buckets_.buckets_.slice())),
        UnionHasher::H4(x) => format!("H4+{}", ffi_id(x.buckets_.buckets_.slice())),
        UnionHasher::H54(x) => format!("H54+{}", ffi_id(x.buckets_.buckets_.slice())),
        UnionHasher::H5(x) => format!("H5+{}+{}", ffi_id(x.buckets.slice()), ffi_id(x.num.slice())),
        UnionHasher::H5q7(x) => format!("H5q7+{}+{}", ffi_id(x.buckets.slice()), ffi_id(x.num.slice())),
        UnionHasher::H5q5(x) => format!("H5q5+{}+{}", ffi_id(x.buckets.slice()), ffi_id(x.num.slice())),
        UnionHasher::H6(x) => format!("H6+{}+{}", ffi_id(x.buckets.slice()), ffi_id(x.num.slice())),
        UnionHasher::H9(x) => format!("H9+{}+{}", ffi_id(x.num_.slice()), ffi_id(x.buckets_.slice())),
        UnionHasher::H10(x) => format!("H10+{}+{}", ffi_id(x.buckets_.slice()), ffi_id(x.forest.slice())),
    };
    format!(
        "st={} rb={} cm={} h={} lt={} cb={} lb={} q={} w={} lgb={} hint={} q95={} cat={} ht={} init={}",
        ffi_id(s.storage_.slice()),
        ffi_id(s.ringbuffer_.data_mo.slice()),
        ffi_id(s.commands_.slice()),
        h,
        ffi_id(s.large_table_.slice()),
        ffi_id(s.command_buf_.slice()),
        ffi_id(s.literal_buf_.slice()),
        s.params.quality,
        s.params.lgwin,
        s.params.lgblock,
        s.params.size_hint,
        s.params.q9_5 as u8,
        s.params.catable as u8,
        s.params.hasher.type_,
        s.is_initialized_ as u8
    )
    .replace(' ', "&")
}

fn do_ffi(r: &Req) -> String {
    use brotli::ffi::compressor as C;
    ffi_reset();
    let custom = r.num("custom", 1) != 0;
    let input = gen_input(&r.s("in", "text:0:1"));
    let dict = gen_input(&r.s("dict", "text:0:1"));
    let opq = Box::into_raw(Box::new(Opq { inst: 0 }));
    let mut out: Vec<String> = Vec::new();
    let (_, printed) = capture_stdout(|| unsafe {
        let st = if custom {
            C::BrotliEncoderCreateInstance(Some(cb_alloc), Some(cb_free), opq as *mut c_void)
        } else {
            C::BrotliEncoderCreateInstance(None, None, core::ptr::null_mut())
        };
        let mut ok = 1;
        for (p, v) in param_list(r) {
            ok &= C::BrotliEncoderSetParameter(st, p, v);
        }
        out.push(format!("new|{}|{}|{}", ok, ffi_events(), ffi_snapshot(st)));
        let mut cursor = 0usize;
        let mut destroyed = false;
        for op in r.list("ops") {
            let f: Vec<&str> = op.split(':').collect();
            if destroyed {
                break;
            }
            match f[0] {
                "D" => {
                    let n: usize = f[1].parse::<usize>().unwrap_or(0).min(dict.len());
                    C::BrotliEncoderSetCustomDictionary(st, n, dict.as_ptr());
                    out.push(format!("D:{}|1|{}|{}", n, ffi_events(), ffi_snapshot(st)));
                }
                "S" => {
                    let nin: usize = f[2].parse().unwrap_or(0);
                    let nout: usize = f[3].parse().unwrap_or(0);
                    let n = nin.min(input.len() - cursor);
                    let mut ob = vec![0u8; nout.max(1)];
                    let mut avail_in = n;
                    let mut avail_out = nout;
                    let mut ip = input.as_ptr().add(cursor);
                    let mut op_ = ob.as_mut_ptr();
                    let mut total = 0usize;
                    let o = match f[1] {
                        "F" => C::BrotliEncoderOperation::BROTLI_OPERATION_FLUSH,
                        "E" => C::BrotliEncoderOperation::BROTLI_OPERATION_FINISH,
                        _ => C::BrotliEncoderOperation::BROTLI_OPERATION_PROCESS,
                    };
                    let ret = C::BrotliEncoderCompressStream(
                        st,
                        o,
                        &mut avail_in,
                        &mut ip,
                        &mut avail_out,
                        &mut op_,
                        &mut total,
                    );
                    let used = n - avail_in;
                    cursor += used;
                    out.push(format!(
                        "S:{}:{}:{}:{}:{}|{}|{}|{}",
                        f[1],
                        n,
                        nout,
                        used,
                        nout - avail_out,
                        ret,
                        ffi_events(),
                        ffi_snapshot(st)
                    ));
                }
                "T" => {
                    let mut n: usize = f[1].parse().unwrap_or(0);
                    let _p = C::BrotliEncoderTakeOutput(st, &mut n);
                    out.push(format!("T:{}|1|{}|{}", n, ffi_events(), ffi_snapshot(st)));
                }
                "X" => {
                    C::BrotliEncoderDestroyInstance(st);
                    destroyed = true;
                    out.push(format!("X|1|{}|-", ffi_events()));
                }
                _ => {}
            }
        }
        if !destroyed {
            C::BrotliEncoderDestroyInstance(st);
            out.push(format!("X|1|{}|-", ffi_events()));
        }
    });
    unsafe { drop(Box::from_raw(opq)) };
    out.push(format!("end|leakmsgs{}|{}|-", leak_msgs(&printed), ffi_events()));
    format!("OK {}", out.join(";"))
}

fn do_ffimulti(r: &Req) -> String {
    use brotli::ffi::multicompress as M;
    ffi_reset();
    let custom = r.num("custom", 1) != 0;
    let input = gen_input(&r.s("in", "text:0:1"));
    let n = (r.num("n", 1) as usize).max(1);
    let pl = param_list(r);
    let keys: Vec<BrotliEncoderParameter> = pl.iter().map(|x| x.0).collect();
    let vals: Vec<u32> = pl.iter().map(|x| x.1).collect();
    let mut outsize = r.num("out", 1 << 22) as usize;
    let mut ob = vec![0u8; outsize.max(1)];
    let opqs: Vec<*mut Opq> = (0..n.max(16))
        .map(|i| Box::into_raw(Box::new(Opq { inst: i as u32 })))
        .collect();
    let mut optrs: Vec<*mut c_void> = opqs.iter().map(|p| *p as *mut c_void).collect();
    let pool = r.num("pool", 0) != 0;
    let (ret, printed) = capture_stdout(|| unsafe {
        if pool {
            let wp = if custom {
                M::BrotliEncoderCreateWorkPool(n, Some(cb_alloc), Some(cb_free), optrs[0])
            } else {
                M::BrotliEncoderCreateWorkPool(n, None, None, core::ptr::null_mut())
            };
            let ret = M::BrotliEncoderCompressWorkPool(
                wp,
                keys.len(),
                keys.as_ptr(),
                vals.as_ptr(),
                input.len(),
                input.as_ptr(),
                &mut outsize,
                ob.as_mut_ptr(),
                n,
                if custom { Some(cb_alloc) } else { None },
                if custom { Some(cb_free) } else { None },
                if custom { optrs.as_mut_ptr() } else { core::ptr::null_mut() },
            );
            M::BrotliEncoderDestroyWorkPool(wp);
            ret
        } else {
            M::BrotliEncoderCompressMulti(
                keys.len(),
                keys.as_ptr(),
                vals.as_ptr(),
                input.len(),
                input.as_ptr(),
                &mut outsize,
                ob.as_mut_ptr(),
                n,
                if custom { Some(cb_alloc) } else { None },
                if custom { Some(cb_free) } else { None },
                if custom { optrs.as_mut_ptr() } else { core::ptr::null_mut() },
            )
        }
    });
    for p in opqs {
        unsafe { drop(Box::from_raw(p)) };
    }
    format!(
        "OK ffimulti|{}:size{}:leakmsgs{}|{}|-",
        ret,
        outsize,
        leak_msgs(&printed),
        ffi_events()
    )
}

fn do_ffioneshot(r: &Req) -> String {
    use brotli::ffi::compressor as C;
    ffi_reset();
    let input = gen_input(&r.s("in", "text:0:1"));
    let mut outsize = r.num("out", 1 << 20) as usize;
    let mut ob = vec![0u8; outsize.max(1)];
    let (ret, printed) = capture_stdout(|| unsafe {
        C::BrotliEncoderCompress(
            r.num("q", 5) as i32,
            r.num("w", 18) as i32,
            C::BrotliEncoderMode::BROTLI_MODE_GENERIC,
            input.len(),
            input.as_ptr(),
            &mut outsize,
            ob.as_mut_ptr(),
        )
    });
    format!(
        "OK ffioneshot|{}:size{}:leakmsgs{}|{}|-",
        ret,
        outsize,
        leak_msgs(&printed),
        ffi_events()
    )
}

static PANICS: std::sync::atomic::AtomicUsize = std::sync::atomic::AtomicUsize::new(0);

fn main() {
    // panics are counted (also those the C ABI catches itself, and those of worker threads): a
    // scenario in which the library panicked is reported as such, whatever it returned
    std::panic::set_hook(Box::new(|_| {
        PANICS.fetch_add(1, std::sync::atomic::Ordering::SeqCst);
    }));
    let stdin = io::stdin();
    use std::io::BufRead;
    for line in stdin.lock().lines() {
        let line = line.unwrap();
        let toks: Vec<&str> = line.split_whitespace().collect();
        if toks.is_empty() {
            continue;
        }
        let req = Req::parse(&toks[1..]);
        let cmd = toks[0].to_string();
        let panics_before = PANICS.load(std::sync::atomic::Ordering::SeqCst);
        let ans = match guarded(AssertUnwindSafe(|| match cmd.as_str() {
            "raw" => do_raw(&req),
            "writer" => do_writer(&req),
            "reader" => do_reader(&req),
            "copy" => do_copy(&req),
            "oneshot" => do_oneshot(&req),
            "multi" => do_multi(&req),
            "ffi" => do_ffi(&req),
            "ffimulti" => do_ffimulti(&req),
            "ffioneshot" => do_ffioneshot(&req),
            _ => "BADREQ".to_string(),
        })) {
            Ok(s) => s,
            Err(e) => e,
        };
        let np = PANICS.load(std::sync::atomic::Ordering::SeqCst) - panics_before;
        let ans = if np > 0 && !ans.starts_with("PANIC") {
            format!("PANIC(inside the library, {} caught on the way) {}", np, ans)
        } else {
            ans
        };
        // answers go through the process-wide stdout handle so that anything the library
        // prints itself stays in order with them
        println!("{}", ans);
    }
}
