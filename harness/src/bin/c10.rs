// C10 harness: compresses with a custom (prefix) dictionary through the raw stream API
// (set_custom_dictionary + compress_stream) or BrotliCompressCustomIoCustomDict, decodes with
// the same dictionary through brotli-decompressor, and reports the set-up state of both sides.
//
// request :  P=<id:val,...> D=<recipe> X=<dict recipe> [A=stream|setdict0|customio:<inbuf>:<outbuf>] C=<calls>
// answer  :  <status> ; PAR q0= lg0= lw= ud0= cat0= app0= dl1= dl2=   (parameters before the call, last two dictionary bytes)
//                     ; ENC ip= lf= lp= ud= cat= app= pb= pb2= nbe= lgwin= q= rbtail=   (stream API only: state right
//                        after set_custom_dictionary; rbtail=1 when the ring buffer holds the last `ip` dictionary bytes)
//                     ; DEC wbits= cds= mbd= res=    (decoder: window bits read, dictionary bytes it kept, max backward
//                                                     distance, result 1 success 2 needs-input 3 needs-output 0 failure)
//            ## RT0=ok|differs (the stream decoded without any dictionary) RT=ok|ok-unterminated|wrong-bytes:<first diff>:<decoded len>|decode-error:<decoded len>|na  OUT=<emitted bytes> IN=<consumed>
use brotli::enc::encode::{BrotliEncoderDestroyInstance, BrotliEncoderStateStruct};
use brotli::enc::StandardAlloc;
use brotli::SliceWrapper;
use brotli::interface::{InputPair, InputReferenceMut, PredictionModeContextMap, StaticCommand};
use std::panic::{self, AssertUnwindSafe};
use vharness::streamlib::*;
use vharness::*;

include!("../dictgen.rs");

struct Enc {
    status: String,
    par: String,
    setup: String,
    emitted: Vec<u8>,
    consumed: usize,
    finished: bool,
}

fn run_enc(t: &[&str], dict: &[u8], data: &[u8]) -> Enc {
    let sc = parse_script(t);
    let mut api = "stream".to_string();
    for tok in t {
        if let Some(a) = tok.strip_prefix("A=") {
            api = a.to_string();
        }
    }
    let mut cb = |_pm: &mut PredictionModeContextMap<InputReferenceMut>, _c: &mut [StaticCommand], _mb: InputPair, _a: &mut StandardAlloc| ();
    let mut e = Enc { status: "OK".to_string(), par: "PAR na=1".to_string(), setup: "ENC na=1".to_string(), emitted: Vec::new(), consumed: 0, finished: false };
    let par_of = |p: &brotli::enc::BrotliEncoderParams| {
        format!(
            "PAR q0={} lg0={} lw={} ud0={} cat0={} app0={} dl1={} dl2={}",
            p.quality,
            p.lgwin,
            p.large_window as u8,
            p.use_dictionary as u8,
            p.catable as u8,
            p.appendable as u8,
            if dict.is_empty() { 0 } else { dict[dict.len() - 1] },
            if dict.len() < 2 { 0 } else { dict[dict.len() - 2] }
        )
    };
    if api.starts_with("customio") {
        let f: Vec<&str> = api.split(':').collect();
        let inb: usize = f.get(1).map(|x| x.parse().unwrap()).unwrap_or(4096);
        let outb: usize = f.get(2).map(|x| x.parse().unwrap()).unwrap_or(4096);
        let mut scratch = BrotliEncoderStateStruct::new(StandardAlloc::default());
        for (k, v) in &sc.params {
            scratch.set_parameter(param_of(*k), *v);
        }
        let params = scratch.params.clone();
        e.par = par_of(&params);
        BrotliEncoderDestroyInstance(&mut scratch);
        let r = panic::catch_unwind(AssertUnwindSafe(|| {
            let mut rd = std::io::Cursor::new(data);
            let mut out: Vec<u8> = Vec::new();
            let mut ib = vec![0u8; inb.max(1)];
            let mut ob = vec![0u8; outb.max(1)];
            let res = brotli::BrotliCompressCustomIoCustomDict(
                &mut brotli::IoReaderWrapper(&mut rd),
                &mut brotli::IoWriterWrapper(&mut out),
                &mut ib,
                &mut ob,
                &params,
                StandardAlloc::default(),
                &mut cb,
                dict,
                std::io::Error::new(std::io::ErrorKind::UnexpectedEof, "eof"),
            );
            (res.is_ok(), out)
        }));
        match r {
            Ok((ok, out)) => {
                e.emitted = out;
                e.consumed = data.len();
                e.finished = ok;
                if !ok {
                    e.status = "RETFALSE".to_string();
                }
            }
            Err(p) => e.status = panic_msg(p),
        }
        return e;
    }
    let mut st = BrotliEncoderStateStruct::new(StandardAlloc::default());
    for (k, v) in &sc.params {
        st.set_parameter(param_of(*k), *v);
    }
    e.par = par_of(&st.params);
    let r = panic::catch_unwind(AssertUnwindSafe(|| {
        let mut setup = "ENC na=1".to_string();
        if !dict.is_empty() || api == "setdict0" {
            st.set_custom_dictionary(dict.len(), dict);
            let ip = st.input_pos_ as usize;
            let rb = &st.ringbuffer_.data_mo.slice()[st.ringbuffer_.buffer_index.min(st.ringbuffer_.data_mo.slice().len())..];
            let rbtail = ip <= dict.len() && ip <= rb.len() && rb[..ip] == dict[dict.len() - ip..];
            setup = format!(
                "ENC ip={} lf={} lp={} ud={} cat={} app={} pb={} pb2={} nbe={} lgwin={} q={} rbtail={}",
                st.input_pos_,
                st.last_flush_pos_,
                st.last_processed_pos_,
                st.params.use_dictionary as u8,
                st.params.catable as u8,
                st.params.appendable as u8,
                st.prev_byte_,
                st.prev_byte2_,
                st.recoder_state.num_bytes_encoded,
                st.params.lgwin,
                st.params.quality,
                rbtail as u8
            );
        }
        let mut cursor = 0usize;
        let mut total_out: Option<usize> = Some(0);
        let mut out: Vec<u8> = Vec::new();
        let mut ok = true;
        for call in &sc.calls {
            if let Call::Stream { op, inl, out_cap } = call {
                let offered = match inl {
                    InLen::N(n) => *n,
                    InLen::Remaining => 0,
                };
                let end = (cursor + offered).min(data.len());
                let inbuf = &data[cursor..end];
                let mut avail_in = inbuf.len();
                let mut in_off = 0usize;
                let mut guard = 0usize;
                loop {
                    let cap = (*out_cap).max(1);
                    let mut outbuf = vec![0u8; cap];
                    let mut avail_out = cap;
                    let mut out_off = 0usize;
                    let ret = st.compress_stream(
                        op_of(*op),
                        &mut avail_in,
                        inbuf,
                        &mut in_off,
                        &mut avail_out,
                        &mut outbuf,
                        &mut out_off,
                        &mut total_out,
                        &mut cb,
                    );
                    out.extend_from_slice(&outbuf[..out_off]);
                    if !ret {
                        ok = false;
                        break;
                    }
                    guard += 1;
                    if (avail_in == 0 && (*op == 0 || !st.has_more_output())) || guard > 50_000_000 {
                        break;
                    }
                }
                cursor += in_off;
                if !ok {
                    break;
                }
            }
        }
        (ok, out, cursor, st.is_finished(), setup)
    }));
    match r {
        Ok((ok, out, cur, fin, setup)) => {
            e.emitted = out;
            e.consumed = cur;
            e.finished = fin;
            e.setup = setup;
            if !ok {
                e.status = "RETFALSE".to_string();
            }
        }
        Err(p) => e.status = panic_msg(p),
    }
    BrotliEncoderDestroyInstance(&mut st);
    e
}

/// decode with the same dictionary; returns (decoded, result code, window bits, dict bytes kept, max backward distance)
fn run_dec(stream: &[u8], dict: &[u8], cap: usize) -> (Vec<u8>, u8, u32, i32, i32) {
    use brotli_decompressor::{BrotliDecompressStream, BrotliResult, BrotliState};
    let mut st = BrotliState::new_with_custom_dictionary(
        StandardAlloc::default(),
        StandardAlloc::default(),
        StandardAlloc::default(),
        <StandardAlloc as alloc_no_stdlib::Allocator<u8>>::AllocatedMemory::from(dict.to_vec()),
    );
    let mut buf = vec![0u8; cap];
    let mut avail_in = stream.len();
    let mut in_off = 0usize;
    let mut total = 0usize;
    let mut avail_out = buf.len();
    let mut out_off = 0usize;
    let r = BrotliDecompressStream(&mut avail_in, &mut in_off, stream, &mut avail_out, &mut out_off, &mut buf, &mut total, &mut st);
    buf.truncate(out_off);
    let code = match r {
        BrotliResult::ResultSuccess => 1,
        BrotliResult::NeedsMoreInput => 2,
        BrotliResult::NeedsMoreOutput => 3,
        BrotliResult::ResultFailure => 0,
    };
    (buf, code, st.window_bits, st.custom_dict_size, st.max_backward_distance)
}

fn run_line(t: &[&str]) -> String {
    let mut dict: Vec<u8> = Vec::new();
    let mut recipe = "zero:0:0".to_string();
    for tok in t {
        if let Some(x) = tok.strip_prefix("X=") {
            let f: Vec<&str> = x.split(':').collect();
            dict = gen_input(&format!("{}:{}:{}", f[0], f[1], f[2]), &[]);
        } else if let Some(d) = tok.strip_prefix("D=") {
            recipe = d.to_string();
        }
    }
    let data = gen_input(&recipe, &dict);
    let e = run_enc(t, &dict, &data);
    let mut s = format!("{} ; {} ; {}", e.status, e.par, e.setup);
    let mut rt = "na".to_string();
    if e.status == "OK" && e.finished {
        let d = panic::catch_unwind(AssertUnwindSafe(|| run_dec(&e.emitted, &dict, e.consumed + 4096)));
        match d {
            Ok((out, code, wbits, cds, mbd)) => {
                s.push_str(&format!(" ; DEC wbits={} cds={} mbd={} res={}", wbits, cds, mbd, code));
                let want = &data[..e.consumed];
                rt = if out == want {
                    if code == 1 {
                        "ok".to_string()
                    } else {
                        "ok-unterminated".to_string()
                    }
                } else if code == 0 || out.len() != want.len() {
                    format!("decode-error:{}", out.len())
                } else {
                    let p = out.iter().zip(want.iter()).position(|(a, b)| a != b).unwrap_or(0);
                    format!("wrong-bytes:{}:{}", p, out.len())
                };
            }
            Err(p) => {
                s.push_str(" ; DEC na=1");
                rt = format!("decoder-{}", panic_msg(p)).replace(' ', "_");
            }
        }
    } else {
        s.push_str(" ; DEC na=1");
    }
    // the same stream decoded WITHOUT the dictionary: succeeds exactly when no command reaches into it
    let mut rt0 = "na".to_string();
    if e.status == "OK" && e.finished {
        let d = panic::catch_unwind(AssertUnwindSafe(|| run_dec(&e.emitted, &[], e.consumed + 4096)));
        rt0 = match d {
            Ok((out, code, _, _, _)) => {
                if out == data[..e.consumed] && code == 1 {
                    "ok".to_string()
                } else {
                    "differs".to_string()
                }
            }
            Err(_) => "decoder-panic".to_string(),
        };
    }
    s.push_str(&format!(" ## RT={} RT0={} OUT={} IN={} DICTLEN={} FIN={}", rt, rt0, e.emitted.len(), e.consumed, dict.len(), e.finished as u8));
    s
}

fn main() {
    quiet_panics();
    serve(|t| match guarded(AssertUnwindSafe(|| run_line(t))) {
        Ok(s) => s,
        Err(e) => format!("{} ; PAR na=1 ; ENC na=1 ; DEC na=1 ## RT=harness-panic", e),
    });
}
