// C11 harness: the compressing reader / writer / copy adapters of /repo over *scripted* wrapped
// streams.  Same line protocol and canonical answer format as ocaml/c11_driver.ml.
//
//   R <q> <lgwin> <staging> <srchex> <rscript> <sizes>/<drain>/<maxreads>
//   W <q> <lgwin> <obuf> <wscript> <op>,<op>,...        op = w<hex> | w- | f | c (into_inner) | d (drop)
//   C <q> <lgwin> <ibuf> <obuf> <srchex> <rscript> <wscript>
//   A <wscript> <zero_err01> <invalid_err01> <bufhex>   (writer.rs `write_all` alone)
//   script = <b>,<b>,.../<tail>    b = F | S<k> | Z | I | E<code>       (empty list: "/F")
//
// answer:  <observables compared with the model> # <facts about the implementation used by the spec>
//
// modes:  (default) supervisor: forwards every line to a `--worker` child and answers
//         `HANG(watchdog)` if the child makes no answer (a spin that makes no wrapped-stream call
//         cannot be counted; everything else is detected by call counters inside the worker);
//         --worker: runs the cases;   --encserver: real encoder behind a line protocol, used
//         by the OCaml driver to instantiate the model's abstract encoder with the real one.
use std::cell::RefCell;
use std::io::{self, BufRead, ErrorKind, Read, Write};
use std::panic::{catch_unwind, AssertUnwindSafe};
use std::rc::Rc;

use brotli::enc::backward_references::BrotliEncoderParams;
use brotli::enc::encode::{BrotliEncoderOperation, BrotliEncoderParameter, BrotliEncoderStateStruct};
use brotli::enc::StandardAlloc;
use brotli::{CompressorReader, CompressorWriter};
use vharness::*;

// ------------------------------------------------------------------ scripts

#[derive(Clone, Copy, PartialEq, Debug)]
enum Beh {
    Full,
    Short(usize),
    Zero,
    Intr,
    Fail(u32),
}
#[derive(Clone, Debug)]
struct Script {
    list: Vec<Beh>,
    pos: usize,
    tail: Beh,
}
fn parse_beh(s: &str) -> Beh {
    match s.as_bytes()[0] {
        b'F' => Beh::Full,
        b'Z' => Beh::Zero,
        b'I' => Beh::Intr,
        b'S' => Beh::Short(s[1..].parse().unwrap()),
        b'E' => Beh::Fail(s[1..].parse().unwrap()),
        _ => panic!("bad behaviour {}", s),
    }
}
fn parse_script(s: &str) -> Script {
    let mut it = s.split('/');
    let l = it.next().unwrap();
    let t = it.next().unwrap_or("F");
    Script {
        list: l.split(',').filter(|x| !x.is_empty()).map(parse_beh).collect(),
        pos: 0,
        tail: parse_beh(t),
    }
}
impl Script {
    fn next(&mut self) -> Beh {
        if self.pos < self.list.len() {
            self.pos += 1;
            self.list[self.pos - 1]
        } else {
            self.tail
        }
    }
    fn all_full() -> Script {
        Script { list: vec![], pos: 0, tail: Beh::Full }
    }
}

const LIMIT_MSG: &str = "C11-CALL-LIMIT";

/// what the scripted streams record
#[derive(Default)]
struct Shared {
    events: Vec<String>,          // "<offered>><ret>" per wrapped-stream call
    calls: usize,
    limit: usize,
    dead: bool,
    cur_call: usize,              // index of the adapter call in progress (set by the driver)
    faults: Vec<(String, usize)>, // consumed fault (E<code> | Z) and the adapter call it hit
    eof_signalled: bool,          // the wrapped reader answered Ok(0) to a non-empty buffer
}
type Sh = Rc<RefCell<Shared>>;
fn new_shared(limit: usize) -> Sh {
    Rc::new(RefCell::new(Shared { limit, ..Default::default() }))
}
fn tick(sh: &Sh) -> Option<io::Error> {
    let mut s = sh.borrow_mut();
    if s.dead {
        return Some(io::Error::new(ErrorKind::Other, "dead"));
    }
    s.calls += 1;
    if s.calls > s.limit {
        s.dead = true;
        drop(s);
        panic!("{}", LIMIT_MSG);
    }
    None
}
fn script_err(code: u32) -> io::Error {
    io::Error::new(ErrorKind::Other, format!("E{}", code))
}

struct SReader {
    src: Vec<u8>,
    pos: usize,
    script: Script,
    sh: Sh,
}
impl Read for SReader {
    fn read(&mut self, buf: &mut [u8]) -> io::Result<usize> {
        if let Some(e) = tick(&self.sh) {
            return Err(e);
        }
        let b = self.script.next();
        let rem = self.src.len() - self.pos;
        let mut sh = self.sh.borrow_mut();
        let n = match b {
            Beh::Full => buf.len().min(rem),
            Beh::Short(k) => k.min(buf.len()).min(rem),
            Beh::Zero => 0,
            Beh::Intr => {
                sh.events.push(format!("{}>I", buf.len()));
                return Err(io::Error::new(ErrorKind::Interrupted, "intr"));
            }
            Beh::Fail(c) => {
                sh.events.push(format!("{}>E{}", buf.len(), c));
                let cc = sh.cur_call;
                sh.faults.push((format!("E{}", c), cc));
                return Err(script_err(c));
            }
        };
        buf[..n].copy_from_slice(&self.src[self.pos..self.pos + n]);
        self.pos += n;
        if n == 0 && !buf.is_empty() {
            sh.eof_signalled = true;
        }
        sh.events.push(format!("{}>{}", buf.len(), n));
        Ok(n)
    }
}
struct SWriter {
    got: Rc<RefCell<Vec<u8>>>,
    script: Script,
    sh: Sh,
}
impl Write for SWriter {
    fn write(&mut self, buf: &[u8]) -> io::Result<usize> {
        if let Some(e) = tick(&self.sh) {
            return Err(e);
        }
        let b = self.script.next();
        let mut sh = self.sh.borrow_mut();
        let n = match b {
            Beh::Full => buf.len(),
            Beh::Short(k) => k.min(buf.len()),
            Beh::Zero => {
                let cc = sh.cur_call;
                sh.faults.push(("Z".to_string(), cc));
                0
            }
            Beh::Intr => {
                sh.events.push(format!("{}>I", buf.len()));
                return Err(io::Error::new(ErrorKind::Interrupted, "intr"));
            }
            Beh::Fail(c) => {
                sh.events.push(format!("{}>E{}", buf.len(), c));
                let cc = sh.cur_call;
                sh.faults.push((format!("E{}", c), cc));
                return Err(script_err(c));
            }
        };
        self.got.borrow_mut().extend_from_slice(&buf[..n]);
        sh.events.push(format!("{}>{}", buf.len(), n));
        Ok(n)
    }
    fn flush(&mut self) -> io::Result<()> {
        if let Some(e) = tick(&self.sh) {
            return Err(e);
        }
        let b = self.script.next();
        let mut sh = self.sh.borrow_mut();
        match b {
            Beh::Intr => {
                sh.events.push("f>I".to_string());
                Err(io::Error::new(ErrorKind::Interrupted, "intr"))
            }
            Beh::Fail(c) => {
                sh.events.push(format!("f>E{}", c));
                let cc = sh.cur_call;
                sh.faults.push((format!("E{}", c), cc));
                Err(script_err(c))
            }
            _ => {
                sh.events.push("f>ok".to_string());
                Ok(())
            }
        }
    }
}

// ------------------------------------------------------------------ canonical printing

fn rle(v: &[String]) -> String {
    let mut out: Vec<String> = Vec::new();
    let mut i = 0;
    while i < v.len() {
        let mut j = i;
        while j < v.len() && v[j] == v[i] {
            j += 1;
        }
        if j - i > 1 {
            out.push(format!("{}*{}", v[i], j - i));
        } else {
            out.push(v[i].clone());
        }
        i = j;
    }
    if out.is_empty() {
        "-".to_string()
    } else {
        out.join(",")
    }
}
/// long lists: count, hash of the full rle text, and its first 600 characters
fn clip(s: String) -> String {
    if s.len() <= 600 {
        s
    } else {
        format!("{}..h{}", &s[..600], hash_str(0, &s))
    }
}
fn bytes_sig(b: &[u8]) -> String {
    let mut h = 0u64;
    for x in b {
        h = hmix(h, *x as u64);
    }
    format!("{}:{}:{}", b.len(), h, if b.is_empty() { "-".to_string() } else { hex(&b[..b.len().min(24)]) })
}
fn err_name(e: &io::Error) -> String {
    match e.kind() {
        ErrorKind::InvalidData => "eINV".to_string(),
        ErrorKind::WriteZero => "eWZ".to_string(),
        ErrorKind::UnexpectedEof => "eEOF".to_string(),
        ErrorKind::Interrupted => "eINTR".to_string(),
        _ => {
            let m = format!("{}", e);
            if m.starts_with('E') {
                format!("e{}", m)
            } else {
                format!("e?{}", m.replace(' ', "_"))
            }
        }
    }
}
fn panic_res(e: Box<dyn std::any::Any + Send>) -> String {
    let m = panic_msg(e);
    if m.contains(LIMIT_MSG) {
        "H".to_string()
    } else if m.contains("Option::unwrap()") && m.contains("None") {
        "PANIC(unwrap-none)".to_string()
    } else if m.contains("out of range") || m.contains("out of bounds") || m.contains("overflow") {
        "PANIC(index)".to_string()
    } else if m.contains("assertion") {
        "PANIC(assert)".to_string()
    } else {
        m.replace(' ', "_").replace(',', ";")
    }
}
fn decodes_to(stream: &[u8], want: &[u8]) -> &'static str {
    let mut out: Vec<u8> = Vec::new();
    let mut inp = stream;
    match catch_unwind(AssertUnwindSafe(|| brotli_decompressor::BrotliDecompress(&mut inp, &mut out))) {
        Ok(Ok(())) => {
            if out == want {
                "ok"
            } else {
                "bad"
            }
        }
        _ => "bad",
    }
}
fn faults_str(sh: &Sh) -> String {
    let s = sh.borrow();
    if s.faults.is_empty() {
        "-".to_string()
    } else {
        // the first few are enough for the spec (one per adapter call at most, unless a call spins)
        s.faults.iter().take(12).map(|(f, c)| format!("{}@{}", f, c)).collect::<Vec<_>>().join(",")
    }
}

// ------------------------------------------------------------------ reader

struct ReaderRun {
    res: Vec<String>,
    events: Vec<String>,
    out: Vec<u8>,
    consumed_src: usize,
    faults: String,
    ended_eof: bool,
    stopped: bool,
    eof_signalled: bool,
}
fn run_reader(q: u32, lgwin: u32, staging: usize, src: &[u8], script: Script, sizes: &[usize], drain: usize, maxreads: usize) -> ReaderRun {
    let limit = 50_000 + 40 * src.len() + script.list.len();
    let sh = new_shared(limit);
    let r = SReader { src: src.to_vec(), pos: 0, script, sh: sh.clone() };
    let mut cr = CompressorReader::new(r, staging, q, lgwin);
    let mut res = Vec::new();
    let mut out = Vec::new();
    let mut ended_eof = false;
    let mut stopped = false;
    let mut k = 0usize;
    while k < maxreads {
        let sz = if k < sizes.len() { sizes[k] } else { drain };
        let mut buf = vec![0u8; sz];
        sh.borrow_mut().cur_call = k;
        let r = catch_unwind(AssertUnwindSafe(|| cr.read(&mut buf[..])));
        k += 1;
        match r {
            Ok(Ok(n)) => {
                res.push(format!("k{}", n));
                out.extend_from_slice(&buf[..n]);
                if n == 0 && sz > 0 {
                    ended_eof = true;
                    break;
                }
            }
            Ok(Err(e)) => res.push(err_name(&e)),
            Err(p) => {
                res.push(panic_res(p));
                stopped = true;
                break;
            }
        }
    }
    let consumed_src = cr.get_ref().pos;
    let _ = catch_unwind(AssertUnwindSafe(move || drop(cr)));
    let events = sh.borrow().events.clone();
    let faults = faults_str(&sh);
    // the input counts as read to its end when the wrapped reader said so (Ok(0)) or has nothing left
    let eof_signalled = sh.borrow().eof_signalled || consumed_src == src.len();
    ReaderRun { res, events, out, consumed_src, faults, ended_eof, stopped, eof_signalled }
}
fn parse_sizes(s: &str) -> (Vec<usize>, usize, usize) {
    let p: Vec<&str> = s.split('/').collect();
    let l = p[0].split(',').filter(|x| !x.is_empty()).map(|x| x.parse().unwrap()).collect();
    (l, p[1].parse().unwrap(), p[2].parse().unwrap())
}
fn case_reader(t: &[&str]) -> String {
    let (q, lgwin, staging) = (t[1].parse().unwrap(), t[2].parse().unwrap(), t[3].parse().unwrap());
    let src = unhex(t[4]);
    let script = parse_script(t[5]);
    let (sizes, drain, maxreads) = parse_sizes(t[6]);
    let run = run_reader(q, lgwin, staging, &src, script, &sizes, drain, maxreads);
    let all_ok = run.ended_eof && !run.stopped && run.res.iter().all(|r| r.starts_with('k'));
    let (dec, rf) = if all_ok {
        let fed = &src[..run.consumed_src];
        let reference = run_reader(q, lgwin, staging, fed, Script::all_full(), &sizes, drain, maxreads);
        (decodes_to(&run.out, fed), if reference.out == run.out { "same" } else { "diff" })
    } else {
        ("na", "na")
    };
    format!(
        "res={} rlog={} out={} # allok={} dec={} ref={} faults={} consumed={} eofseen={}",
        rle(&run.res),
        clip(rle(&run.events)),
        bytes_sig(&run.out),
        all_ok as u8,
        dec,
        rf,
        run.faults,
        run.consumed_src,
        run.eof_signalled as u8
    )
}

// ------------------------------------------------------------------ writer

struct WriterRun {
    res: Vec<String>,
    events: Vec<String>,
    sink: Vec<u8>,
    faults: String,
    written: Vec<u8>,
    closed: bool,
}
fn run_writer(q: u32, lgwin: u32, obuf: usize, script: Script, ops: &[&str]) -> WriterRun {
    let total: usize = ops.iter().map(|o| o.len()).sum();
    let limit = 50_000 + 40 * total + script.list.len();
    let sh = new_shared(limit);
    let got = Rc::new(RefCell::new(Vec::new()));
    let w = SWriter { got: got.clone(), script, sh: sh.clone() };
    let mut cw = Some(CompressorWriter::new(w, obuf, q, lgwin));
    let mut res = Vec::new();
    let mut written = Vec::new();
    let mut closed = false;
    for (k, op) in ops.iter().enumerate() {
        sh.borrow_mut().cur_call = k;
        let c = op.as_bytes()[0];
        if c == b'w' {
            let data = unhex(&op[1..]);
            let r = catch_unwind(AssertUnwindSafe(|| cw.as_mut().unwrap().write(&data[..])));
            match r {
                Ok(Ok(n)) => {
                    res.push(format!("k{}", n));
                    written.extend_from_slice(&data[..n]);
                }
                Ok(Err(e)) => res.push(err_name(&e)),
                Err(p) => {
                    res.push(panic_res(p));
                    break;
                }
            }
        } else if c == b'f' {
            let r = catch_unwind(AssertUnwindSafe(|| cw.as_mut().unwrap().flush()));
            match r {
                Ok(Ok(())) => res.push("k".to_string()),
                Ok(Err(e)) => res.push(err_name(&e)),
                Err(p) => {
                    res.push(panic_res(p));
                    break;
                }
            }
        } else {
            // c: into_inner, d: drop.  Neither can report an error; the result is "returned".
            let x = cw.take().unwrap();
            let r = if c == b'c' {
                catch_unwind(AssertUnwindSafe(move || {
                    let _ = x.into_inner();
                }))
            } else {
                catch_unwind(AssertUnwindSafe(move || drop(x)))
            };
            match r {
                Ok(()) => {
                    res.push("k".to_string());
                    closed = true;
                }
                Err(p) => res.push(panic_res(p)),
            }
            break;
        }
    }
    if let Some(x) = cw.take() {
        // not part of the observed session: make the sink inert first
        sh.borrow_mut().dead = true;
        let snapshot = got.borrow().clone();
        let _ = catch_unwind(AssertUnwindSafe(move || drop(x)));
        *got.borrow_mut() = snapshot;
    }
    let events = sh.borrow().events.clone();
    let faults = faults_str(&sh);
    let sink = got.borrow().clone();
    WriterRun { res, events, sink, faults, written, closed }
}
fn case_writer(t: &[&str]) -> String {
    let (q, lgwin, obuf) = (t[1].parse().unwrap(), t[2].parse().unwrap(), t[3].parse().unwrap());
    let script = parse_script(t[4]);
    let ops: Vec<&str> = t[5].split(',').filter(|x| !x.is_empty()).collect();
    let run = run_writer(q, lgwin, obuf, script, &ops);
    let all_ok = run.closed && run.res.len() == ops.len() && run.res.iter().all(|r| r.starts_with('k'));
    // the reference run: same caller-side session over a sink that always accepts everything
    let reference = run_writer(q, lgwin, obuf, Script::all_full(), &ops);
    let nofault = run.faults == "-";
    let rf = if nofault && run.res == reference.res {
        if reference.sink == run.sink {
            "same"
        } else {
            "diff"
        }
    } else {
        "na"
    };
    let dec = if all_ok { decodes_to(&run.sink, &run.written) } else { "na" };
    format!(
        "res={} wlog={} sink={} # allok={} dec={} ref={} faults={} closed={}",
        rle(&run.res),
        clip(rle(&run.events)),
        bytes_sig(&run.sink),
        all_ok as u8,
        dec,
        rf,
        run.faults,
        run.closed as u8
    )
}

// ------------------------------------------------------------------ copy

struct CopyRun {
    res: String,
    revents: Vec<String>,
    wevents: Vec<String>,
    sink: Vec<u8>,
    rfaults: String,
    wfaults: String,
    consumed_src: usize,
    eof_signalled: bool,
}
fn run_copy(q: i32, lgwin: i32, ibuf: usize, obuf: usize, src: &[u8], rs: Script, ws: Script) -> CopyRun {
    let limit = 50_000 + 40 * src.len() + rs.list.len() + ws.list.len();
    let rsh = new_shared(limit);
    let wsh = new_shared(limit);
    let got = Rc::new(RefCell::new(Vec::new()));
    let mut r = SReader { src: src.to_vec(), pos: 0, script: rs, sh: rsh.clone() };
    let mut w = SWriter { got: got.clone(), script: ws, sh: wsh.clone() };
    let mut params = BrotliEncoderParams::default();
    params.quality = q;
    params.lgwin = lgwin;
    let mut ib = vec![0u8; ibuf];
    let mut ob = vec![0u8; obuf];
    let rr = catch_unwind(AssertUnwindSafe(|| {
        brotli::BrotliCompressCustomAlloc(&mut r, &mut w, &mut ib[..], &mut ob[..], &params, StandardAlloc::default())
    }));
    let res = match rr {
        Ok(Ok(n)) => format!("k{}", n),
        Ok(Err(e)) => err_name(&e),
        Err(p) => panic_res(p),
    };
    let revents = rsh.borrow().events.clone();
    let wevents = wsh.borrow().events.clone();
    let sink = got.borrow().clone();
    let eof_signalled = rsh.borrow().eof_signalled || r.pos == src.len();
    CopyRun { res, revents, wevents, sink, rfaults: faults_str(&rsh), wfaults: faults_str(&wsh), consumed_src: r.pos, eof_signalled }
}
fn case_copy(t: &[&str]) -> String {
    let (q, lgwin, ibuf, obuf) = (t[1].parse().unwrap(), t[2].parse().unwrap(), t[3].parse().unwrap(), t[4].parse().unwrap());
    let src = unhex(t[5]);
    let rs = parse_script(t[6]);
    let ws = parse_script(t[7]);
    let run = run_copy(q, lgwin, ibuf, obuf, &src, rs, ws);
    let all_ok = run.res.starts_with('k');
    let fed = &src[..run.consumed_src];
    // a read error still finishes the stream: the sink must then hold a complete stream of what was read
    let complete_expected = all_ok || (run.rfaults != "-" && run.wfaults == "-");
    let (dec, rf) = if complete_expected {
        let reference = run_copy(q, lgwin, ibuf, obuf, fed, Script::all_full(), Script::all_full());
        (decodes_to(&run.sink, fed), if reference.sink == run.sink { "same" } else { "diff" })
    } else {
        ("na", "na")
    };
    format!(
        "res={} rlog={} wlog={} sink={} # allok={} dec={} ref={} rfaults={} wfaults={} consumed={} eofseen={}",
        run.res,
        clip(rle(&run.revents)),
        clip(rle(&run.wevents)),
        bytes_sig(&run.sink),
        all_ok as u8,
        dec,
        rf,
        run.rfaults,
        run.wfaults,
        run.consumed_src,
        run.eof_signalled as u8
    )
}

// ------------------------------------------------------------------ write_all alone

fn case_write_all(t: &[&str]) -> String {
    let script = parse_script(t[1]);
    let mut zero_err = if t[2] == "1" { Some(io::Error::new(ErrorKind::WriteZero, "No room in output.")) } else { None };
    let mut inv_err = if t[3] == "1" { Some(io::Error::new(ErrorKind::InvalidData, "Invalid Data")) } else { None };
    let buf = unhex(t[4]);
    let sh = new_shared(10_000 + 4 * buf.len() + script.list.len());
    let got = Rc::new(RefCell::new(Vec::new()));
    let mut w = brotli::enc::writer::IntoIoWriter(SWriter { got: got.clone(), script, sh: sh.clone() });
    let r = catch_unwind(AssertUnwindSafe(|| {
        brotli::enc::writer::write_all(&mut w, &buf[..], || {
            if let Some(e) = zero_err.take() {
                return Some(e);
            }
            inv_err.take()
        })
    }));
    let res = match r {
        Ok(Ok(())) => "k".to_string(),
        Ok(Err(e)) => err_name(&e),
        Err(p) => panic_res(p),
    };
    let sink = got.borrow().clone();
    let prefix = sink.len() <= buf.len() && sink[..] == buf[..sink.len()];
    let events = sh.borrow().events.clone();
    format!(
        "res={} wlog={} sink={} left={}{} # prefix={} complete={} faults={}",
        res,
        clip(rle(&events)),
        bytes_sig(&sink),
        zero_err.is_some() as u8,
        inv_err.is_some() as u8,
        prefix as u8,
        (sink.len() == buf.len()) as u8,
        faults_str(&sh)
    )
}

// ------------------------------------------------------------------ the real encoder behind a line protocol

fn enc_server() {
    let nop = &mut |_a: &mut brotli::interface::PredictionModeContextMap<brotli::InputReferenceMut>,
                    _b: &mut [brotli::interface::StaticCommand],
                    _c: brotli::InputPair,
                    _d: &mut StandardAlloc| ();
    let mut st: Option<BrotliEncoderStateStruct<StandardAlloc>> = None;
    let stdin = io::stdin();
    let stdout = io::stdout();
    let mut out = stdout.lock();
    for line in stdin.lock().lines() {
        let line = line.unwrap();
        let t: Vec<&str> = line.split_whitespace().collect();
        if t.is_empty() {
            continue;
        }
        let ans = match t[0] {
            "new" => {
                let mut s = BrotliEncoderStateStruct::new(StandardAlloc::default());
                s.set_parameter(BrotliEncoderParameter::BROTLI_PARAM_QUALITY, t[1].parse().unwrap());
                s.set_parameter(BrotliEncoderParameter::BROTLI_PARAM_LGWIN, t[2].parse().unwrap());
                st = Some(s);
                "ok".to_string()
            }
            "step" => {
                let s = st.as_mut().unwrap();
                let op = match t[1] {
                    "P" => BrotliEncoderOperation::BROTLI_OPERATION_PROCESS,
                    "L" => BrotliEncoderOperation::BROTLI_OPERATION_FLUSH,
                    _ => BrotliEncoderOperation::BROTLI_OPERATION_FINISH,
                };
                let cap: usize = t[2].parse().unwrap();
                let inp = unhex(t[3]);
                let mut avail_in = inp.len();
                let mut in_off = 0usize;
                let mut avail_out = cap;
                let mut out_off = 0usize;
                let mut ob = vec![0u8; cap];
                let mut total = Some(0usize);
                let r = catch_unwind(AssertUnwindSafe(|| {
                    s.compress_stream(op, &mut avail_in, &inp[..], &mut in_off, &mut avail_out, &mut ob[..], &mut out_off, &mut total, nop)
                }));
                match r {
                    Ok(ok) => format!(
                        "{} {} {} {} {}",
                        in_off,
                        ok as u8,
                        s.is_finished() as u8,
                        s.has_more_output() as u8,
                        if out_off == 0 { "-".to_string() } else { hex(&ob[..out_off]) }
                    ),
                    Err(p) => format!("PANIC {}", panic_msg(p).replace(' ', "_")),
                }
            }
            _ => "BADREQ".to_string(),
        };
        writeln!(out, "{}", ans).unwrap();
        out.flush().unwrap();
    }
}

// ------------------------------------------------------------------ worker / supervisor

fn answer(t: &[&str]) -> String {
    let r = catch_unwind(AssertUnwindSafe(|| match t[0] {
        "R" => case_reader(t),
        "W" => case_writer(t),
        "C" => case_copy(t),
        "A" => case_write_all(t),
        _ => "BADREQ".to_string(),
    }));
    match r {
        Ok(s) => s,
        Err(p) => format!("TOOL-PANIC {}", panic_msg(p)),
    }
}

fn worker() {
    quiet_panics();
    let stdin = io::stdin();
    let stdout = io::stdout();
    let mut out = stdout.lock();
    for line in stdin.lock().lines() {
        let line = line.unwrap();
        let t: Vec<&str> = line.split_whitespace().collect();
        if t.is_empty() {
            continue;
        }
        writeln!(out, "{}", answer(&t)).unwrap();
        out.flush().unwrap();
    }
}

struct Child {
    proc_: std::process::Child,
    tx: std::process::ChildStdin,
    rx: std::sync::mpsc::Receiver<String>,
}
fn spawn_worker() -> Child {
    let exe = std::env::current_exe().unwrap();
    let mut p = std::process::Command::new(exe)
        .arg("--worker")
        .stdin(std::process::Stdio::piped())
        .stdout(std::process::Stdio::piped())
        .stderr(std::process::Stdio::null())
        .spawn()
        .unwrap();
    let tx = p.stdin.take().unwrap();
    let so = p.stdout.take().unwrap();
    let (s, rx) = std::sync::mpsc::channel();
    std::thread::spawn(move || {
        let br = io::BufReader::new(so);
        for l in br.lines() {
            match l {
                Ok(l) => {
                    if s.send(l).is_err() {
                        break;
                    }
                }
                Err(_) => break,
            }
        }
    });
    Child { proc_: p, tx, rx }
}
fn supervisor() {
    let secs: u64 = std::env::var("C11_WATCHDOG_SECS").ok().and_then(|x| x.parse().ok()).unwrap_or(30);
    let mut ch = spawn_worker();
    let stdin = io::stdin();
    let stdout = io::stdout();
    let mut out = io::BufWriter::new(stdout.lock());
    // once a few cases have hung there is a failing input to report; do not spend the watchdog
    // time on every further case of this shard (the check treats SKIPPED as "not run")
    let mut hangs = 0usize;
    for line in stdin.lock().lines() {
        let line = line.unwrap();
        if line.trim().is_empty() {
            continue;
        }
        if hangs >= 2 {
            writeln!(out, "res=SKIPPED # hang budget of this shard exhausted").unwrap();
            continue;
        }
        let sent = writeln!(ch.tx, "{}", line).and_then(|_| ch.tx.flush());
        let ans = if sent.is_err() {
            None
        } else {
            ch.rx.recv_timeout(std::time::Duration::from_secs(secs)).ok()
        };
        match ans {
            Some(a) => writeln!(out, "{}", a).unwrap(),
            None => {
                // no answer: either the worker died (abort) or it spins without making any
                // wrapped-stream call (nothing to count) - kill it and start a fresh one
                let died = matches!(ch.proc_.try_wait(), Ok(Some(_)));
                let _ = ch.proc_.kill();
                let _ = ch.proc_.wait();
                hangs += 1;
                writeln!(out, "res={} # watchdog", if died { "ABORT" } else { "HANG" }).unwrap();
                ch = spawn_worker();
            }
        }
    }
    out.flush().unwrap();
    let _ = ch.proc_.kill();
    let _ = ch.proc_.wait();
}

fn main() {
    let a: Vec<String> = std::env::args().collect();
    if a.len() > 1 && a[1] == "--worker" {
        worker();
    } else if a.len() > 1 && a[1] == "--encserver" {
        quiet_panics();
        enc_server();
    } else {
        supervisor();
    }
}
