// C13 harness: the exported C functions against the equivalent Rust calls.
//   P <script tokens>          physical script through Rust API, C ABI (default alloc), C ABI (custom alloc)
//   M P=.. D=.. T=<threads> B=<out buffer: bound|n> E=multi|pool X=<custom alloc 0|1>
//   K E=create|pool|multi|wpool A=<alloc callback 0|1> F=<free callback 0|1> T=<threads>
//       contract violations at the C boundary (a lone alloc or free callback) and the consistent pairs as controls;
//       the check runs every K request in a process of its own: an abort is then visible as a dead process
use alloc_no_stdlib::SliceWrapper;
use brotli::enc::backward_references::{BrotliEncoderParams, UnionHasher};
use brotli::enc::threading::{Owned, SendAlloc};
use brotli::enc::StandardAlloc;
use brotli::ffi::broccoli::c_void;
use vharness::streamlib::*;
use vharness::*;

struct VecW(Vec<u8>);
impl SliceWrapper<u8> for VecW {
    fn slice(&self) -> &[u8] {
        &self.0
    }
}

fn kv<'a>(t: &'a [&'a str], key: &str) -> Option<&'a str> {
    t.iter().find_map(|x| x.strip_prefix(key))
}

fn run_p(t: &[&str]) -> String {
    let sc = parse_script(t);
    let (r1, e1) = run_physical(&mut RustEnc::new(StandardAlloc::default()), &sc);
    let (r2, e2) = run_physical(&mut cabi::CEnc::new(false), &sc);
    let before = cabi::ALLOCS.with(|a| *a.borrow());
    let (r3, e3) = {
        let mut c = cabi::CEnc::new(true);
        run_physical(&mut c, &sc)
    };
    let after = cabi::ALLOCS.with(|a| *a.borrow());
    let live = cabi::LEDGER.with(|l| l.borrow().len());
    format!(
        "{} ## {} ## {} ## EM={} {} {} ALLOC={} FREE={} BADFREE={} LIVE={}",
        r1.join(" ; "),
        r2.join(" ; "),
        r3.join(" ; "),
        hash_str(0, &hex(&e1)),
        hash_str(0, &hex(&e2)),
        hash_str(0, &hex(&e3)),
        after.0 - before.0,
        after.1 - before.1,
        after.2 - before.2,
        live
    )
}

fn run_k(t: &[&str]) -> String {
    let entry = kv(t, "E=").unwrap_or("create");
    let a = kv(t, "A=").unwrap_or("0") == "1";
    let f = kv(t, "F=").unwrap_or("0") == "1";
    let threads: usize = kv(t, "T=").unwrap_or("2").parse().unwrap();
    let af: brotli_decompressor::ffi::interface::brotli_alloc_func = if a { Some(cabi::c_alloc) } else { None };
    let ff: brotli_decompressor::ffi::interface::brotli_free_func = if f { Some(cabi::c_free) } else { None };
    let data = gen_data("text", 3000, 77);
    let before = cabi::ALLOCS.with(|x| *x.borrow());
    let verdict: String = unsafe {
        match entry {
            "create" => {
                let st = brotli::ffi::compressor::BrotliEncoderCreateInstance(af, ff, core::ptr::null_mut());
                if st.is_null() {
                    "null".to_string()
                } else {
                    // the instance must be usable and destroyable
                    let mut out = vec![0u8; 8192];
                    let mut avail_in = data.len();
                    let mut next_in = data.as_ptr();
                    let mut avail_out = out.len();
                    let mut next_out = out.as_mut_ptr();
                    let mut total = 0usize;
                    let r = brotli::ffi::compressor::BrotliEncoderCompressStream(
                        st,
                        brotli::ffi::compressor::BrotliEncoderOperation::BROTLI_OPERATION_FINISH,
                        &mut avail_in, &mut next_in, &mut avail_out, &mut next_out, &mut total,
                    );
                    let n = out.len() - avail_out;
                    brotli::ffi::compressor::BrotliEncoderDestroyInstance(st);
                    let ok = r != 0 && decode_all(&out[..n]).map(|x| x == data).unwrap_or(false);
                    format!("inst:{}", if ok { "ok" } else { "bad" })
                }
            }
            "pool" => {
                let p = brotli::ffi::multicompress::BrotliEncoderCreateWorkPool(threads, af, ff, core::ptr::null_mut());
                if p.is_null() {
                    "null".to_string()
                } else {
                    brotli::ffi::multicompress::BrotliEncoderDestroyWorkPool(p);
                    "pool:ok".to_string()
                }
            }
            _ => {
                let keys = [brotli::enc::encode::BrotliEncoderParameter::BROTLI_PARAM_QUALITY];
                let vals = [5u32];
                let cap = brotli::ffi::multicompress::BrotliEncoderMaxCompressedSizeMulti(data.len(), threads.max(1).min(16));
                let mut out = vec![0u8; cap];
                let mut size = cap;
                let r = if entry == "multi" {
                    brotli::ffi::multicompress::BrotliEncoderCompressMulti(
                        1, keys.as_ptr(), vals.as_ptr(), data.len(), data.as_ptr(), &mut size, out.as_mut_ptr(), threads, af, ff,
                        core::ptr::null_mut::<*mut c_void>(),
                    )
                } else {
                    brotli::ffi::multicompress::BrotliEncoderCompressWorkPool(
                        core::ptr::null_mut(), 1, keys.as_ptr(), vals.as_ptr(), data.len(), data.as_ptr(), &mut size, out.as_mut_ptr(), threads, af, ff,
                        core::ptr::null_mut::<*mut c_void>(),
                    )
                };
                if r == 0 {
                    "ret:0".to_string()
                } else if size <= cap && decode_all(&out[..size]).map(|x| x == data).unwrap_or(false) {
                    "ret:ok".to_string()
                } else {
                    "ret:bad".to_string()
                }
            }
        }
    };
    let after = cabi::ALLOCS.with(|x| *x.borrow());
    let live = cabi::LEDGER.with(|l| l.borrow().len());
    format!("K V={} ALLOC={} FREE={} BADFREE={} LIVE={}", verdict, after.0 - before.0, after.1 - before.1, after.2 - before.2, live)
}

fn run_m(t: &[&str]) -> String {
    let plist: Vec<(u32, u32)> = kv(t, "P=")
        .unwrap_or("")
        .split(',')
        .filter(|x| !x.is_empty())
        .map(|kv| {
            let mut it = kv.split(':');
            let k: u32 = it.next().unwrap().parse().unwrap();
            let v: i64 = it.next().unwrap().parse().unwrap();
            (k, v as u32)
        })
        .collect();
    let d: Vec<&str> = kv(t, "D=").unwrap().split(':').collect();
    let data = gen_data(d[0], d[1].parse().unwrap(), d[2].parse().unwrap());
    let threads: usize = kv(t, "T=").unwrap_or("1").parse().unwrap();
    let custom = kv(t, "X=").unwrap_or("0") == "1";
    let entry = kv(t, "E=").unwrap_or("multi");
    let bound = unsafe { brotli::ffi::multicompress::BrotliEncoderMaxCompressedSizeMulti(data.len(), threads.max(1).min(16)) };
    let cap: usize = match kv(t, "B=").unwrap_or("bound") {
        "bound" => bound,
        n => n.parse().unwrap(),
    };
    let keys: Vec<brotli::enc::encode::BrotliEncoderParameter> = plist.iter().map(|x| param_of(x.0)).collect();
    let vals: Vec<u32> = plist.iter().map(|x| x.1).collect();
    let mut out = vec![0u8; cap];
    let mut size = cap;
    let (af, ff): (brotli_decompressor::ffi::interface::brotli_alloc_func, brotli_decompressor::ffi::interface::brotli_free_func) =
        if custom { (Some(cabi::c_alloc), Some(cabi::c_free)) } else { (None, None) };
    let before = cabi::ALLOCS.with(|a| *a.borrow());
    let ret = unsafe {
        let inp = if data.is_empty() { core::ptr::null() } else { data.as_ptr() };
        let outp = if cap == 0 { core::ptr::null_mut() } else { out.as_mut_ptr() };
        let kp = if keys.is_empty() { core::ptr::null() } else { keys.as_ptr() };
        let vp = if vals.is_empty() { core::ptr::null() } else { vals.as_ptr() };
        if entry == "pool" {
            let pool = brotli::ffi::multicompress::BrotliEncoderCreateWorkPool(threads.max(1), af, ff, core::ptr::null_mut());
            let r1 = brotli::ffi::multicompress::BrotliEncoderCompressWorkPool(
                pool, keys.len(), kp, vp, data.len(), inp, &mut size, outp, threads, af, ff, core::ptr::null_mut::<*mut c_void>(),
            );
            // the pool stays usable: a second batch on the same pool must give the same bytes
            let mut out2 = vec![0u8; cap];
            let mut size2 = cap;
            let r2 = brotli::ffi::multicompress::BrotliEncoderCompressWorkPool(
                pool, keys.len(), kp, vp, data.len(), inp, &mut size2, if cap == 0 { core::ptr::null_mut() } else { out2.as_mut_ptr() }, threads, af, ff,
                core::ptr::null_mut::<*mut c_void>(),
            );
            brotli::ffi::multicompress::BrotliEncoderDestroyWorkPool(pool);
            if r1 != r2 || (r1 != 0 && (size != size2 || out[..size] != out2[..size2])) {
                -7
            } else {
                r1
            }
        } else {
            brotli::ffi::multicompress::BrotliEncoderCompressMulti(
                keys.len(), kp, vp, data.len(), inp, &mut size, outp, threads, af, ff, core::ptr::null_mut::<*mut c_void>(),
            )
        }
    };
    let after = cabi::ALLOCS.with(|a| *a.borrow());
    // the equivalent Rust call
    let mut params = BrotliEncoderParams::default();
    let mut params_ok = true;
    for (id, v) in &plist {
        if !brotli::enc::encode::set_parameter(&mut params, param_of(*id), *v) {
            params_ok = false;
        }
    }
    let nt = threads.min(16);
    let (rret, rout) = if nt == 0 {
        (0, Vec::new())
    } else if nt == 1 && entry != "pool" {
        // with one thread BrotliEncoderCompressMulti (and the work-pool function when given a NULL pool, which this
        // harness never does) is, by construction, a plain one-call stream compression; with a real pool the
        // work-pool function runs the multi-threaded machinery with one job, whose Rust equivalent is below:
        // set every parameter (a refused one is skipped), FINISH once, success iff finished
        let mut e = RustEnc::new(StandardAlloc::default());
        for (id, v) in &plist {
            e.set_param(*id, *v);
        }
        let (r, _consumed, produced, _tot) = e.stream(2, &data, cap);
        if r && e.finished() {
            (1, produced)
        } else {
            (0, Vec::new())
        }
    } else {
        let mut allocs: Vec<_> = (0..nt).map(|_| SendAlloc::new(StandardAlloc::default(), UnionHasher::Uninit)).collect();
        let mut o = vec![0u8; cap];
        let mut owned = Owned::new(VecW(data.clone()));
        match brotli::enc::compress_multi_no_threadpool(&params, &mut owned, &mut o, &mut allocs[..]) {
            Ok(n) => {
                o.truncate(n);
                (1, o)
            }
            Err(_) => (0, Vec::new()),
        }
    };
    let dec = if ret == 1 {
        if size > cap {
            "overrun"
        } else {
            match decode_all(&out[..size]) {
                Some(x) => {
                    if x == data {
                        "ok"
                    } else {
                        "fail"
                    }
                }
                None => "fail",
            }
        }
    } else {
        "na"
    };
    format!(
        "RET={} SIZE={} DEC={} RRET={} SAME={} PARAMSOK={} BOUND={} ALLOC={} FREE={} BADFREE={}",
        ret,
        if ret == 1 { size as i64 } else { -1 },
        dec,
        rret,
        (ret == 1 && rret == 1 && out[..size.min(cap)] == rout[..]) as u8,
        params_ok as u8,
        bound,
        after.0 - before.0,
        after.1 - before.1,
        after.2 - before.2
    )
}

fn main() {
    quiet_panics();
    serve(|t| {
        let r = guarded(std::panic::AssertUnwindSafe(|| match t[0] {
            "P" => run_p(&t[1..]),
            "M" => run_m(&t[1..]),
            "K" => run_k(&t[1..]),
            _ => "BADREQ".to_string(),
        }));
        match r {
            Ok(s) => s,
            Err(e) => e,
        }
    });
}
