// C14 harness: installs the meta-block callback, dumps every IR command list together with
// the meta-block input slices and the encoder's own command list (verif_ir hook), and replays
// the IR on the implementation alone.
//
// request :  P=<id:val,...> D=<recipe> [X=<dict recipe>] [A=stream|customio:<inbuf>:<outbuf>] C=<calls>
//            (C= as in streamlib: p<n>/<cap> f<n>/<cap> e<n>/<cap>; ignored for A=customio)
// answer  :  <status> ; dict=<hex> ; <mb record> ; <mb record> ... ## K=V ...
//   status    = OK | PANIC(..) | RETFALSE
//   mb record = space separated K=V tokens:
//       nbe lgwin nd np he ct dc=a,b,c,d l0 l1 mb=<hex> bl=<ntypes>/<t:l,..> bc= bd= cmds=<i.c.e.p.d,..> ir=<..>
//   IR items  : c<dist>:<n>  d<word_size>:<transform>:<final_size>:<empty>:<word_id>  l<offset>:<len>:<he>
//               L<type>:<stride>  C<type>  D<type>
//   verdicts  : REPLAY=ok|<why>  TILE=ok|<why>  DEC=ok|fail|na  NMB  NDICT NCOPY NLIT NSW WRAP DCOPY(copies into custom dict)
use brotli::enc::brotli_bit_stream::verif_ir;
use brotli::enc::encode::{BrotliEncoderDestroyInstance, BrotliEncoderStateStruct};
use brotli::enc::StandardAlloc;
use brotli::interface::{Command, InputPair, InputReferenceMut, PredictionModeContextMap, StaticCommand};
use std::panic::{self, AssertUnwindSafe};
use vharness::streamlib::*;
use vharness::*;

include!("../dictgen.rs");

#[derive(Default)]
struct MbDump {
    mb0: Vec<u8>,
    mb1: Vec<u8>,
    ir: Vec<String>,
    lit_bad: Option<String>,
}

fn split_str(s: &verif_ir::Split) -> String {
    let items: Vec<String> = s.types.iter().zip(s.lengths.iter()).map(|(t, l)| format!("{}:{}", t, l)).collect();
    format!("{}/{}{}", s.num_types, items.join(","), if s.types.len() != s.lengths.len() { "!" } else { "" })
}

struct Outcome {
    status: String,
    dumps: Vec<MbDump>,
    recs: Vec<verif_ir::Rec>,
    emitted: Vec<u8>,
    consumed: usize,
    finished: bool,
}

fn ir_item(c: &StaticCommand) -> String {
    match c {
        Command::Copy(x) => format!("c{}:{}", x.distance, x.num_bytes),
        Command::Dict(d) => format!("d{}:{}:{}:{}:{}", d.word_size, d.transform, d.final_size, d.empty, d.word_id),
        Command::Literal(l) => format!("l{}:{}:{}", l.data.offset(), l.data.len(), l.high_entropy as u8),
        Command::BlockSwitchLiteral(b) => format!("L{}:{}", b.block_type(), b.stride()),
        Command::BlockSwitchCommand(b) => format!("C{}", b.block_type()),
        Command::BlockSwitchDistance(b) => format!("D{}", b.block_type()),
        Command::PredictionMode(_) => "P".to_string(),
    }
}

fn run_case(t: &[&str]) -> Outcome {
    let mut sc = parse_script(t);
    let mut dict: Vec<u8> = Vec::new();
    let mut api = "stream".to_string();
    let mut recipe = "zero:0:0".to_string();
    for tok in t {
        if let Some(x) = tok.strip_prefix("X=") {
            let f: Vec<&str> = x.split(':').collect();
            dict = gen_input(&format!("{}:{}:{}", f[0], f[1], f[2]), &[]);
        } else if let Some(a) = tok.strip_prefix("A=") {
            api = a.to_string();
        } else if let Some(d) = tok.strip_prefix("D=") {
            recipe = d.to_string();
        }
    }
    sc.data = gen_input(&recipe, &dict);
    let dumps: std::cell::RefCell<Vec<MbDump>> = std::cell::RefCell::new(Vec::new());
    let mut cb = |_pm: &mut PredictionModeContextMap<InputReferenceMut>, cmds: &mut [StaticCommand], mb: InputPair, _a: &mut StandardAlloc| {
        let mut d = MbDump { mb0: mb.0.data.to_vec(), mb1: mb.1.data.to_vec(), ..Default::default() };
        for c in cmds.iter() {
            d.ir.push(ir_item(c));
            // thaw_pair is the crate's own way back from the frozen slice to bytes: it must succeed
            if let Command::Literal(l) = c {
                let ok = panic::catch_unwind(AssertUnwindSafe(|| {
                    use brotli::interface::Unfreezable;
                    l.data.thaw_pair(&mb).map(|r| r.data.len() == l.data.len()).unwrap_or(false)
                }));
                if !matches!(ok, Ok(true)) && d.lit_bad.is_none() {
                    d.lit_bad = Some(format!("literal-slice-not-thawable:{}:{}", l.data.offset(), l.data.len()));
                }
            }
        }
        dumps.borrow_mut().push(d);
    };
    verif_ir::enable();
    let _ = verif_ir::take();
    let mut emitted: Vec<u8> = Vec::new();
    let mut consumed = 0usize;
    let mut finished = false;
    let mut status = "OK".to_string();
    if api.starts_with("customio") {
        let f: Vec<&str> = api.split(':').collect();
        let inb: usize = f.get(1).map(|x| x.parse().unwrap()).unwrap_or(4096);
        let outb: usize = f.get(2).map(|x| x.parse().unwrap()).unwrap_or(4096);
        // parameters go through set_parameter on a scratch state, as the C ABI would set them
        let mut scratch = BrotliEncoderStateStruct::new(StandardAlloc::default());
        for (k, v) in &sc.params {
            scratch.set_parameter(param_of(*k), *v);
        }
        let params = scratch.params.clone();
        BrotliEncoderDestroyInstance(&mut scratch);
        let data = sc.data.clone();
        let r = panic::catch_unwind(AssertUnwindSafe(|| {
            let mut rd = std::io::Cursor::new(&data[..]);
            let mut out: Vec<u8> = Vec::new();
            let mut ib = vec![0u8; inb.max(1)];
            let mut ob = vec![0u8; outb.max(1)];
            let res = brotli::BrotliCompressCustomIoCustomDict(
                &mut brotli::IoReaderWrapper(&mut rd),
                &mut brotli::IoWriterWrapper(&mut out),
                &mut ib,
                &mut ob,
                &params,
                StandardAlloc::default(),
                &mut cb,
                &dict,
                std::io::Error::new(std::io::ErrorKind::UnexpectedEof, "eof"),
            );
            (res.is_ok(), out)
        }));
        match r {
            Ok((ok, out)) => {
                emitted = out;
                consumed = data.len();
                finished = ok;
                if !ok {
                    status = "RETFALSE".to_string();
                }
            }
            Err(e) => status = panic_msg(e),
        }
    } else {
        let mut st = BrotliEncoderStateStruct::new(StandardAlloc::default());
        for (k, v) in &sc.params {
            st.set_parameter(param_of(*k), *v);
        }
        let r = panic::catch_unwind(AssertUnwindSafe(|| {
            if !dict.is_empty() || api == "streamdict0" {
                st.set_custom_dictionary(dict.len(), &dict);
            }
            let mut cursor = 0usize;
            let mut total_out: Option<usize> = Some(0);
            let mut out: Vec<u8> = Vec::new();
            let mut ok = true;
            for call in &sc.calls {
                if let Call::Stream { op, inl, out_cap } = call {
                    let offered = match inl {
                        InLen::N(n) => *n,
                        InLen::Remaining => 0,
                    };
                    let end = (cursor + offered).min(sc.data.len());
                    let inbuf = &sc.data[cursor..end];
                    let mut avail_in = inbuf.len();
                    let mut in_off = 0usize;
                    // every call is repeated until its input is taken and (flush/finish) nothing is pending
                    let mut guard = 0usize;
                    loop {
                        let mut outbuf = vec![0u8; *out_cap];
                        let mut avail_out = *out_cap;
                        let mut out_off = 0usize;
                        let ret = st.compress_stream(
                            op_of(*op),
                            &mut avail_in,
                            inbuf,
                            &mut in_off,
                            &mut avail_out,
                            &mut outbuf,
                            &mut out_off,
                            &mut total_out,
                            &mut cb,
                        );
                        out.extend_from_slice(&outbuf[..out_off]);
                        if !ret {
                            ok = false;
                            break;
                        }
                        guard += 1;
                        if (avail_in == 0 && (*op == 0 || !st.has_more_output())) || guard > 1_000_000 {
                            break;
                        }
                        if *out_cap == 0 {
                            let mut size = 0usize;
                            let got = st.take_output(&mut size).to_vec();
                            out.extend_from_slice(&got);
                        }
                    }
                    cursor += in_off;
                    if !ok {
                        break;
                    }
                }
            }
            (ok, out, cursor, st.is_finished())
        }));
        match r {
            Ok((ok, out, cur, fin)) => {
                emitted = out;
                consumed = cur;
                finished = fin;
                if !ok {
                    status = "RETFALSE".to_string();
                }
            }
            Err(e) => status = panic_msg(e),
        }
        BrotliEncoderDestroyInstance(&mut st);
    }
    let recs = verif_ir::take();
    let _ = (&dict, &sc.data);
    Outcome { status, dumps: dumps.into_inner(), recs, emitted, consumed, finished }
}

/// the property on the implementation alone: replay every IR list over (dict ++ previous output)
fn replay(dict: &[u8], o: &Outcome, input: &[u8]) -> (String, String, [usize; 7]) {
    let mut hist: Vec<u8> = dict.to_vec();
    let mut verdict = "ok".to_string();
    let mut tile = "ok".to_string();
    let mut cnt = [0usize; 7]; // dict copy lit switches wrap dcopy nmb
    let mut at = 0usize; // position in the input
    for (k, d) in o.dumps.iter().enumerate() {
        cnt[6] += 1;
        let mut mb = d.mb0.clone();
        mb.extend_from_slice(&d.mb1);
        if !d.mb1.is_empty() {
            cnt[4] += 1;
        }
        if tile == "ok" && (at + mb.len() > input.len() || input[at..at + mb.len()] != mb[..]) {
            tile = format!("mb{}:slices-are-not-input[{}..{}]", k, at, at + mb.len());
        }
        let start = hist.len();
        let mut pos = 0usize;
        let mut fail: Option<String> = d.lit_bad.clone();
        for (j, it) in d.ir.iter().enumerate() {
            if fail.is_some() {
                break;
            }
            let (h, rest) = it.split_at(1);
            let f: Vec<u64> = rest.split(':').filter(|x| !x.is_empty()).map(|x| x.parse().unwrap()).collect();
            match h {
                "c" => {
                    cnt[1] += 1;
                    let (dist, n) = (f[0] as usize, f[1] as usize);
                    if dist == 0 || dist > hist.len() {
                        fail = Some(format!("mb{}:ir{}:copy-distance-{}-beyond-{}-produced", k, j, dist, hist.len()));
                        break;
                    }
                    if dist > hist.len() - dict.len() {
                        cnt[5] += 1;
                    }
                    for _ in 0..n {
                        let b = hist[hist.len() - dist];
                        hist.push(b);
                    }
                    pos += n;
                }
                "d" => {
                    cnt[0] += 1;
                    let (ws, tr, fs, _e, id) = (f[0] as usize, f[1] as usize, f[2] as usize, f[3], f[4] as usize);
                    use brotli_decompressor::dictionary::{kBrotliDictionary, kBrotliDictionaryOffsetsByLength, kBrotliDictionarySizeBitsByLength};
                    if !(4..=24).contains(&ws) || tr >= 121 || id >= (1usize << kBrotliDictionarySizeBitsByLength[ws]) {
                        fail = Some(format!("mb{}:ir{}:no-such-dictionary-word-{}-{}-{}", k, j, ws, id, tr));
                        break;
                    }
                    let off = kBrotliDictionaryOffsetsByLength[ws] as usize + ws * id;
                    let mut dst = [0u8; 64];
                    let n = brotli::TransformDictionaryWord(&mut dst, &kBrotliDictionary[off..off + ws], ws as i32, tr as i32) as usize;
                    if n != fs {
                        fail = Some(format!("mb{}:ir{}:dict-final-size-{}-but-expands-to-{}", k, j, fs, n));
                        break;
                    }
                    hist.extend_from_slice(&dst[..n]);
                    pos += n;
                }
                "l" => {
                    cnt[2] += 1;
                    let (off, n) = (f[0] as usize, f[1] as usize);
                    if off != pos || off + n > mb.len() {
                        fail = Some(format!("mb{}:ir{}:literal-slice-{}+{}-at-position-{}-of-{}", k, j, off, n, pos, mb.len()));
                        break;
                    }
                    hist.extend_from_slice(&mb[off..off + n]);
                    pos += n;
                }
                "L" | "C" | "D" => cnt[3] += 1,
                _ => {
                    fail = Some(format!("mb{}:ir{}:unexpected-command-{}", k, j, it));
                }
            }
        }
        if fail.is_none() && hist[start..] != mb[..] {
            let n = hist.len() - start;
            let p = hist[start..].iter().zip(mb.iter()).position(|(a, b)| a != b).unwrap_or(n.min(mb.len()));
            fail = Some(format!("mb{}:replay-differs-from-input-at-{}-(replayed-{}-of-{})", k, p, n, mb.len()));
        }
        if let Some(m) = fail {
            if verdict == "ok" {
                verdict = m;
            }
            // resynchronise on the true input so that later meta-blocks are still checked
            hist.truncate(start);
            hist.extend_from_slice(&mb);
        }
        at += mb.len();
    }
    if tile == "ok" && o.status == "OK" && at != o.consumed {
        tile = format!("slices-cover-{}-of-{}-consumed", at, o.consumed);
    }
    (verdict, tile, cnt)
}

fn run_line(t: &[&str]) -> String {
    let o = run_case(t);
    // regenerate dict / data exactly as run_case did
    let mut dict: Vec<u8> = Vec::new();
    let mut recipe = "zero:0:0".to_string();
    for tok in t {
        if let Some(x) = tok.strip_prefix("X=") {
            let f: Vec<&str> = x.split(':').collect();
            dict = gen_input(&format!("{}:{}:{}", f[0], f[1], f[2]), &[]);
        } else if let Some(d) = tok.strip_prefix("D=") {
            recipe = d.to_string();
        }
    }
    let data = gen_input(&recipe, &dict);
    let mut s = o.status.clone();
    s.push_str(&format!(" ; dict={}", if dict.is_empty() { "-".to_string() } else { hex(&dict) }));
    let n = o.dumps.len().max(o.recs.len());
    let mut at = 0usize;
    for k in 0..n {
        s.push_str(" ; ");
        if let Some(r) = o.recs.get(k) {
            let cmds: Vec<String> = r.commands.iter().map(|c| format!("{}.{}.{}.{}.{}", c[0], c[1], c[2], c[3], c[4])).collect();
            s.push_str(&format!(
                "nbe={} lgwin={} nd={} np={} he={} ct={} dc={},{},{},{} l0={} l1={} bl={} bc={} bd={} cmds={}",
                r.num_bytes_encoded,
                r.lgwin,
                r.num_direct_distance_codes,
                r.distance_postfix_bits,
                r.high_entropy_detection_quality,
                r.has_context_type as u8,
                r.dist_cache[0],
                r.dist_cache[1],
                r.dist_cache[2],
                r.dist_cache[3],
                r.input0_len,
                r.input1_len,
                split_str(&r.btypel),
                split_str(&r.btypec),
                split_str(&r.btyped),
                if cmds.is_empty() { "-".to_string() } else { cmds.join(",") }
            ));
        } else {
            s.push_str("norec=1");
        }
        if let Some(d) = o.dumps.get(k) {
            let mut mb = d.mb0.clone();
            mb.extend_from_slice(&d.mb1);
            let irs = if d.ir.is_empty() { "-".to_string() } else { d.ir.join(",") };
            s.push_str(&format!(
                " m0={} m1={} mb={} irh={} ir={}",
                d.mb0.len(),
                d.mb1.len(),
                if mb.is_empty() { "-".to_string() } else { hex(&mb) },
                hash_str(0, &irs),
                irs
            ));
            at += mb.len();
        } else if let Some(r) = o.recs.get(k) {
            // the implementation did not reach the callback (panic inside the recoder): the
            // meta-block input is the next l0+l1 bytes of the input
            let end = (at + r.input0_len + r.input1_len).min(data.len());
            let mb = &data[at.min(end)..end];
            s.push_str(&format!(" nocallback=1 mb={}", if mb.is_empty() { "-".to_string() } else { hex(mb) }));
            at = end;
        } else {
            s.push_str(" nocallback=1");
        }
    }
    let (verdict, tile, cnt) = replay(&dict, &o, &data);
    let dec = if o.finished && o.status == "OK" {
        let mut out = Vec::new();
        let mut inp = &o.emitted[..];
        let r = panic::catch_unwind(AssertUnwindSafe(|| {
            brotli_decompressor::BrotliDecompressCustomDict(&mut inp, &mut out, &mut [0u8; 4096], &mut [0u8; 4096], dict.clone())
        }));
        match r {
            Ok(Ok(_)) if out == data[..o.consumed] => "ok",
            // catable / appendable streams have no last meta-block: the decoder delivers everything and then asks for more
            Ok(Err(_)) if out == data[..o.consumed] => "ok-unterminated",
            _ => "fail",
        }
    } else {
        "na"
    };
    s.push_str(&format!(
        " ## REPLAY={} TILE={} DEC={} NMB={} NDICT={} NCOPY={} NLIT={} NSW={} WRAP={} DCOPY={} DICTLEN={} CONSUMED={} FIN={}",
        verdict, tile, dec, cnt[6], cnt[0], cnt[1], cnt[2], cnt[3], cnt[4], cnt[5], dict.len(), o.consumed, o.finished as u8
    ));
    s
}

/// `X <word_size> <word_id> <transform>`: the real dictionary word through the real
/// TransformDictionaryWord (validates spec/IrReplay.v's dict_expand and the generated tables)
fn expand(t: &[&str]) -> String {
    use brotli_decompressor::dictionary::{kBrotliDictionary, kBrotliDictionaryOffsetsByLength, kBrotliDictionarySizeBitsByLength};
    let ws: usize = t[1].parse().unwrap();
    let id: usize = t[2].parse().unwrap();
    let tr: usize = t[3].parse().unwrap();
    if !(4..=24).contains(&ws) || tr >= 121 || id >= (1usize << kBrotliDictionarySizeBitsByLength[ws]) {
        return "NONE".to_string();
    }
    let off = kBrotliDictionaryOffsetsByLength[ws] as usize + ws * id;
    let mut dst = [0u8; 64];
    let n = brotli::TransformDictionaryWord(&mut dst, &kBrotliDictionary[off..off + ws], ws as i32, tr as i32) as usize;
    if n == 0 {
        "-".to_string()
    } else {
        hex(&dst[..n])
    }
}

fn main() {
    quiet_panics();
    serve(|t| match guarded(AssertUnwindSafe(|| if t[0] == "X" { expand(t) } else { run_line(t) })) {
        Ok(s) => s,
        Err(e) => format!("{} ## REPLAY=harness-panic", e),
    });
}
