// C15 harness: runs the real streaming encoder on one configuration and reports the first
// bytes of the stream, its length, and what three independent decoders say about it.
//
//   E <via> <q> <lgwin> <lw> <cat> <app> <dict> <magic> <hint> <input>
//       via   D = parameters written into the public `params` fields (Rust level)
//             S = BrotliEncoderStateStruct::set_parameter with the `as u32` casts of the callers
//             F = C ABI BrotliEncoderCreateInstance / BrotliEncoderSetParameter / BrotliEncoderCompressStream
//       q, lgwin   signed decimal (i32); lw cat app dict magic 0/1; hint decimal (u64 for D, u32 for S/F)
//       input      0 (empty) | 1:<seed> (short text) | 2:<seed> (about 70 KB, second half repeats the first)
//   answer:  OK <hex of the first <=40 bytes> <total length> rt=<0|1> strict=<0|1> g=<0|1> glw=<0|1>
//       rt     brotli-decompressor (large window allowed) returns the input
//       strict brotli-decompressor created with new_strict (no large window) returns the input
//       g      Google libbrotlidec without BROTLI_DECODER_PARAM_LARGE_WINDOW returns the input
//       glw    Google libbrotlidec with the large-window parameter returns the input
//   H <same fields as E> <script> <outchunk>
//       the same through a call history (see run_history): f p m<k> t d<k> items or W (CompressorWriter)
//   B <n>    encode_base_128 is private; the magic block is the only way to observe it:
//            answer = hex of the size-hint bytes of a stream made with hint n (D, quality 5, magic on)
#![allow(deprecated)]
use brotli::enc::encode::{
    BrotliEncoderOperation, BrotliEncoderParameter, BrotliEncoderStateStruct,
};
use brotli::enc::StandardAlloc;
use brotli::ffi::broccoli::c_void;
use brotli::ffi::compressor as ffi;
use brotli_decompressor::{BrotliDecompressStream, BrotliResult, BrotliState, HuffmanCode};
use vharness::*;

// Google's libbrotlidec is loaded with dlopen: the harness crate links brotli-decompressor with
// its `ffi-api` feature, which exports #[no_mangle] functions with the *same names* as
// libbrotlidec (BrotliDecoderCreateInstance, ...), so a plain `#[link(name = "brotlidec")]`
// block silently binds to the Rust decoder instead of Google's.
extern "C" {
    fn dlopen(filename: *const u8, flag: i32) -> *mut u8;
    fn dlsym(handle: *mut u8, symbol: *const u8) -> *mut u8;
}
type GCreate = unsafe extern "C" fn(*const u8, *const u8, *const u8) -> *mut u8;
type GSetParam = unsafe extern "C" fn(*mut u8, i32, u32) -> i32;
type GStream = unsafe extern "C" fn(*mut u8, *mut usize, *mut *const u8, *mut usize, *mut *mut u8, *mut usize) -> i32;
type GDestroy = unsafe extern "C" fn(*mut u8);
type GVersion = unsafe extern "C" fn() -> u32;
struct Google {
    create: GCreate,
    set_param: GSetParam,
    stream: GStream,
    destroy: GDestroy,
}
fn google() -> &'static Google {
    use std::sync::OnceLock;
    static G: OnceLock<Google> = OnceLock::new();
    G.get_or_init(|| unsafe {
        // RTLD_NOW | RTLD_LOCAL | RTLD_DEEPBIND
        let h = dlopen(b"libbrotlidec.so.1\0".as_ptr(), 0x2 | 0x8);
        assert!(!h.is_null(), "cannot dlopen libbrotlidec.so.1");
        let sym = |n: &[u8]| -> *mut u8 {
            let p = dlsym(h, n.as_ptr());
            assert!(!p.is_null(), "missing symbol in libbrotlidec");
            p
        };
        let ver: GVersion = core::mem::transmute(sym(b"BrotliDecoderVersion\0"));
        // Google's 1.0.9 reports 0x1000009; the Rust decoder's ffi reports something else
        assert_eq!(ver(), 0x1000009, "dlopen did not reach Google's libbrotlidec 1.0.9");
        Google {
            create: core::mem::transmute(sym(b"BrotliDecoderCreateInstance\0")),
            set_param: core::mem::transmute(sym(b"BrotliDecoderSetParameter\0")),
            stream: core::mem::transmute(sym(b"BrotliDecoderDecompressStream\0")),
            destroy: core::mem::transmute(sym(b"BrotliDecoderDestroyInstance\0")),
        }
    })
}

#[derive(Clone, Debug)]
struct Cfg {
    via: char,
    q: i32,
    lgwin: i32,
    lw: bool,
    cat: bool,
    app: bool,
    dict: bool,
    magic: bool,
    hint: u64,
}

pub fn make_input(spec: &str) -> Vec<u8> {
    let mut it = spec.split(':');
    let kind = it.next().unwrap_or("0");
    let seed: u64 = it.next().map(|s| s.parse().unwrap()).unwrap_or(1);
    let mut r = Rng::new(seed);
    let words: [&[u8]; 12] = [
        b"the ", b"window ", b"of ", b"a ", b"stream ", b"header ", b"is ", b"declared ", b"in ",
        b"bits, ", b"and ", b"brotli ",
    ];
    match kind {
        "0" => Vec::new(),
        "1" => {
            let n = 20 + (seed % 30) as usize;
            let mut v = Vec::new();
            while v.len() < n {
                v.extend_from_slice(words[r.below(12) as usize]);
            }
            v.truncate(n);
            v
        }
        _ => {
            // first half: pseudo text with PRNG bytes mixed in; second half repeats the first, so that
            // good compression needs distances of about 35 000 (beyond windows of 2^10 .. 2^15)
            let half = 35000 + (seed % 500) as usize;
            let mut v = Vec::new();
            while v.len() < half {
                if r.below(4) == 0 {
                    for _ in 0..8 {
                        v.push(r.next() as u8);
                    }
                } else {
                    v.extend_from_slice(words[r.below(12) as usize]);
                }
            }
            v.truncate(half);
            let c = v.clone();
            v.extend_from_slice(&c);
            v
        }
    }
}

const STEP_LIMIT: usize = 100000;

fn run_rust(c: &Cfg, input: &[u8]) -> Result<Vec<u8>, String> {
    let mut s = BrotliEncoderStateStruct::new(StandardAlloc::default());
    if c.via == 'D' {
        s.params.quality = c.q;
        s.params.lgwin = c.lgwin;
        s.params.large_window = c.lw;
        s.params.catable = c.cat;
        s.params.appendable = c.app;
        s.params.use_dictionary = c.dict;
        s.params.magic_number = c.magic;
        s.params.size_hint = c.hint as usize;
    } else {
        use BrotliEncoderParameter::*;
        let mut ok = true;
        ok &= s.set_parameter(BROTLI_PARAM_QUALITY, c.q as u32);
        ok &= s.set_parameter(BROTLI_PARAM_LGWIN, c.lgwin as u32);
        ok &= s.set_parameter(BROTLI_PARAM_LARGE_WINDOW, c.lw as u32);
        ok &= s.set_parameter(BROTLI_PARAM_CATABLE, c.cat as u32);
        ok &= s.set_parameter(BROTLI_PARAM_APPENDABLE, c.app as u32);
        ok &= s.set_parameter(BROTLI_PARAM_MAGIC_NUMBER, c.magic as u32);
        ok &= s.set_parameter(BROTLI_PARAM_SIZE_HINT, c.hint as u32);
        if !ok {
            return Err("SETPARAM-REFUSED".to_string());
        }
    }
    let mut out: Vec<u8> = Vec::new();
    let mut buf = vec![0u8; 1 << 16];
    let mut avail_in = input.len();
    let mut in_off = 0usize;
    let mut steps = 0usize;
    let mut nop = |_a: &mut brotli::interface::PredictionModeContextMap<brotli::InputReferenceMut>,
                   _b: &mut [brotli::interface::StaticCommand],
                   _c: brotli::interface::InputPair,
                   _d: &mut StandardAlloc| ();
    loop {
        steps += 1;
        if steps > STEP_LIMIT {
            return Err("NONTERM".to_string());
        }
        let mut avail_out = buf.len();
        let mut out_off = 0usize;
        let mut total = None;
        let r = s.compress_stream(
            BrotliEncoderOperation::BROTLI_OPERATION_FINISH,
            &mut avail_in,
            input,
            &mut in_off,
            &mut avail_out,
            &mut buf[..],
            &mut out_off,
            &mut total,
            &mut nop,
        );
        out.extend_from_slice(&buf[..out_off]);
        let _ = brotli::enc::encode::verif_trace::take();
        if !r {
            return Err("STREAM-FALSE".to_string());
        }
        if s.is_finished() {
            break;
        }
    }
    brotli::enc::encode::BrotliEncoderDestroyInstance(&mut s);
    Ok(out)
}

/// One configuration driven through a call HISTORY before (and while) the data is given:
/// script items separated by ',':  f = FLUSH without input, p = PROCESS without input,
/// m<k> = EMIT_METADATA with k bytes, t = take_output (everything pending), d<k> = PROCESS with the
/// next k input bytes, W = use CompressorWriter (flush() first, then write_all, then into_inner);
/// the history always ends with FINISH on the rest of the input.  `outchunk` = output bytes
/// offered per call (0 = 64 KiB).
fn run_history(c: &Cfg, input: &[u8], script: &str, outchunk: usize) -> Result<Vec<u8>, String> {
    if script == "W" {
        use std::io::Write;
        let mut params = brotli::enc::BrotliEncoderParams::default();
        params.quality = c.q;
        params.lgwin = c.lgwin;
        params.large_window = c.lw;
        params.catable = c.cat;
        params.appendable = c.app;
        params.use_dictionary = c.dict;
        params.magic_number = c.magic;
        params.size_hint = c.hint as usize;
        let buf_size = if outchunk == 0 { 4096 } else { outchunk };
        let mut w = brotli::CompressorWriter::with_params(Vec::<u8>::new(), buf_size, &params);
        w.flush().map_err(|e| format!("flush: {}", e))?;
        w.write_all(input).map_err(|e| format!("write: {}", e))?;
        return Ok(w.into_inner());
    }
    // the trace hook panics after 65536 back-end invocations within one stream call: a stream call
    // that loops inside the encoder becomes a PANIC outcome instead of a hang
    brotli::enc::encode::verif_trace::enable();
    let _ = brotli::enc::encode::verif_trace::take();
    let mut s = BrotliEncoderStateStruct::new(StandardAlloc::default());
    s.params.quality = c.q;
    s.params.lgwin = c.lgwin;
    s.params.large_window = c.lw;
    s.params.catable = c.cat;
    s.params.appendable = c.app;
    s.params.use_dictionary = c.dict;
    s.params.magic_number = c.magic;
    s.params.size_hint = c.hint as usize;
    let mut out: Vec<u8> = Vec::new();
    let cap = if outchunk == 0 { 1 << 16 } else { outchunk };
    let mut buf = vec![0u8; cap];
    let mut nop = |_a: &mut brotli::interface::PredictionModeContextMap<brotli::InputReferenceMut>,
                   _b: &mut [brotli::interface::StaticCommand],
                   _c: brotli::interface::InputPair,
                   _d: &mut StandardAlloc| ();
    let meta: Vec<u8> = (0..64u8).map(|x| x ^ 0x5a).collect();
    let mut pos = 0usize;
    let mut items: Vec<String> = script.split(',').filter(|x| !x.is_empty() && *x != "-").map(|x| x.to_string()).collect();
    items.push("F".to_string());
    let mut steps = 0usize;
    for it in items.iter() {
        let kind = it.chars().next().unwrap();
        let arg: usize = it[1..].parse().unwrap_or(0);
        if kind == 't' {
            let mut size = 0usize;
            let o = s.take_output(&mut size).to_vec();
            out.extend_from_slice(&o[..size]);
            continue;
        }
        let (op, data): (BrotliEncoderOperation, &[u8]) = match kind {
            'f' => (BrotliEncoderOperation::BROTLI_OPERATION_FLUSH, &[]),
            'p' => (BrotliEncoderOperation::BROTLI_OPERATION_PROCESS, &[]),
            'm' => (BrotliEncoderOperation::BROTLI_OPERATION_EMIT_METADATA, &meta[..core::cmp::min(arg, 64)]),
            'd' => {
                let k = core::cmp::min(arg, input.len() - pos);
                let d = &input[pos..pos + k];
                pos += k;
                (BrotliEncoderOperation::BROTLI_OPERATION_PROCESS, d)
            }
            _ => {
                let d = &input[pos..];
                pos = input.len();
                (BrotliEncoderOperation::BROTLI_OPERATION_FINISH, d)
            }
        };
        let mut avail_in = data.len();
        let mut in_off = 0usize;
        loop {
            steps += 1;
            if steps > STEP_LIMIT {
                return Err("NONTERM".to_string());
            }
            let mut avail_out = cap;
            let mut out_off = 0usize;
            let mut total = None;
            let r = s.compress_stream(op, &mut avail_in, data, &mut in_off, &mut avail_out, &mut buf[..], &mut out_off, &mut total, &mut nop);
            out.extend_from_slice(&buf[..out_off]);
            let _ = brotli::enc::encode::verif_trace::take();
            if !r {
                return Err(format!("STREAM-FALSE({})", it));
            }
            let done = match kind {
                'F' => s.is_finished(),
                _ => avail_in == 0 && !s.has_more_output(),
            };
            if done {
                break;
            }
        }
    }
    brotli::enc::encode::BrotliEncoderDestroyInstance(&mut s);
    Ok(out)
}

fn run_ffi(c: &Cfg, input: &[u8]) -> Result<Vec<u8>, String> {
    unsafe {
        use BrotliEncoderParameter::*;
        let st = ffi::BrotliEncoderCreateInstance(None, None, core::ptr::null_mut::<c_void>());
        if st.is_null() {
            return Err("CREATE-NULL".to_string());
        }
        let mut ok = 1;
        ok &= ffi::BrotliEncoderSetParameter(st, BROTLI_PARAM_QUALITY, c.q as u32);
        ok &= ffi::BrotliEncoderSetParameter(st, BROTLI_PARAM_LGWIN, c.lgwin as u32);
        ok &= ffi::BrotliEncoderSetParameter(st, BROTLI_PARAM_LARGE_WINDOW, c.lw as u32);
        ok &= ffi::BrotliEncoderSetParameter(st, BROTLI_PARAM_CATABLE, c.cat as u32);
        ok &= ffi::BrotliEncoderSetParameter(st, BROTLI_PARAM_APPENDABLE, c.app as u32);
        ok &= ffi::BrotliEncoderSetParameter(st, BROTLI_PARAM_MAGIC_NUMBER, c.magic as u32);
        ok &= ffi::BrotliEncoderSetParameter(st, BROTLI_PARAM_SIZE_HINT, c.hint as u32);
        if ok == 0 {
            ffi::BrotliEncoderDestroyInstance(st);
            return Err("SETPARAM-REFUSED".to_string());
        }
        let mut out: Vec<u8> = Vec::new();
        let mut buf = vec![0u8; 1 << 16];
        let mut avail_in = input.len();
        let mut next_in: *const u8 = input.as_ptr();
        let mut steps = 0usize;
        let res;
        loop {
            steps += 1;
            if steps > STEP_LIMIT {
                res = Err("NONTERM".to_string());
                break;
            }
            let mut avail_out = buf.len();
            let mut next_out: *mut u8 = buf.as_mut_ptr();
            let mut total: usize = 0;
            let r = ffi::BrotliEncoderCompressStream(
                st,
                ffi::BrotliEncoderOperation::BROTLI_OPERATION_FINISH,
                &mut avail_in,
                &mut next_in,
                &mut avail_out,
                &mut next_out,
                &mut total,
            );
            let produced = buf.len() - avail_out;
            out.extend_from_slice(&buf[..produced]);
            let _ = brotli::enc::encode::verif_trace::take();
            if r == 0 {
                res = Err("STREAM-FALSE".to_string());
                break;
            }
            if ffi::BrotliEncoderIsFinished(st) != 0 {
                res = Ok(());
                break;
            }
        }
        ffi::BrotliEncoderDestroyInstance(st);
        res.map(|_| out)
    }
}

fn dec_rust(data: &[u8], strict: bool, expect: &[u8]) -> bool {
    let a8 = StandardAlloc::default();
    let a32 = StandardAlloc::default();
    let ahc = StandardAlloc::default();
    let mut st: BrotliState<StandardAlloc, StandardAlloc, StandardAlloc> = if strict {
        BrotliState::new_strict(a8, a32, ahc)
    } else {
        BrotliState::new(a8, a32, ahc)
    };
    let _ = core::marker::PhantomData::<HuffmanCode>;
    let mut out: Vec<u8> = Vec::with_capacity(expect.len() + 16);
    let mut buf = vec![0u8; 1 << 16];
    let mut avail_in = data.len();
    let mut in_off = 0usize;
    let mut steps = 0;
    loop {
        steps += 1;
        if steps > STEP_LIMIT {
            return false;
        }
        let mut avail_out = buf.len();
        let mut out_off = 0usize;
        let mut total = 0usize;
        let r = BrotliDecompressStream(
            &mut avail_in,
            &mut in_off,
            data,
            &mut avail_out,
            &mut out_off,
            &mut buf[..],
            &mut total,
            &mut st,
        );
        out.extend_from_slice(&buf[..out_off]);
        if out.len() > expect.len() {
            return false;
        }
        match r {
            BrotliResult::ResultSuccess => return avail_in == 0 && out == expect,
            BrotliResult::NeedsMoreOutput => continue,
            _ => return false,
        }
    }
}

fn dec_google(data: &[u8], large: bool, expect: &[u8]) -> bool {
    unsafe {
        let g = google();
        let st = (g.create)(core::ptr::null(), core::ptr::null(), core::ptr::null());
        if st.is_null() {
            return false;
        }
        if large {
            (g.set_param)(st, 1, 1);
        }
        let mut out: Vec<u8> = Vec::with_capacity(expect.len() + 16);
        let mut buf = vec![0u8; 1 << 16];
        let mut avail_in = data.len();
        let mut next_in: *const u8 = data.as_ptr();
        let mut steps = 0;
        let ok;
        loop {
            steps += 1;
            if steps > STEP_LIMIT {
                ok = false;
                break;
            }
            let mut avail_out = buf.len();
            let mut next_out: *mut u8 = buf.as_mut_ptr();
            let mut total = 0usize;
            let r = (g.stream)(
                st,
                &mut avail_in,
                &mut next_in,
                &mut avail_out,
                &mut next_out,
                &mut total,
            );
            let produced = buf.len() - avail_out;
            out.extend_from_slice(&buf[..produced]);
            if out.len() > expect.len() {
                ok = false;
                break;
            }
            // 0 error, 1 success, 2 needs more input, 3 needs more output
            if r == 1 {
                ok = avail_in == 0 && out == expect;
                break;
            } else if r == 3 {
                continue;
            } else {
                ok = false;
                break;
            }
        }
        (g.destroy)(st);
        ok
    }
}

fn parse_cfg(t: &[&str]) -> Option<(Cfg, Vec<u8>)> {
    if t.len() != 11 {
        return None;
    }
    let b = |i: usize| -> bool { t[i] != "0" };
    let c = Cfg {
        via: t[1].chars().next()?,
        q: t[2].parse().ok()?,
        lgwin: t[3].parse().ok()?,
        lw: b(4),
        cat: b(5),
        app: b(6),
        dict: b(7),
        magic: b(8),
        hint: t[9].parse().ok()?,
    };
    Some((c, make_input(t[10])))
}

fn f_encode(t: &[&str]) -> String {
    // once enabled the thread-local trace keeps recording: empty it, its limit is per stream call
    let _ = brotli::enc::encode::verif_trace::take();
    // H lines carry two more fields: the call history and the output chunk size
    let (history, t) = if t[0] == "H" && t.len() == 13 {
        (Some((t[11].to_string(), t[12].parse::<usize>().unwrap_or(0))), &t[..11])
    } else {
        (None, t)
    };
    let (c, input) = match parse_cfg(t) {
        Some(x) => x,
        None => return "BADREQ".to_string(),
    };
    let c2 = c.clone();
    let inp = input.clone();
    let r = guarded(std::panic::AssertUnwindSafe(move || {
        if let Some((script, outchunk)) = history {
            run_history(&c2, &inp, &script, outchunk)
        } else if c2.via == 'F' {
            run_ffi(&c2, &inp)
        } else {
            run_rust(&c2, &inp)
        }
    }));
    match r {
        Err(p) => p,
        Ok(Err(e)) => format!("ERR({})", e),
        Ok(Ok(out)) => {
            let n = core::cmp::min(40, out.len());
            let o1 = out.clone();
            let i1 = input.clone();
            let d = guarded(std::panic::AssertUnwindSafe(move || {
                (
                    dec_rust(&o1, false, &i1),
                    dec_rust(&o1, true, &i1),
                    dec_google(&o1, false, &i1),
                    dec_google(&o1, true, &i1),
                )
            }));
            match d {
                Err(p) => format!("DEC-{}", p),
                Ok((rt, st, g, glw)) => format!(
                    "OK {} {} rt={} strict={} g={} glw={}",
                    if n == 0 { "-".to_string() } else { hex(&out[..n]) },
                    out.len(),
                    rt as u8,
                    st as u8,
                    g as u8,
                    glw as u8
                ),
            }
        }
    }
}

fn f_base128(n: u64) -> String {
    let c = Cfg { via: 'D', q: 5, lgwin: 22, lw: false, cat: false, app: false, dict: true, magic: true, hint: n };
    match guarded(std::panic::AssertUnwindSafe(move || run_rust(&c, b""))) {
        Err(p) => p,
        Ok(Err(e)) => format!("ERR({})", e),
        Ok(Ok(out)) => {
            // lgwin 22: 4 bits of WBITS, 14 bits of metadata header -> payload starts at byte 3
            if out.len() < 4 {
                return "ERR(short)".to_string();
            }
            let len = out[1] as usize >> 2 | ((out[2] as usize & 3) << 6);
            let _ = len;
            // bytes 3.. : e1 97 mode version hint...
            let mut k = 7;
            while k < out.len() && out[k] & 0x80 != 0 {
                k += 1;
            }
            if k >= out.len() {
                return "ERR(unterminated)".to_string();
            }
            hex(&out[7..k + 1])
        }
    }
}


/// Line protocol on a private copy of stdout: library code under test prints diagnostics
/// ("leaking memory block ...") with print!, which would otherwise interleave with the answers.
fn serve_clean<F: FnMut(&[&str]) -> String>(mut f: F) {
    use std::io::{BufRead, Write};
    use std::os::unix::io::FromRawFd;
    extern "C" {
        fn dup(fd: i32) -> i32;
        fn dup2(a: i32, b: i32) -> i32;
        fn open(path: *const u8, flags: i32) -> i32;
    }
    let mut out = unsafe {
        let keep = dup(1);
        let null = open(b"/dev/null\0".as_ptr(), 1);
        dup2(null, 1);
        std::io::BufWriter::new(std::fs::File::from_raw_fd(keep))
    };
    let stdin = std::io::stdin();
    for line in stdin.lock().lines() {
        let line = line.unwrap();
        let toks: Vec<&str> = line.split_whitespace().collect();
        if toks.is_empty() {
            continue;
        }
        let ans = f(&toks);
        writeln!(out, "{}", ans).unwrap();
    }
    out.flush().unwrap();
}

fn main() {
    quiet_panics();
    serve_clean(|t| match t[0] {
        "E" | "H" => f_encode(t),
        "B" => match t.get(1).and_then(|x| x.parse::<u64>().ok()) {
            Some(n) => f_base128(n),
            None => "BADREQ".to_string(),
        },
        _ => "BADREQ".to_string(),
    });
}
