// C17 harness: runs the real prefix-code builder / serialisers; same line protocol and the same
// canonical answer format as ocaml/c17_driver.ml.
//   T <limit> <counts>            BrotliCreateHuffmanTree                 -> <depths>
//   C <depths>                    BrotliConvertBitDepthsToSymbols         -> <bits>
//   W <depths>                    BrotliWriteHuffmanTree                  -> <tree> <extra>
//   D <depths>                    DecideOverRleUse                        -> <nz> <z>
//   O <counts>                    BrotliOptimizeHuffmanCountsForRle       -> <counts> <good>
//   H <depths>                    BrotliStoreHuffmanTree                  -> <bitstring>
//   B <alphabet> <counts>         BuildAndStoreHuffmanTree (hook)         -> <depths> <bits> <bitstring>
//   F <max_bits> <counts>         BrotliBuildAndStoreHuffmanTreeFast      -> <depths> <bits> <bitstring>
//   P <n> <max_bits> <depths> <symbols>  StoreSimpleHuffmanTree (hook)    -> <bitstring>
//   R <num_bits> <bits>           BrotliReverseBits (hook)                -> <value>
//   E <nsym> <maxc> <lo> <hi>     hash of the B answers for count vectors number lo..hi-1
//   RH <num_bits>                 hash of BrotliReverseBits(num_bits, 0..65535)
// vectors: comma separated, "-" when empty; a panic is the answer "PANIC".
#![allow(deprecated)]
use brotli::enc::brotli_bit_stream::{
    verif_build_and_store_huffman_tree, verif_store_simple_huffman_tree,
    BrotliBuildAndStoreHuffmanTreeFast, BrotliStoreHuffmanTree,
};
use brotli::enc::entropy_encode::{
    verif_reverse_bits, BrotliConvertBitDepthsToSymbols, BrotliCreateHuffmanTree,
    BrotliOptimizeHuffmanCountsForRle, BrotliWriteHuffmanTree, DecideOverRleUse, HuffmanTree,
};
use vharness::*;

fn pv<T: std::str::FromStr>(s: &str) -> Vec<T>
where
    T::Err: std::fmt::Debug,
{
    if s == "-" {
        return Vec::new();
    }
    s.split(',').map(|x| x.parse::<T>().unwrap()).collect()
}
fn sv<T: std::fmt::Display>(v: &[T]) -> String {
    if v.is_empty() {
        return "-".to_string();
    }
    let mut s = String::new();
    for (i, x) in v.iter().enumerate() {
        if i > 0 {
            s.push(',');
        }
        s.push_str(&format!("{}", x));
    }
    s
}
fn bitstring(storage: &[u8], nbits: usize) -> String {
    if nbits == 0 {
        return "-".to_string();
    }
    let mut s = String::with_capacity(nbits);
    for i in 0..nbits {
        s.push(if (storage[i >> 3] >> (i & 7)) & 1 == 1 { '1' } else { '0' });
    }
    s
}
fn g<F: FnOnce() -> String + std::panic::UnwindSafe>(f: F) -> String {
    match guarded(f) {
        Ok(s) => s,
        Err(_) => "PANIC".to_string(),
    }
}
const STORAGE: usize = 16384;

fn f_t(limit: i32, counts: Vec<u32>) -> String {
    g(move || {
        let n = counts.len();
        let mut tree = vec![HuffmanTree::default(); 2 * n + 1];
        let mut depth = vec![0u8; n];
        BrotliCreateHuffmanTree(&counts, n, limit, &mut tree, &mut depth);
        sv(&depth)
    })
}
fn f_c(depth: Vec<u8>) -> String {
    g(move || {
        let n = depth.len();
        let mut bits = vec![0u16; n];
        BrotliConvertBitDepthsToSymbols(&depth, n, &mut bits);
        sv(&bits)
    })
}
fn f_w(depth: Vec<u8>) -> String {
    g(move || {
        let n = depth.len();
        let mut tree = [0u8; 704];
        let mut extra = [0u8; 704];
        let mut size = 0usize;
        BrotliWriteHuffmanTree(&depth, n, &mut size, &mut tree, &mut extra);
        format!("{} {}", sv(&tree[..size]), sv(&extra[..size]))
    })
}
fn f_d(depth: Vec<u8>) -> String {
    g(move || {
        let mut a = 0i32;
        let mut b = 0i32;
        DecideOverRleUse(&depth, depth.len(), &mut a, &mut b);
        format!("{} {}", a, b)
    })
}
fn f_o(counts: Vec<u32>) -> String {
    g(move || {
        let mut c = counts.clone();
        let n = c.len();
        let mut good = vec![0u8; n];
        BrotliOptimizeHuffmanCountsForRle(n, &mut c, &mut good);
        format!("{} {}", sv(&c), sv(&good))
    })
}
fn f_h(depth: Vec<u8>) -> String {
    g(move || {
        let n = depth.len();
        let mut tree = vec![HuffmanTree::default(); 2 * 704 + 1];
        let mut storage = vec![0u8; STORAGE];
        let mut ix = 0usize;
        BrotliStoreHuffmanTree(&depth, n, &mut tree, &mut ix, &mut storage);
        bitstring(&storage, ix)
    })
}
fn f_b(alphabet: usize, counts: &[u32]) -> String {
    let counts = counts.to_vec();
    g(move || {
        let n = counts.len();
        let mut tree = vec![HuffmanTree::default(); 2 * core::cmp::max(n, 18) + 1];
        let mut depth = vec![0u8; n];
        let mut bits = vec![0u16; n];
        let mut storage = vec![0u8; STORAGE];
        let mut ix = 0usize;
        verif_build_and_store_huffman_tree(
            &counts,
            n,
            alphabet,
            &mut tree,
            &mut depth,
            &mut bits,
            &mut ix,
            &mut storage,
        );
        format!("{} {} {}", sv(&depth), sv(&bits), bitstring(&storage, ix))
    })
}
fn f_f(max_bits: usize, counts: Vec<u32>) -> String {
    g(move || {
        let n = counts.len();
        let total: usize = counts.iter().map(|x| *x as usize).sum();
        let mut depth = vec![0u8; n];
        let mut bits = vec![0u16; n];
        let mut storage = vec![0u8; STORAGE];
        let mut ix = 0usize;
        let mut m = brotli::enc::StandardAlloc::default();
        BrotliBuildAndStoreHuffmanTreeFast(
            &mut m,
            &counts,
            total,
            max_bits,
            &mut depth,
            &mut bits,
            &mut ix,
            &mut storage,
        );
        format!("{} {} {}", sv(&depth), sv(&bits), bitstring(&storage, ix))
    })
}
fn f_p(num: usize, max_bits: usize, depth: Vec<u8>, symbols: Vec<usize>) -> String {
    g(move || {
        let mut symbols = symbols;
        let mut storage = vec![0u8; STORAGE];
        let mut ix = 0usize;
        verif_store_simple_huffman_tree(&depth, &mut symbols, num, max_bits, &mut ix, &mut storage);
        bitstring(&storage, ix)
    })
}
fn f_r(num_bits: usize, bits: u16) -> String {
    g(move || format!("{}", verif_reverse_bits(num_bits, bits)))
}

fn main() {
    quiet_panics();
    serve(|t| match t {
        ["T", l, c] => f_t(l.parse().unwrap(), pv(c)),
        ["C", d] => f_c(pv(d)),
        ["W", d] => f_w(pv(d)),
        ["D", d] => f_d(pv(d)),
        ["O", c] => f_o(pv(c)),
        ["H", d] => f_h(pv(d)),
        ["B", a, c] => f_b(a.parse().unwrap(), &pv::<u32>(c)),
        ["F", m, c] => f_f(m.parse().unwrap(), pv(c)),
        ["P", n, m, d, s] => f_p(n.parse().unwrap(), m.parse().unwrap(), pv(d), pv(s)),
        ["R", n, b] => f_r(n.parse().unwrap(), b.parse().unwrap()),
        ["E", nsym, maxc, lo, hi] => {
            let nsym: usize = nsym.parse().unwrap();
            let radix: u64 = maxc.parse::<u64>().unwrap() + 1;
            let (lo, hi): (u64, u64) = (lo.parse().unwrap(), hi.parse().unwrap());
            let mut h = 0u64;
            let mut counts = vec![0u32; nsym];
            for idx in lo..hi {
                let mut x = idx;
                for c in counts.iter_mut() {
                    *c = (x % radix) as u32;
                    x /= radix;
                }
                h = hash_str(h, &f_b(nsym, &counts));
            }
            format!("H {}", h)
        }
        ["RH", n] => {
            let n: usize = n.parse().unwrap();
            let mut h = 0u64;
            for b in 0..=65535u16 {
                h = hash_str(h, &f_r(n, b));
            }
            format!("H {}", h)
        }
        _ => "BADREQ".to_string(),
    });
}
