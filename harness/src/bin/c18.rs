// C18 harness: runs the real length / distance prefix arithmetic; same line protocol as
// ocaml/c18_driver.ml.
#![allow(deprecated)]
use brotli::enc::command::{
    BrotliDistanceParams, CombineLengthCodes, Command, GetCopyLengthCode, GetInsertLengthCode,
    PrefixEncodeCopyDistance,
};
use vharness::*;

fn f_ins(n: usize) -> String {
    match guarded(move || GetInsertLengthCode(n)) {
        Ok(v) => format!("{}", v),
        Err(e) => e,
    }
}
fn f_copy(n: usize) -> String {
    match guarded(move || GetCopyLengthCode(n)) {
        Ok(v) => format!("{}", v),
        Err(e) => e,
    }
}
fn f_comb(a: u16, b: u16, u: i32) -> String {
    match guarded(move || CombineLengthCodes(a, b, u)) {
        Ok(v) => format!("{}", v),
        Err(e) => e,
    }
}
fn f_blen(n: u32) -> String {
    match guarded(move || brotli::enc::brotli_bit_stream::verif_block_length_prefix_code(n)) {
        Ok((c, nb, e)) => format!("{} {} {}", c, nb, e),
        Err(e) => e,
    }
}
fn f_pdist(dc: usize, nd: usize, np: u64) -> String {
    match guarded(move || {
        let mut code = 0u16;
        let mut extra = 0u32;
        PrefixEncodeCopyDistance(dc, nd, np, &mut code, &mut extra);
        (code, extra)
    }) {
        Ok((c, e)) => format!("{} {}", c, e),
        Err(e) => e,
    }
}
fn f_cmd(nd: u32, np: u32, ins: usize, copy: usize, code: usize, dc: usize) -> String {
    match guarded(move || {
        let dist = BrotliDistanceParams {
            distance_postfix_bits: np,
            num_direct_distance_codes: nd,
            alphabet_size: 0,
            max_distance: 0,
        };
        let c = Command::new(&dist, ins, copy, code, dc);
        let r = c.restore_distance_code(&dist);
        let (ix, off) = c.distance_index_and_offset(&dist);
        let (clc, nb, v) = brotli::enc::brotli_bit_stream::verif_store_command_extra(&c);
        format!(
            "{} {} {} {} {} | {} | {} {} | {} {} | {} {}",
            c.insert_len_,
            c.copy_len_,
            c.dist_extra_,
            c.cmd_prefix_,
            c.dist_prefix_,
            r,
            ix,
            off,
            c.copy_len(),
            clc,
            nb,
            v
        )
    }) {
        Ok(s) => s,
        Err(e) => e,
    }
}

/// build a command under (nd0, np0), then RecomputeDistancePrefixes to (nd1, np1) through the hook
fn f_recmd(nd0: u32, np0: u32, nd1: u32, np1: u32, ins: usize, copy: usize, code: usize, dc: usize) -> String {
    match guarded(move || {
        let d0 = BrotliDistanceParams { distance_postfix_bits: np0, num_direct_distance_codes: nd0, alphabet_size: 0, max_distance: 0 };
        let d1 = BrotliDistanceParams { distance_postfix_bits: np1, num_direct_distance_codes: nd1, alphabet_size: 0, max_distance: 0 };
        let mut cmds = [Command::new(&d0, ins, copy, code, dc)];
        brotli::enc::metablock::verif_recompute_distance_prefixes(&mut cmds, 1, &d0, &d1);
        let c = cmds[0];
        let r = c.restore_distance_code(&d1);
        format!("{} {} {} {} {} | {}", c.insert_len_, c.copy_len_, c.dist_extra_, c.cmd_prefix_, c.dist_prefix_, r)
    }) {
        Ok(s) => s,
        Err(e) => e,
    }
}

fn main() {
    quiet_panics();
    serve(|t| {
        let p = |i: usize| -> usize { t[i].parse().unwrap() };
        match t[0] {
            "ins" => f_ins(p(1)),
            "copy" => f_copy(p(1)),
            "comb" => f_comb(p(1) as u16, p(2) as u16, p(3) as i32),
            "blen" => f_blen(p(1) as u32),
            "pdist" => f_pdist(p(1), p(2), p(3) as u64),
            "cmd" => f_cmd(p(1) as u32, p(2) as u32, p(3), p(4), p(5), p(6)),
            "recmd" => f_recmd(p(1) as u32, p(2) as u32, p(3) as u32, p(4) as u32, p(5), p(6), p(7), p(8)),
            "R" => {
                let (lo, hi) = (p(2), p(3));
                let (nd, np) = if t.len() >= 6 { (p(4), p(5)) } else { (0, 0) };
                let mut h = 0u64;
                for x in lo..hi {
                    let s = match t[1] {
                        "ins" => f_ins(x),
                        "copy" => f_copy(x),
                        "blen" => f_blen(x as u32),
                        "pdist" => f_pdist(x, nd, np as u64),
                        "cmd" => {
                            let cl = 2 + (x.wrapping_mul(7) & 0xffff);
                            f_cmd(nd as u32, np as u32, x & 0xffffff, cl, cl, x)
                        }
                        _ => "BADREQ".to_string(),
                    };
                    h = hash_str(h, &s);
                }
                format!("H {}", h)
            }
            _ => "BADREQ".to_string(),
        }
    });
}
