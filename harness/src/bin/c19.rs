// C19 harness: runs the real match-index (hasher) update entry points.
//
// Line protocol (one request per line, one answer line):
//   D <q> <lgwin> <hint> <q95>
//        -> kind descriptor of the hasher `HasherSetup` builds for that configuration
//   X <q> <lgwin> <hint> <q95> <kinddesc> <maskbits> <seed> <style> <dlen> <tail> <rc> <ops...>
//        -> OK n=<entries> h=<hash> [ceq=<0|1>] [| listing]   |  PANIC(msg)
//        ops:  S a b (Store one at a time)  B a b (BulkStoreRange)  R a b (StoreRange)
//              V4 ix (Store4Vec4 of the concrete type)  VE ix (StoreEvenVec4)
//              C (continue with clone_with_alloc's result; answer carries PartialEq(orig, clone))
//              L (append the listing of all non-initial entries)
//              N v (only as the first op: start from a state in which every per-bucket counter
//                   `num[..]` holds v, e.g. 65533 - a bucket that has already received that many
//                   entries; kinds without counters ignore it)
//        same request line is understood by ocaml/c19_driver.ml (the extracted model)
//   P <q> <lgwin> <hint> <q95> <kinddesc> <maskbits> <seed> <style> <dlen> <tail> <rc> <p0> <p1> <s> <e> <allsplits> <nparts> <pseed> [<full> [<numinit>]]
//        -> the property itself, decided on the real code only (independent of the model):
//           OK checks=<n> | FAIL <what> ...
//           full = 1 (default): bulk, range and the first partition are compared with PartialEq on
//           the whole hasher, the clone is checked, and after the line both work hashers must be
//           PartialEq to a pristine one (no write outside the slots of the hashed positions);
//           full = 0: only the slots of the hashed positions are compared field by field (used for
//           most lines of the kinds with tables of many megabytes).
//
// Data: maskbits = 0 -> mask = usize::MAX and data = gen(seed, style, dlen);
//       maskbits = k -> mask = 2^k - 1, data = base(2^k bytes) ++ tail bytes, where the tail repeats
//       the start of base when rc = 1 (a ring buffer that has wrapped) and is unrelated when rc = 0.
#![allow(deprecated)]
#![allow(non_snake_case)]
use brotli::enc::backward_references::{
    AdvHashSpecialization, AnyHasher, BrotliEncoderParams, CloneWithAlloc, Struct1, UnionHasher,
};
use brotli::enc::encode::HasherSetup;
use brotli::enc::{SliceWrapper, SliceWrapperMut, StandardAlloc};
use std::panic::AssertUnwindSafe;
use vharness::*;

type UH = UnionHasher<StandardAlloc>;

#[derive(Clone, Copy, PartialEq, Debug)]
struct Cfg {
    q: i32,
    lgwin: i32,
    hint: usize,
    q95: bool,
}

fn build(c: Cfg) -> UH {
    let mut p = BrotliEncoderParams::default();
    p.quality = c.q;
    p.lgwin = c.lgwin;
    p.size_hint = c.hint;
    p.q9_5 = c.q95;
    let mut h = UnionHasher::Uninit;
    let mut a = StandardAlloc::default();
    HasherSetup(&mut a, &mut h, &mut p, &[], 0, 0, 0);
    h
}

fn common_desc(c: &Struct1, lbs: u32) -> String {
    format!(
        "{},{},{},{},{},{},{},{},{},{}",
        c.params.type_,
        c.params.bucket_bits,
        c.params.block_bits,
        c.params.hash_len,
        c.params.num_last_distances_to_check,
        c.params.literal_byte_score,
        c.is_prepared_,
        c.dict_num_lookups,
        c.dict_num_matches,
        lbs
    )
}

fn describe(h: &UH) -> String {
    match h {
        UnionHasher::Uninit => "Uninit".to_string(),
        UnionHasher::H2(x) => format!("H2:{}|{}", x.buckets_.slice().len(), common_desc(&x.GetHasherCommon, x.h9_opts.literal_byte_score)),
        UnionHasher::H3(x) => format!("H3:{}|{}", x.buckets_.slice().len(), common_desc(&x.GetHasherCommon, x.h9_opts.literal_byte_score)),
        UnionHasher::H4(x) => format!("H4:{}|{}", x.buckets_.slice().len(), common_desc(&x.GetHasherCommon, x.h9_opts.literal_byte_score)),
        UnionHasher::H54(x) => format!("H54:{}|{}", x.buckets_.slice().len(), common_desc(&x.GetHasherCommon, x.h9_opts.literal_byte_score)),
        UnionHasher::H5(x) => format!(
            "H5:{}:{}:{}:{}:{}:{}|{}",
            x.specialization.hash_shift_,
            x.specialization.bucket_size_,
            x.specialization.block_mask_,
            x.specialization.block_bits_,
            x.num.slice().len(),
            x.buckets.slice().len(),
            common_desc(&x.GetHasherCommon, x.h9_opts.literal_byte_score)
        ),
        UnionHasher::H5q5(x) => format!("H5q5:{}:{}|{}", x.num.slice().len(), x.buckets.slice().len(), common_desc(&x.GetHasherCommon, x.h9_opts.literal_byte_score)),
        UnionHasher::H5q7(x) => format!("H5q7:{}:{}|{}", x.num.slice().len(), x.buckets.slice().len(), common_desc(&x.GetHasherCommon, x.h9_opts.literal_byte_score)),
        UnionHasher::H6(x) => format!(
            "H6:{}:{}:{}:{}:{}:{}:{}|{}",
            x.specialization.hash_mask,
            x.specialization.hash_shift_,
            x.specialization.bucket_size_,
            x.specialization.block_mask_,
            x.specialization.block_bits_,
            x.num.slice().len(),
            x.buckets.slice().len(),
            common_desc(&x.GetHasherCommon, x.h9_opts.literal_byte_score)
        ),
        UnionHasher::H9(x) => format!("H9:{}:{}|{}", x.num_.slice().len(), x.buckets_.slice().len(), common_desc(&x.dict_search_stats_, x.h9_opts.literal_byte_score)),
        UnionHasher::H10(x) => format!(
            "H10:{}:{}:{}:{}|{}",
            x.window_mask_,
            x.invalid_pos_,
            x.buckets_.slice().len(),
            x.forest.slice().len(),
            common_desc(&x.common, 340)
        ),
    }
}

// ---- raw table access (all fields are public) -------------------------------------------------
fn num_of(h: &mut UH) -> Option<&mut [u16]> {
    match h {
        UnionHasher::H5(x) => Some(x.num.slice_mut()),
        UnionHasher::H5q5(x) => Some(x.num.slice_mut()),
        UnionHasher::H5q7(x) => Some(x.num.slice_mut()),
        UnionHasher::H6(x) => Some(x.num.slice_mut()),
        UnionHasher::H9(x) => Some(x.num_.slice_mut()),
        _ => None,
    }
}
fn buckets_of(h: &mut UH) -> &mut [u32] {
    match h {
        UnionHasher::H2(x) => x.buckets_.buckets_.slice_mut(),
        UnionHasher::H3(x) => x.buckets_.buckets_.slice_mut(),
        UnionHasher::H4(x) => x.buckets_.buckets_.slice_mut(),
        UnionHasher::H54(x) => x.buckets_.buckets_.slice_mut(),
        UnionHasher::H5(x) => x.buckets.slice_mut(),
        UnionHasher::H5q5(x) => x.buckets.slice_mut(),
        UnionHasher::H5q7(x) => x.buckets.slice_mut(),
        UnionHasher::H6(x) => x.buckets.slice_mut(),
        UnionHasher::H9(x) => x.buckets_.slice_mut(),
        UnionHasher::H10(x) => x.buckets_.slice_mut(),
        UnionHasher::Uninit => panic!("uninit"),
    }
}
fn forest_of(h: &mut UH) -> Option<&mut [u32]> {
    match h {
        UnionHasher::H10(x) => Some(x.forest.slice_mut()),
        _ => None,
    }
}
fn bucket_init(h: &UH) -> u32 {
    match h {
        UnionHasher::H10(x) => x.invalid_pos_,
        _ => 0,
    }
}
/// (bytes a Store needs at the masked address, block shift, block size) of the concrete kind
fn geometry(h: &UH) -> (usize, usize, usize) {
    match h {
        UnionHasher::H2(_) | UnionHasher::H3(_) | UnionHasher::H4(_) | UnionHasher::H54(_) => (8, 0, 8),
        UnionHasher::H5(x) => (4, x.specialization.block_bits() as usize, x.specialization.block_size() as usize),
        UnionHasher::H5q5(x) => (4, x.specialization.block_bits() as usize, x.specialization.block_size() as usize),
        UnionHasher::H5q7(x) => (4, x.specialization.block_bits() as usize, x.specialization.block_size() as usize),
        UnionHasher::H6(x) => (8, x.specialization.block_bits() as usize, x.specialization.block_size() as usize),
        UnionHasher::H9(_) => (4, 8, 256),
        UnionHasher::H10(_) => (4, 0, 1),
        UnionHasher::Uninit => (0, 0, 0),
    }
}
fn is_h10(h: &UH) -> bool {
    matches!(h, UnionHasher::H10(_))
}
fn is_adv(h: &UH) -> bool {
    matches!(h, UnionHasher::H5(_) | UnionHasher::H5q5(_) | UnionHasher::H5q7(_) | UnionHasher::H6(_))
}
fn window_mask(h: &UH) -> usize {
    match h {
        UnionHasher::H10(x) => x.window_mask_,
        _ => 0,
    }
}

// ---- candidate regions: every slot an update of the given positions may touch ------------------
#[derive(Default)]
struct Sparse {
    num: Vec<usize>,
    buckets: Vec<usize>,
    forest: Vec<usize>,
}

fn sparse_for(h: &mut UH, data: &[u8], mask: usize, ranges: &[(usize, usize)]) -> Sparse {
    let (need, bshift, bsize) = geometry(h);
    let h10 = is_h10(h);
    let wm = window_mask(h);
    let mut addrs: Vec<usize> = Vec::new();
    let mut sp = Sparse::default();
    for &(a, b) in ranges {
        for p in a..b {
            let m = p & mask;
            for d in 0..20usize {
                addrs.push(m + d);
            }
            if h10 {
                sp.forest.push(2 * (p & wm));
                sp.forest.push(2 * (p & wm) + 1);
            }
        }
    }
    if h10 {
        // close to 2^32 the marker `invalid_pos_` (0 - window_mask as u32) is within max_backward of
        // the current position and is followed like a stored position: its node (and node 0, which
        // an unwritten child names) may be written by one-at-a-time Store and bulk alike
        let inv = bucket_init(h) as usize;
        for q in [inv, 0usize] {
            sp.forest.push(2 * (q & wm));
            sp.forest.push(2 * (q & wm) + 1);
        }
    }
    addrs.sort_unstable();
    addrs.dedup();
    let nlen = num_of(h).map(|x| x.len()).unwrap_or(0);
    let blen = buckets_of(h).len();
    for a in addrs {
        if a + need > data.len() {
            continue;
        }
        let key = h.HashBytes(&data[a..]);
        if nlen > 0 && key < nlen {
            sp.num.push(key);
        }
        let base = key << bshift;
        for j in 0..bsize {
            if base + j < blen {
                sp.buckets.push(base + j);
            }
        }
    }
    sp.num.sort_unstable();
    sp.num.dedup();
    sp.buckets.sort_unstable();
    sp.buckets.dedup();
    sp.forest.sort_unstable();
    sp.forest.dedup();
    let flen = forest_of(h).map(|x| x.len()).unwrap_or(0);
    sp.forest.retain(|&i| i < flen);
    sp
}

fn sparse_reset(h: &mut UH, sp: &Sparse, numinit: u16) {
    let init = bucket_init(h);
    if let Some(n) = num_of(h) {
        for &i in &sp.num {
            n[i] = numinit;
        }
    }
    let b = buckets_of(h);
    for &i in &sp.buckets {
        b[i] = init;
    }
    if let Some(f) = forest_of(h) {
        for &i in &sp.forest {
            f[i] = 0;
        }
    }
}

fn sparse_diff(a: &mut UH, b: &mut UH, sp: &Sparse) -> Option<String> {
    if let (Some(x), Some(y)) = (num_of(a), num_of(b)) {
        for &i in &sp.num {
            if x[i] != y[i] {
                return Some(format!("num[{}]:{}!={}", i, x[i], y[i]));
            }
        }
    }
    {
        let x: Vec<u32> = sp.buckets.iter().map(|&i| buckets_of(a)[i]).collect();
        let y = buckets_of(b);
        for (k, &i) in sp.buckets.iter().enumerate() {
            if x[k] != y[i] {
                return Some(format!("buckets[{}]:{}!={}", i, x[k], y[i]));
            }
        }
    }
    if let (Some(x), Some(y)) = (forest_of(a), forest_of(b)) {
        for &i in &sp.forest {
            if x[i] != y[i] {
                return Some(format!("forest[{}]:{}!={}", i, x[i], y[i]));
            }
        }
    }
    None
}

/// first difference over the whole tables (field-by-field), used when PartialEq says "different"
fn full_diff(a: &mut UH, b: &mut UH) -> String {
    if let (Some(x), Some(y)) = (num_of(a), num_of(b)) {
        if x.len() != y.len() {
            return format!("num.len:{}!={}", x.len(), y.len());
        }
        for i in 0..x.len() {
            if x[i] != y[i] {
                return format!("num[{}]:{}!={}", i, x[i], y[i]);
            }
        }
    }
    {
        let x: Vec<u32> = buckets_of(a).to_vec();
        let y = buckets_of(b);
        if x.len() != y.len() {
            return format!("buckets.len:{}!={}", x.len(), y.len());
        }
        for i in 0..x.len() {
            if x[i] != y[i] {
                return format!("buckets[{}]:{}!={}", i, x[i], y[i]);
            }
        }
    }
    if let (Some(x), Some(y)) = (forest_of(a), forest_of(b)) {
        if x.len() != y.len() {
            return format!("forest.len:{}!={}", x.len(), y.len());
        }
        for i in 0..x.len() {
            if x[i] != y[i] {
                return format!("forest[{}]:{}!={}", i, x[i], y[i]);
            }
        }
    }
    "non-table-field".to_string()
}

/// canonical dump over the candidate slots: entries that differ from the table's initial value,
/// in the order num, buckets, forest, increasing index.  hash = hmix chain over (table, idx, val).
fn dump(h: &mut UH, sp: &Sparse, list: bool, numinit: u16) -> String {
    let mut n = 0usize;
    let mut hs = 0u64;
    let mut listing = String::new();
    let init = bucket_init(h);
    let mut add = |t: u64, i: usize, v: u64, listing: &mut String| {
        n += 1;
        hs = hmix(hmix(hmix(hs, t), i as u64), v);
        if list {
            listing.push_str(&format!(" {}[{}]={}", ["num", "buckets", "forest"][t as usize], i, v));
        }
    };
    if let Some(x) = num_of(h) {
        for &i in &sp.num {
            if x[i] != numinit {
                add(0, i, x[i] as u64, &mut listing);
            }
        }
    }
    {
        let x = buckets_of(h);
        for &i in &sp.buckets {
            if x[i] != init {
                add(1, i, x[i] as u64, &mut listing);
            }
        }
    }
    if let Some(x) = forest_of(h) {
        for &i in &sp.forest {
            if x[i] != 0 {
                add(2, i, x[i] as u64, &mut listing);
            }
        }
    }
    if list {
        format!("n={} h={} |{}", n, hs, listing)
    } else {
        format!("n={} h={}", n, hs)
    }
}

// ---- data ---------------------------------------------------------------------------------
fn explicit(style: &str) -> Option<Vec<u8>> {
    if style.starts_with('x') {
        Some(unhex(&style[1..]))
    } else {
        None
    }
}

fn gen_bytes(seed: u64, style: &str, n: usize) -> Vec<u8> {
    let mut h = hmix(seed & MASK62, 12345);
    let mut v = Vec::with_capacity(n);
    for i in 0..n {
        h = hmix(h, i as u64);
        let b = ((h >> 17) & 0xff) as u8;
        let x = match style {
            "0" => b,
            "1" => b"abcd"[(b & 3) as usize],
            "2" => {
                if b % 5 == 0 {
                    b'b'
                } else {
                    b'a'
                }
            }
            "3" => {
                let p = 1 + (seed % 7) as usize;
                if i >= p {
                    v[i - p]
                } else {
                    b
                }
            }
            _ => 0,
        };
        v.push(x);
    }
    v
}

fn make_data(maskbits: u32, seed: u64, style: &str, dlen: usize, tail: usize, rc: bool) -> (Vec<u8>, usize) {
    if maskbits == 0 {
        match explicit(style) {
            Some(a) => (a, usize::MAX),
            None => (gen_bytes(seed, style, dlen), usize::MAX),
        }
    } else {
        let n = 1usize << maskbits;
        let mut d = match explicit(style) {
            Some(mut a) => {
                a.resize(n, 0);
                a
            }
            None => gen_bytes(seed, style, n),
        };
        if rc {
            for j in 0..tail {
                let b = d[j % n];
                d.push(b);
            }
        } else {
            let st = if explicit(style).is_some() { "0" } else { style };
            d.extend(gen_bytes(seed.wrapping_add(1), st, tail));
        }
        (d, n - 1)
    }
}

// ---- operations ---------------------------------------------------------------------------
#[derive(Clone, Debug)]
enum Op {
    S(usize, usize),
    B(usize, usize),
    R(usize, usize),
    V4(usize),
    VE(usize),
    C,
    L,
    N(u16),
}

fn parse_ops(t: &[&str]) -> Option<Vec<Op>> {
    let mut v = Vec::new();
    let mut i = 0;
    while i < t.len() {
        let two = |i: usize| -> Option<(usize, usize)> { Some((t.get(i + 1)?.parse().ok()?, t.get(i + 2)?.parse().ok()?)) };
        match t[i] {
            "S" => {
                let (a, b) = two(i)?;
                v.push(Op::S(a, b));
                i += 3;
            }
            "B" => {
                let (a, b) = two(i)?;
                v.push(Op::B(a, b));
                i += 3;
            }
            "R" => {
                let (a, b) = two(i)?;
                v.push(Op::R(a, b));
                i += 3;
            }
            "V4" => {
                v.push(Op::V4(t.get(i + 1)?.parse().ok()?));
                i += 2;
            }
            "VE" => {
                v.push(Op::VE(t.get(i + 1)?.parse().ok()?));
                i += 2;
            }
            "C" => {
                v.push(Op::C);
                i += 1;
            }
            "L" => {
                v.push(Op::L);
                i += 1;
            }
            "N" => {
                if i != 0 {
                    return None;
                }
                v.push(Op::N(t.get(i + 1)?.parse().ok()?));
                i += 2;
            }
            _ => return None,
        }
    }
    Some(v)
}

fn op_ranges(ops: &[Op]) -> Vec<(usize, usize)> {
    let mut r = Vec::new();
    for o in ops {
        match *o {
            Op::S(a, b) | Op::B(a, b) | Op::R(a, b) => {
                if a < b {
                    r.push((a, b))
                }
            }
            Op::V4(ix) => r.push((ix, ix + 13)),
            Op::VE(ix) => r.push((ix, ix + 9)),
            _ => {}
        }
    }
    r
}

fn vec4(h: &mut UH, data: &[u8], mask: usize, ix: usize, even: bool) {
    macro_rules! go {
        ($x:expr) => {
            if even {
                $x.StoreEvenVec4(data, mask, ix)
            } else {
                $x.Store4Vec4(data, mask, ix)
            }
        };
    }
    match h {
        UnionHasher::H2(x) => go!(x),
        UnionHasher::H3(x) => go!(x),
        UnionHasher::H4(x) => go!(x),
        UnionHasher::H54(x) => go!(x),
        UnionHasher::H5(x) => go!(x),
        UnionHasher::H5q5(x) => go!(x),
        UnionHasher::H5q7(x) => go!(x),
        UnionHasher::H6(x) => go!(x),
        UnionHasher::H9(x) => go!(x),
        UnionHasher::H10(x) => go!(x),
        UnionHasher::Uninit => panic!("uninit"),
    }
}

/// applies one op; Some(b) for the clone op = PartialEq(original, clone)
fn apply(h: &mut UH, data: &[u8], mask: usize, op: &Op) -> Option<bool> {
    match *op {
        Op::S(a, b) => {
            for i in a..b {
                h.Store(data, mask, i);
            }
        }
        Op::B(a, b) => h.BulkStoreRange(data, mask, a, b),
        Op::R(a, b) => h.StoreRange(data, mask, a, b),
        Op::V4(ix) => vec4(h, data, mask, ix, false),
        Op::VE(ix) => vec4(h, data, mask, ix, true),
        Op::C => {
            let mut a = StandardAlloc::default();
            let c = h.clone_with_alloc(&mut a);
            let eq = *h == c;
            *h = c;
            return Some(eq);
        }
        Op::L | Op::N(_) => {}
    }
    None
}

struct Pool {
    cfg: Cfg,
    numinit: u16,
    work: UH,
    refh: UH,
    pristine: UH,
}
fn build_with(cfg: Cfg, numinit: u16) -> UH {
    let mut h = build(cfg);
    if numinit != 0 {
        if let Some(n) = num_of(&mut h) {
            for x in n.iter_mut() {
                *x = numinit;
            }
        }
    }
    h
}
impl Pool {
    fn new(cfg: Cfg, numinit: u16) -> Pool {
        Pool { cfg, numinit, work: build_with(cfg, numinit), refh: build_with(cfg, numinit), pristine: build_with(cfg, numinit) }
    }
}
fn pool_for(pool: &mut Option<Pool>, cfg: Cfg, numinit: u16) {
    if pool.as_ref().map(|p| p.cfg != cfg).unwrap_or(true) {
        *pool = None;
        *pool = Some(Pool::new(cfg, numinit));
        return;
    }
    let p = pool.as_mut().unwrap();
    if p.numinit != numinit {
        // between lines all three hashers are in the pristine state: only the counters change
        for h in [&mut p.work, &mut p.refh, &mut p.pristine] {
            if let Some(n) = num_of(h) {
                for x in n.iter_mut() {
                    *x = numinit;
                }
            }
        }
        p.numinit = numinit;
    }
}

struct Scn {
    cfg: Cfg,
    kind: String,
    maskbits: u32,
    seed: u64,
    style: String,
    dlen: usize,
    tail: usize,
    rc: bool,
}
fn parse_scn(t: &[&str]) -> Option<Scn> {
    Some(Scn {
        cfg: Cfg { q: t.get(1)?.parse().ok()?, lgwin: t.get(2)?.parse().ok()?, hint: t.get(3)?.parse().ok()?, q95: *t.get(4)? == "1" },
        kind: t.get(5)?.to_string(),
        maskbits: t.get(6)?.parse().ok()?,
        seed: t.get(7)?.parse().ok()?,
        style: t.get(8)?.to_string(),
        dlen: t.get(9)?.parse().ok()?,
        tail: t.get(10)?.parse().ok()?,
        rc: *t.get(11)? == "1",
    })
}

fn run_ops(h: &mut UH, data: &[u8], mask: usize, ops: &[Op]) -> Result<Option<bool>, String> {
    let mut ceq = None;
    let r = guarded(AssertUnwindSafe(|| {
        for o in ops {
            if let Some(b) = apply(h, data, mask, o) {
                ceq = Some(b);
            }
        }
    }));
    r.map(|_| ceq)
}

fn do_x(pool: &mut Option<Pool>, t: &[&str]) -> String {
    let s = match parse_scn(t) {
        Some(s) => s,
        None => return "BADREQ".to_string(),
    };
    let ops = match parse_ops(&t[12..]) {
        Some(o) => o,
        None => return "BADREQ".to_string(),
    };
    let numinit = match ops.first() {
        Some(Op::N(v)) => *v,
        _ => 0,
    };
    pool_for(pool, s.cfg, numinit);
    let p = pool.as_mut().unwrap();
    if describe(&p.pristine) != s.kind {
        return format!("KINDMISMATCH {}", describe(&p.pristine));
    }
    let (data, mask) = make_data(s.maskbits, s.seed, &s.style, s.dlen, s.tail, s.rc);
    let sp = sparse_for(&mut p.pristine, &data, mask, &op_ranges(&ops));
    let list = ops.iter().any(|o| matches!(o, Op::L));
    let r = run_ops(&mut p.work, &data, mask, &ops);
    let ans = match r {
        Err(e) => {
            p.work = build_with(s.cfg, numinit);
            return e;
        }
        Ok(ceq) => {
            let d = dump(&mut p.work, &sp, list, numinit);
            match ceq {
                Some(b) => {
                    let (head, rest) = match d.find(" |") {
                        Some(k) => (d[..k].to_string(), d[k..].to_string()),
                        None => (d.clone(), String::new()),
                    };
                    format!("OK {} ceq={}{}", head, b as u8, rest)
                }
                None => format!("OK {}", d),
            }
        }
    };
    sparse_reset(&mut p.work, &sp, numinit);
    if p.work != p.pristine {
        // an update touched a slot outside the candidate regions
        let w = full_diff(&mut p.work, &mut p.pristine);
        p.work = build_with(s.cfg, numinit);
        return format!("{} STRAY {}", ans, w);
    }
    ans
}

fn do_p(pool: &mut Option<Pool>, t: &[&str]) -> String {
    let s = match parse_scn(t) {
        Some(s) => s,
        None => return "BADREQ".to_string(),
    };
    let g = |i: usize| -> Option<usize> { t.get(i)?.parse().ok() };
    let (p0, p1, st, en, allsplits, nparts, pseed) = match (g(12), g(13), g(14), g(15), g(16), g(17), g(18)) {
        (Some(a), Some(b), Some(c), Some(d), Some(e), Some(f), Some(h)) => (a, b, c, d, e, f, h),
        _ => return "BADREQ".to_string(),
    };
    let fullmode = g(19).unwrap_or(1) != 0;
    let numinit = g(20).unwrap_or(0) as u16;
    pool_for(pool, s.cfg, numinit);
    let p = pool.as_mut().unwrap();
    if describe(&p.pristine) != s.kind {
        return format!("KINDMISMATCH {}", describe(&p.pristine));
    }
    let (data, mask) = make_data(s.maskbits, s.seed, &s.style, s.dlen, s.tail, s.rc);
    let h10 = is_h10(&p.pristine);
    let adv = is_adv(&p.pristine);
    let (need, _, _) = geometry(&p.pristine);
    let need = if h10 { 128 } else { need };
    let mut ranges = vec![];
    if p0 < p1 {
        ranges.push((p0, p1));
    }
    ranges.push((st, en + 16));
    let sp = sparse_for(&mut p.pristine, &data, mask, &ranges);
    let prefix = Op::S(p0, p1);
    let mut fails: Vec<String> = Vec::new();
    let mut checks = 0usize;
    // reference: one at a time
    if let Err(e) = run_ops(&mut p.refh, &data, mask, &[prefix.clone(), Op::S(st, en)]) {
        p.refh = build_with(s.cfg, numinit);
        p.work = build_with(s.cfg, numinit);
        return format!("REFPANIC {}", e);
    }
    // candidates
    let mut cands: Vec<(String, Vec<Op>, bool)> = Vec::new(); // (name, ops, full PartialEq?)
    cands.push(("bulk".to_string(), vec![Op::B(st, en)], true));
    if !h10 || en - st < 63 {
        cands.push(("range".to_string(), vec![Op::R(st, en)], true));
    }
    if allsplits != 0 {
        for m in st..=en {
            cands.push((format!("split@{}", m), vec![Op::B(st, m), Op::B(m, en)], false));
        }
    }
    // random partitions into consecutive pieces
    let mut rng = Rng::new(pseed as u64 ^ 0xC19);
    for k in 0..nparts {
        let mut cuts: Vec<usize> = vec![st, en];
        let pieces = 2 + rng.below(5) as usize;
        for _ in 0..pieces {
            if en > st {
                cuts.push(st + rng.below((en - st + 1) as u64) as usize);
            }
        }
        cuts.sort_unstable();
        let mut ops = Vec::new();
        for w in cuts.windows(2) {
            ops.push(Op::B(w[0], w[1]));
        }
        let cs: Vec<String> = cuts.iter().map(|c| c.to_string()).collect();
        cands.push((format!("parts#{}:[{}]", k, cs.join(",")), ops, k == 0));
    }
    for (name, ops, full) in cands {
        let mut all = vec![prefix.clone()];
        all.extend(ops);
        checks += 1;
        match run_ops(&mut p.work, &data, mask, &all) {
            Err(e) => {
                fails.push(format!("{}:{}", name, e.replace(' ', "_")));
                p.work = build_with(s.cfg, numinit);
                continue;
            }
            Ok(_) => {}
        }
        let same = if full && fullmode { p.work == p.refh } else { sparse_diff(&mut p.work, &mut p.refh, &sp).is_none() };
        if !same {
            let w = match sparse_diff(&mut p.work, &mut p.refh, &sp) {
                Some(w) => w,
                None => full_diff(&mut p.work, &mut p.refh),
            };
            fails.push(format!("{}:{}", name, w));
        }
        if name == "bulk" && fullmode {
            // a cloned index equals its source
            checks += 1;
            let mut a = StandardAlloc::default();
            let c = p.work.clone_with_alloc(&mut a);
            if !(c == p.work) || !(p.work == c) {
                let mut c = c;
                fails.push(format!("clone:{}", full_diff(&mut c, &mut p.work)));
            }
        }
        sparse_reset(&mut p.work, &sp, numinit);
    }
    // the 4-at-a-time entry points of the concrete types (title-level: batched = one at a time)
    let _ = adv;
    for (even, step) in [(false, 4usize), (true, 2usize)] {
        let ix = st;
        let last = ix + 3 * step;
        let inb = if mask == usize::MAX { last + need <= data.len() } else { true };
        if !inb || h10 {
            continue;
        }
        checks += 1;
        sparse_reset(&mut p.refh, &sp, numinit);
        let mut rops = vec![prefix.clone()];
        for k in 0..4 {
            rops.push(Op::S(ix + k * step, ix + k * step + 1));
        }
        let r1 = run_ops(&mut p.refh, &data, mask, &rops);
        let r2 = run_ops(&mut p.work, &data, mask, &[prefix.clone(), if even { Op::VE(ix) } else { Op::V4(ix) }]);
        match (r1, r2) {
            (Ok(_), Ok(_)) => {
                if let Some(w) = sparse_diff(&mut p.work, &mut p.refh, &sp) {
                    fails.push(format!("{}:{}", if even { "evenvec4" } else { "vec4" }, w));
                }
                sparse_reset(&mut p.work, &sp, numinit);
            }
            (a, b) => {
                fails.push(format!("{}:panic:{:?}/{:?}", if even { "evenvec4" } else { "vec4" }, a.is_err(), b.is_err()));
                p.work = build_with(s.cfg, numinit);
                p.refh = build_with(s.cfg, numinit);
            }
        }
    }
    sparse_reset(&mut p.refh, &sp, numinit);
    sparse_reset(&mut p.work, &sp, numinit);
    if !fullmode {
        return if fails.is_empty() {
            format!("OK checks={}", checks)
        } else {
            let shown: Vec<String> = fails.iter().take(6).cloned().collect();
            format!("FAIL n={} of {} {}", fails.len(), checks, shown.join(" "))
        };
    }
    if p.work != p.pristine {
        fails.push(format!("stray-write(work):{}", full_diff(&mut p.work, &mut p.pristine)));
        p.work = build_with(s.cfg, numinit);
    }
    if p.refh != p.pristine {
        fails.push(format!("stray-write(ref):{}", full_diff(&mut p.refh, &mut p.pristine)));
        p.refh = build_with(s.cfg, numinit);
    }
    if fails.is_empty() {
        format!("OK checks={}", checks)
    } else {
        let shown: Vec<String> = fails.iter().take(6).cloned().collect();
        format!("FAIL n={} of {} {}", fails.len(), checks, shown.join(" "))
    }
}

fn main() {
    quiet_panics();
    let mut pool: Option<Pool> = None;
    serve(|t| match t[0] {
        "D" => {
            if t.len() < 5 {
                return "BADREQ".to_string();
            }
            let c = Cfg { q: t[1].parse().unwrap_or(0), lgwin: t[2].parse().unwrap_or(0), hint: t[3].parse().unwrap_or(0), q95: t[4] == "1" };
            match guarded(move || describe(&build(c))) {
                Ok(s) => s,
                Err(e) => e,
            }
        }
        "X" => do_x(&mut pool, t),
        "P" => do_p(&mut pool, t),
        _ => "BADREQ".to_string(),
    });
}
