// Concatenator harness (properties C16, C12, C03): drives the real `BroCatli` (or the
// `Broccoli*` C-ABI functions) through the caller protocol of src/bin/catbrotli.rs and prints
// one record per call.  Same line protocol and answer format as ocaml/concat_driver.ml,
// whose driver loop is the extracted coq/model/ConcatRun.v.
//
//   RUN <N|F> <new|wK> <-|all|i,j,..> <[p:]cap,cap,..> <fuel> <task>...   task = F | C<hex>|C- | X
//     -> final=<rc|PANIC|LOOP> ncalls=<n> out=<hex|-> trace=<rec>;<rec>.. [msg=<panic text>]
//        rec = op,rc|P,inlen,in0,in1,cap,off0,off1,bufhash,statehex
//   ENC <quality> <lgwin> <flags:-|a|c|m|l..> <hex|->   -> OK <hex> | ERR | PANIC(..)
//   DEC <hex>       (brotli-decompressor)               -> OK <hex|-> | ERR | PANIC(..)
//   DECG <hex>      (Google libbrotlidec, large window) -> OK <hex|-> | ERR
//   PWS <b0> <b1> <n>   parse result as seen through a first member of n (>=4) bytes -> see below
use brotli::concat::{BroCatli, BroCatliResult};
use brotli::ffi::broccoli::{
    BroccoliConcatFinish, BroccoliConcatStream, BroccoliCreateInstance,
    BroccoliCreateInstanceWithWindowSize, BroccoliNewBrotliFile, BroccoliState,
};
use std::panic::AssertUnwindSafe;
use vharness::*;

const SHOW: usize = 24;

fn rc_num(r: BroCatliResult) -> u32 {
    r as u32
}

fn fresh_buf(cap: usize) -> Vec<u8> {
    (0..cap).map(|i| ((165 + 7 * i) & 255) as u8).collect()
}
fn buf_hash(b: &[u8]) -> u64 {
    let mut h = 0u64;
    for x in b {
        h = hmix(h, *x as u64);
    }
    h
}
fn hexd(b: &[u8]) -> String {
    if b.is_empty() {
        "-".to_string()
    } else {
        hex(b)
    }
}

enum Mach {
    Nat(BroCatli),
    Ffi(BroccoliState),
}

fn ffi_bytes(st: &BroccoliState) -> [u8; 128] {
    // #[repr(C)] struct { *mut c_void, [u8; 120] }
    unsafe { std::mem::transmute::<BroccoliState, [u8; 128]>(*st) }
}

impl Mach {
    fn show(&self) -> Vec<u8> {
        match self {
            Mach::Nat(bc) => {
                let mut b = [0u8; SHOW];
                bc.serialize_to_buffer(&mut b[..]).unwrap();
                b.to_vec()
            }
            Mach::Ffi(st) => ffi_bytes(st)[8..8 + SHOW].to_vec(),
        }
    }
    // a native copy of the current state (used to predict a panic before calling an extern "C"
    // function, out of which a panic cannot unwind)
    fn native_copy(&self) -> BroCatli {
        match self {
            Mach::Nat(bc) => {
                let mut b = [0u8; SHOW];
                bc.serialize_to_buffer(&mut b[..]).unwrap();
                BroCatli::deserialize_from_buffer(&b[..]).unwrap()
            }
            Mach::Ffi(st) => BroCatli::deserialize_from_buffer(&ffi_bytes(st)[8..128]).unwrap(),
        }
    }
    fn restore(&mut self) -> Result<(), String> {
        if let Mach::Nat(bc) = self {
            let mut b = [0xffu8; SHOW];
            let r = guarded(AssertUnwindSafe(|| {
                bc.serialize_to_buffer(&mut b[..]).unwrap();
                BroCatli::deserialize_from_buffer(&b[..]).unwrap()
            }))?;
            *bc = r;
        }
        Ok(())
    }
    fn file(&mut self) -> Result<(), String> {
        match self {
            Mach::Nat(bc) => {
                bc.new_brotli_file();
                Ok(())
            }
            Mach::Ffi(st) => {
                unsafe { BroccoliNewBrotliFile(st as *mut BroccoliState) };
                Ok(())
            }
        }
    }
    fn stream(
        &mut self,
        input: &[u8],
        in_off: &mut usize,
        out: &mut [u8],
        out_off: &mut usize,
    ) -> Result<BroCatliResult, String> {
        match self {
            Mach::Nat(bc) => guarded(AssertUnwindSafe(|| bc.stream(input, in_off, out, out_off))),
            Mach::Ffi(st) => {
                // dry run on a native copy with copies of the windows
                let mut probe = BroCatli::deserialize_from_buffer(&ffi_bytes(st)[8..128]).unwrap();
                let win_in = &input[*in_off..];
                let mut win_out = out[*out_off..].to_vec();
                let (mut a, mut b) = (0usize, 0usize);
                guarded(AssertUnwindSafe(|| probe.stream(win_in, &mut a, &mut win_out[..], &mut b)))?;
                let mut avail_in = input.len() - *in_off;
                let mut avail_out = out.len() - *out_off;
                let mut ip = unsafe { input.as_ptr().add(*in_off) };
                let mut op = unsafe { out.as_mut_ptr().add(*out_off) };
                let r = unsafe {
                    BroccoliConcatStream(
                        st as *mut BroccoliState,
                        &mut avail_in,
                        &mut ip,
                        &mut avail_out,
                        &mut op,
                    )
                };
                *in_off = input.len() - avail_in;
                *out_off = out.len() - avail_out;
                Ok(r)
            }
        }
    }
    fn finish(&mut self, out: &mut [u8], out_off: &mut usize) -> Result<BroCatliResult, String> {
        match self {
            Mach::Nat(bc) => guarded(AssertUnwindSafe(|| bc.finish(out, out_off))),
            Mach::Ffi(st) => {
                let mut probe = BroCatli::deserialize_from_buffer(&ffi_bytes(st)[8..128]).unwrap();
                let mut win_out = out[*out_off..].to_vec();
                let mut b = 0usize;
                guarded(AssertUnwindSafe(|| probe.finish(&mut win_out[..], &mut b)))?;
                let mut avail_out = out.len() - *out_off;
                let mut op = unsafe { out.as_mut_ptr().add(*out_off) };
                let r = unsafe {
                    BroccoliConcatFinish(st as *mut BroccoliState, &mut avail_out, &mut op)
                };
                *out_off = out.len() - avail_out;
                Ok(r)
            }
        }
    }
}

fn parse_list(s: &str) -> Vec<usize> {
    if s == "-" {
        return Vec::new();
    }
    s.split(',').filter(|x| !x.is_empty()).map(|x| x.parse().unwrap()).collect()
}

fn run(t: &[&str]) -> String {
    let ffi = t[1] == "F";
    let init = t[2];
    let rall = t[3] == "all";
    let rs: Vec<usize> = if rall { Vec::new() } else { parse_list(t[3]) };
    // "p:" = every call gets a fresh output buffer of the next size (drained after each call)
    let percall = t[4].starts_with("p:");
    let caps = parse_list(if percall { &t[4][2..] } else { t[4] });
    let fuel: usize = t[5].parse().unwrap();
    let tasks: Vec<&str> = t[6..].to_vec();
    let nth_cap = |k: usize| if caps.is_empty() { 0 } else { caps[k % caps.len()] };

    let mut trace: Vec<String> = Vec::new();
    let mut emitted: Vec<u8> = Vec::new();
    let mut msg = String::new();
    let finalize = |fin: String, ncalls: usize, emitted: &Vec<u8>, trace: &Vec<String>, msg: &str| {
        let mut s = format!("final={} ncalls={} out={} trace={}", fin, ncalls, hexd(emitted), if trace.is_empty() { "-".to_string() } else { trace.join(";") });
        if !msg.is_empty() {
            s.push_str(" msg=");
            s.push_str(&msg.replace(' ', "_"));
        }
        s
    };
    // init
    let m0: Result<Mach, String> = if init == "new" {
        if ffi {
            Ok(Mach::Ffi(BroccoliCreateInstance()))
        } else {
            Ok(Mach::Nat(BroCatli::new()))
        }
    } else {
        let w: u8 = init[1..].parse().unwrap();
        match guarded(move || BroCatli::new_with_window_size(w)) {
            Err(e) => Err(e),
            Ok(bc) => {
                if ffi {
                    Ok(Mach::Ffi(BroccoliCreateInstanceWithWindowSize(w)))
                } else {
                    Ok(Mach::Nat(bc))
                }
            }
        }
    };
    let mut m = match m0 {
        Ok(m) => m,
        Err(e) => return finalize("PANIC".into(), 0, &emitted, &trace, &e),
    };
    let mut capidx = 0usize;
    let mut buf = fresh_buf(nth_cap(0));
    let mut off = 0usize;
    let mut ncalls = 0usize;
    let mut ti = 0usize;
    let mut in_off = 0usize;
    let mut cur: Vec<u8> = Vec::new();
    let mut cur_loaded = usize::MAX;
    let mut left = fuel;
    let fin: String;
    loop {
        if left == 0 {
            fin = "LOOP".into();
            break;
        }
        left -= 1;
        if ti >= tasks.len() {
            fin = "0".into();
            break;
        }
        let task = tasks[ti];
        if task == "F" {
            if let Err(e) = m.file() {
                msg = e;
                fin = "PANIC".into();
                break;
            }
            ti += 1;
            in_off = 0;
            continue;
        }
        let is_finish = task == "X";
        if !is_finish && cur_loaded != ti {
            cur = unhex(&task[1..]);
            cur_loaded = ti;
        }
        if rall || rs.contains(&ncalls) {
            if let Err(e) = m.restore() {
                msg = e;
                fin = "PANIC".into();
                break;
            }
        }
        let before = m.show();
        let (off0, in0) = (off, in_off);
        let cap = buf.len();
        let r = if is_finish {
            m.finish(&mut buf[..], &mut off)
        } else {
            m.stream(&cur[..], &mut in_off, &mut buf[..], &mut off)
        };
        ncalls += 1;
        let inlen = if is_finish { 0 } else { cur.len() };
        match r {
            Err(e) => {
                trace.push(format!("{},P,{},{},{},{},{},{},{},{}", is_finish as u8, inlen, if is_finish { 0 } else { in0 }, if is_finish { 0 } else { in0 }, cap, off0, off0, 0, hex(&before)));
                // the record of a panicking call shows the buffers and state as they were before it
                off = off0;
                msg = e;
                fin = "PANIC".into();
                break;
            }
            Ok(rc) => {
                trace.push(format!("{},{},{},{},{},{},{},{},{},{}", is_finish as u8, rc_num(rc), inlen, if is_finish { 0 } else { in0 }, if is_finish { 0 } else { in_off }, cap, off0, off, buf_hash(&buf), hex(&m.show())));
                match rc {
                    BroCatliResult::NeedsMoreOutput => {
                        emitted.extend_from_slice(&buf[..off.min(buf.len())]);
                        capidx += 1;
                        buf = fresh_buf(nth_cap(capidx));
                        off = 0;
                        if is_finish {
                            in_off = 0;
                        }
                    }
                    BroCatliResult::NeedsMoreInput if !is_finish => {
                        ti += 1;
                        in_off = 0;
                        if percall {
                            emitted.extend_from_slice(&buf[..off.min(buf.len())]);
                            capidx += 1;
                            buf = fresh_buf(nth_cap(capidx));
                            off = 0;
                        }
                    }
                    other => {
                        fin = format!("{}", rc_num(other));
                        break;
                    }
                }
            }
        }
    }
    emitted.extend_from_slice(&buf[..off.min(buf.len())]);
    finalize(fin, ncalls, &emitted, &trace, &msg)
}

fn chunks_of(m: &[u8], sizes: &[usize]) -> Vec<Vec<u8>> {
    let mut out = Vec::new();
    let mut pos = 0usize;
    for s in sizes {
        if pos >= m.len() {
            break;
        }
        let s = (*s).max(1);
        let e = (pos + s).min(m.len());
        out.push(m[pos..e].to_vec());
        pos = e;
    }
    if pos < m.len() {
        out.push(m[pos..].to_vec());
    }
    out
}

// SWEEP <api> <init> <restore> <caps> <b0> <slices|-> <cont,cont,..> <pre tasks joined by +|->
fn task_list(s: &str) -> Vec<String> {
    if s == "-" {
        Vec::new()
    } else {
        s.split('+').map(|x| x.to_string()).collect()
    }
}
fn task_bytes(ts: &[String]) -> usize {
    ts.iter().map(|x| if x.starts_with('C') && x != "C-" { (x.len() - 1) / 2 } else { 0 }).sum()
}

// for b1 in 0..=255, for every member gen(b1): script = pre F chunks(member) post X
fn sweep_core(api: &str, init: &str, restore: &str, caps: &str, slices: &[usize], pre: &[String], post: &[String], gen: &dyn Fn(u8) -> Vec<Vec<u8>>) -> String {
    let extra = task_bytes(pre) + task_bytes(post);
    let ncaps = parse_list(if caps.starts_with("p:") { &caps[2..] } else { caps }).len();
    let mut h = 0u64;
    let mut n = 0usize;
    let mut bad: Vec<String> = Vec::new();
    for b1 in 0..=255u8 {
        for m in gen(b1) {
            let cs = if slices.is_empty() { vec![m.clone()] } else { chunks_of(&m, slices) };
            let mut tasks: Vec<String> = pre.to_vec();
            tasks.push("F".into());
            for c in cs {
                tasks.push(format!("C{}", hex(&c)));
            }
            tasks.extend_from_slice(post);
            tasks.push("X".into());
            let fuel = (ncaps + 2) * (3 * (extra + m.len()) + 16 * tasks.len() + 64);
            let fuel_s = fuel.to_string();
            let mut req: Vec<&str> = vec!["RUN", api, init, restore, caps, &fuel_s];
            for x in &tasks {
                req.push(x);
            }
            let ans = run(&req);
            let canon = match ans.find(" msg=") {
                Some(i) => &ans[..i],
                None => &ans[..],
            };
            h = hash_str(h, canon);
            if canon.starts_with("final=PANIC") || canon.starts_with("final=LOOP") {
                bad.push(n.to_string());
            }
            n += 1;
        }
    }
    format!("n={} hash={} bad={}", n, h, if bad.is_empty() { "-".to_string() } else { bad.join(",") })
}

// SWEEP <api> <init> <restore> <caps> <b0> <slices|-> <cont,cont,..> <pre tasks joined by +|->
//   member = b0 b1 cont
fn sweep(t: &[&str]) -> String {
    let b0: u8 = t[5].parse().unwrap();
    let conts: Vec<Vec<u8>> = t[7].split(',').map(|c| unhex(c)).collect();
    sweep_core(t[1], t[2], t[3], t[4], &parse_list(t[6]), &task_list(t[8]), &[], &|b1| {
        conts.iter().map(|c| { let mut m = vec![b0, b1]; m.extend_from_slice(c); m }).collect()
    })
}

// TSWEEP <api> <init> <restore> <caps> <t0> <slices|-> <head,head,..> <post tasks joined by +|-> <pre tasks|->
//   member = head t0 t1 (its last bytes are what the concatenator holds back), followed by the post tasks
fn tsweep(t: &[&str]) -> String {
    let t0: u8 = t[5].parse().unwrap();
    let heads: Vec<Vec<u8>> = t[7].split(',').map(|c| unhex(c)).collect();
    sweep_core(t[1], t[2], t[3], t[4], &parse_list(t[6]), &task_list(t[9]), &task_list(t[8]), &|t1| {
        heads.iter().map(|hd| { let mut m = hd.clone(); m.push(t0); m.push(t1); m }).collect()
    })
}

fn enc(t: &[&str]) -> String {
    let q: i32 = t[1].parse().unwrap();
    let lgwin: i32 = t[2].parse().unwrap();
    let flags = t[3];
    let data = unhex(t[4]);
    match guarded(move || {
        let mut p = brotli::enc::BrotliEncoderParams::default();
        p.quality = q;
        p.lgwin = lgwin;
        if flags.contains('a') {
            p.appendable = true;
        }
        if flags.contains('c') {
            p.catable = true;
            p.use_dictionary = false;
            p.appendable = true;
        }
        if flags.contains('m') {
            p.magic_number = true;
        }
        if flags.contains('l') {
            p.large_window = true;
        }
        if flags.contains('h') {
            p.size_hint = data.len();
        }
        let mut out: Vec<u8> = Vec::new();
        let r = brotli::BrotliCompress(&mut &data[..], &mut out, &p);
        (r.is_ok(), out)
    }) {
        Ok((true, out)) => format!("OK {}", hexd(&out)),
        Ok((false, _)) => "ERR".to_string(),
        Err(e) => e,
    }
}

fn params_of(q: i32, lgwin: i32, flags: &str, hint: usize) -> brotli::enc::BrotliEncoderParams {
    let mut p = brotli::enc::BrotliEncoderParams::default();
    p.quality = q;
    p.lgwin = lgwin;
    if flags.contains('a') {
        p.appendable = true;
    }
    if flags.contains('c') {
        p.catable = true;
        p.use_dictionary = false;
        p.appendable = true;
    }
    if flags.contains('m') {
        p.magic_number = true;
    }
    if flags.contains('l') {
        p.large_window = true;
    }
    if flags.contains('h') {
        p.size_hint = hint;
    }
    p
}

// ENCS <quality> <lgwin> <flags> <op>...   op = W<hex> (write) | L (flush): a member produced by a call
// history through CompressorWriter (closed at the end)  -> OK <hex> | ERR | PANIC(..)
fn encs(t: &[&str]) -> String {
    let q: i32 = t[1].parse().unwrap();
    let lgwin: i32 = t[2].parse().unwrap();
    let flags = t[3].to_string();
    let ops: Vec<String> = t[4..].iter().map(|x| x.to_string()).collect();
    match guarded(move || {
        use std::io::Write;
        let p = params_of(q, lgwin, &flags, 0);
        let mut out: Vec<u8> = Vec::new();
        let mut ok = true;
        {
            let mut w = brotli::CompressorWriter::with_params(&mut out, 4096, &p);
            for op in &ops {
                if op == "L" {
                    ok &= w.flush().is_ok();
                } else {
                    ok &= w.write_all(&unhex(&op[1..])).is_ok();
                }
            }
        }
        (ok, out)
    }) {
        Ok((true, out)) => format!("OK {}", hexd(&out)),
        Ok((false, _)) => "ERR".to_string(),
        Err(e) => e,
    }
}

fn dec(t: &[&str]) -> String {
    let data = unhex(t[1]);
    match guarded(move || {
        let mut out: Vec<u8> = Vec::new();
        let r = brotli::BrotliDecompress(&mut &data[..], &mut out);
        (r.is_ok(), out)
    }) {
        Ok((true, out)) => format!("OK {}", hexd(&out)),
        Ok((false, _)) => "ERR".to_string(),
        Err(e) => e,
    }
}

#[allow(non_camel_case_types)]
enum BrotliDecoderStateG {}
#[link(name = "brotlidec")]
extern "C" {
    fn BrotliDecoderCreateInstance(a: *const u8, b: *const u8, c: *const u8) -> *mut BrotliDecoderStateG;
    fn BrotliDecoderSetParameter(s: *mut BrotliDecoderStateG, p: i32, v: u32) -> i32;
    fn BrotliDecoderDecompressStream(
        s: *mut BrotliDecoderStateG,
        available_in: *mut usize,
        next_in: *mut *const u8,
        available_out: *mut usize,
        next_out: *mut *mut u8,
        total_out: *mut usize,
    ) -> i32;
    fn BrotliDecoderDestroyInstance(s: *mut BrotliDecoderStateG);
}

fn decg(t: &[&str]) -> String {
    let data = unhex(t[1]);
    let mut out: Vec<u8> = Vec::new();
    unsafe {
        let s = BrotliDecoderCreateInstance(std::ptr::null(), std::ptr::null(), std::ptr::null());
        BrotliDecoderSetParameter(s, 1, 1); // BROTLI_DECODER_PARAM_LARGE_WINDOW
        let mut avail_in = data.len();
        let mut next_in = data.as_ptr();
        let mut chunk = vec![0u8; 1 << 16];
        let mut res;
        let mut guard = 0usize;
        loop {
            let mut avail_out = chunk.len();
            let mut next_out = chunk.as_mut_ptr();
            let mut total = 0usize;
            res = BrotliDecoderDecompressStream(s, &mut avail_in, &mut next_in, &mut avail_out, &mut next_out, &mut total);
            out.extend_from_slice(&chunk[..chunk.len() - avail_out]);
            guard += 1;
            // 3 = NEEDS_MORE_OUTPUT
            if res != 3 || guard > 1_000_000 {
                break;
            }
        }
        BrotliDecoderDestroyInstance(s);
        // 1 = SUCCESS; trailing bytes after the end of the stream are an error for our purpose
        if res == 1 && avail_in == 0 {
            format!("OK {}", hexd(&out))
        } else {
            "ERR".to_string()
        }
    }
}

fn main() {
    quiet_panics();
    serve(|t| match t[0] {
        "RUN" => run(t),
        "SWEEP" => sweep(t),
        "TSWEEP" => tsweep(t),
        "ENC" => enc(t),
        "ENCS" => encs(t),
        "DEC" => dec(t),
        "DECG" => decg(t),
        _ => "BADREQ".to_string(),
    });
}
