// C02 / C06 harness: CompressMulti through every spawner, with the decisions of the run read
// from the verif_multi hook (cfg(brotli_verif)).
//
//   R sp=<spawner> q=<quality> w=<lgwin> f=<flag bits> t=<threads> in=<kind:len:seed> out=<bound|bound-K|N>
//     [hint=<size hint>] [lb=<lgblock>] [tr=1]
//     input kinds: those of streamlib::gen_data, and  lay.<T>.<letters>  = the input cut into the T job
//              ranges [i*len/T, (i+1)*len/T) of CompressMulti, chunk i filled after letter i (cyclic):
//              t text, z zeros, r noise, s skewed letters, m mix, p short period (1..16), P longer
//              period (17..80), n noise head (at least half the chunk: fills the first meta-block(s))
//              followed by one or two runs of short period (1..16, 4/11/15/16 favoured)
//     spawner: thr            brotli::enc::compress_multi_no_threadpool (one OS thread per job)
//              pool           brotli::enc::compress_multi              (fresh worker pool, t-1 workers)
//              poolr:<W>      brotli::enc::compress_worker_pool on a pool of W workers that lives as
//                             long as this process (reused by every later poolr:<W> request)
//              inl            brotli::enc::singlethreading::compress_multi (jobs run inside spawn)
//              slice          CompressMultiSlice with the thread-per-job spawner
//              fail:<K>       harness-side inline spawner whose join of job K returns Err
//              failview:<K>   harness-side spawner whose K-th view() of the shared input fails
//              failunwrap     harness-side spawner whose final unwrap() fails
//     flag bits: 1 catable, 2 appendable, 4 magic_number, 8 favor_cpu_efficiency, 16 large_window
//   answer: <OK n=<n>|ERR:<kind>|PANIC(..)> back=<1|0> bound=<b> dec=<ok|fail|na> h=<hash> [served=<k> ooo=<0|1>] ms=<t> [T=<trace>]
//           served = results the reused pool had delivered before this call, ooo = 1 when a pool job finished
//           before a job with a smaller index (out-of-order completion)
//   watchdog: every request runs on a worker thread; when it has not answered within the budget
//           (VERIF_MULTI_WATCHDOG_S seconds, default 60, plus a term in input length and quality) the main
//           thread answers  NORETURN(<budget>s <what was running>) ... T=<events so far>  for it and ends the
//           process with status 3 (the pool is stuck; the caller runs the remaining requests in a new process).
//           Answers are flushed one by one, so the first request without an answer is the one that was running.
use alloc_no_stdlib::SliceWrapper;
use brotli::enc::backward_references::{BrotliEncoderParams, UnionHasher};
use brotli::enc::threading::{
    verif_multi, BatchSpawnableLite, BrotliEncoderThreadError, CompressMulti, CompressMultiSlice,
    CompressionThreadResult, InternalOwned, InternalSendAlloc, Joinable, Owned, OwnedRetriever,
    PoisonedThreadError, SendAlloc,
};
use brotli::enc::{BrotliAlloc, StandardAlloc};
use std::collections::HashMap;
use std::panic::AssertUnwindSafe;
use std::sync::atomic::{AtomicBool, AtomicU64, Ordering};
use std::sync::mpsc;
use std::io::{BufRead, Write};
use std::sync::{Arc, Mutex, RwLock};
use std::time::{Duration, Instant};
use vharness::streamlib::{decode_all, gen_data};
use vharness::*;

pub struct VecW(Vec<u8>);
impl SliceWrapper<u8> for VecW {
    fn slice(&self) -> &[u8] {
        &self.0
    }
}

fn kv<'a>(t: &'a [&'a str], key: &str) -> Option<&'a str> {
    t.iter().find_map(|x| x.strip_prefix(key))
}

// ------------------------------------------------------------------------------------------
// inputs laid out along the job ranges of CompressMulti
// ------------------------------------------------------------------------------------------
fn job_range(i: usize, t: usize, n: usize) -> (usize, usize) {
    (((i as u128 * n as u128) / t as u128) as usize, (((i as u128 + 1) * n as u128) / t as u128) as usize)
}

fn periodic(r: &mut Rng, p: usize, len: usize, v: &mut Vec<u8>) {
    let p = p.max(1);
    let mut base: Vec<u8> = (0..p).map(|_| r.next() as u8).collect();
    if p > 1 && base.iter().all(|&b| b == base[0]) {
        base[p - 1] = base[0].wrapping_add(1); // keep the true period at p
    }
    for i in 0..len {
        v.push(base[i % p]);
    }
}

fn short_period(r: &mut Rng) -> usize {
    // the distances the format's initial distance ring holds, then every distance up to 16
    if r.below(2) == 0 {
        [4usize, 11, 15, 16][r.below(4) as usize]
    } else {
        1 + r.below(16) as usize
    }
}

fn make_input(kind: &str, len: usize, seed: u64) -> Vec<u8> {
    let rest = match kind.strip_prefix("lay.") {
        Some(r) => r,
        None => return gen_data(kind, len, seed),
    };
    let parts: Vec<&str> = rest.split('.').collect();
    let t: usize = parts[0].parse::<usize>().unwrap_or(1).max(1);
    let pat: Vec<char> = parts.get(1).copied().unwrap_or("t").chars().collect();
    let pat = if pat.is_empty() { vec!['t'] } else { pat };
    let mut v: Vec<u8> = Vec::with_capacity(len);
    for i in 0..t {
        let (s, e) = job_range(i, t, len);
        let l = e - s;
        let cs = seed.wrapping_mul(1_000_003).wrapping_add(i as u64 + 1);
        let mut r = Rng::new(cs);
        match pat[i % pat.len()] {
            'z' => v.extend(gen_data("zero", l, cs)),
            'r' => v.extend(gen_data("rand", l, cs)),
            's' => v.extend(gen_data("skew", l, cs)),
            'm' => v.extend(gen_data("mix", l, cs)),
            'p' => {
                let p = short_period(&mut r);
                periodic(&mut r, p, l, &mut v)
            }
            'P' => {
                let p = 17 + r.below(64) as usize;
                periodic(&mut r, p, l, &mut v)
            }
            'n' => {
                let mut pow2 = 1usize << 14;
                while pow2 * 2 <= l - l / 4 {
                    pow2 *= 2;
                }
                let mut head = [l / 2, l - l / 3, l - l / 4, pow2, pow2 + 1][r.below(5) as usize];
                if head > l {
                    head = l;
                }
                v.extend(gen_data("rand", head, cs ^ 0x5555));
                let tail = l - head;
                let first = if r.below(2) == 0 { tail } else { tail / 2 };
                let p1 = short_period(&mut r);
                periodic(&mut r, p1, first, &mut v);
                let p2 = short_period(&mut r);
                periodic(&mut r, p2, tail - first, &mut v);
            }
            _ => v.extend(gen_data("text", l, cs)),
        }
    }
    v.truncate(len);
    v
}

// ------------------------------------------------------------------------------------------
// harness-side spawner: runs every job inline (like singlethreading.rs) and can be told to
// fail a join, a view of the shared input, or the final unwrap
// ------------------------------------------------------------------------------------------
pub struct FaultRetriever<U: Send + 'static> {
    data: Arc<RwLock<U>>,
    views: Arc<AtomicU64>,
    fail_view: u64, // the k-th call of view (counted from 1) fails; 0 = never
    fail_unwrap: bool,
}
impl<U: Send + 'static> OwnedRetriever<U> for FaultRetriever<U> {
    fn view<T, F: FnOnce(&U) -> T>(&self, f: F) -> Result<T, PoisonedThreadError> {
        let k = self.views.fetch_add(1, Ordering::SeqCst) + 1;
        if k == self.fail_view {
            return Err(PoisonedThreadError::default());
        }
        match self.data.read() {
            Ok(u) => Ok(f(&*u)),
            Err(_) => Err(PoisonedThreadError::default()),
        }
    }
    fn unwrap(self) -> Result<U, PoisonedThreadError> {
        if self.fail_unwrap {
            return Err(PoisonedThreadError::default());
        }
        match Arc::try_unwrap(self.data) {
            Ok(l) => l.into_inner().map_err(|_| PoisonedThreadError::default()),
            Err(_) => Err(PoisonedThreadError::default()),
        }
    }
}
pub struct FaultJoin<T: Send + 'static> {
    result: Result<T, BrotliEncoderThreadError>,
}
impl<T: Send + 'static> Joinable<T, BrotliEncoderThreadError> for FaultJoin<T> {
    fn join(self) -> Result<T, BrotliEncoderThreadError> {
        self.result
    }
}
pub struct FaultSpawner {
    fail_join: Option<usize>,
    fail_view: u64,
    fail_unwrap: bool,
}
impl<ReturnValue: Send + 'static, ExtraInput: Send + 'static, Alloc: BrotliAlloc + Send + 'static, U: Send + 'static + Sync>
    BatchSpawnableLite<ReturnValue, ExtraInput, Alloc, U> for FaultSpawner
where
    <Alloc as alloc_no_stdlib::Allocator<u8>>::AllocatedMemory: Send + 'static,
{
    type JoinHandle = FaultJoin<ReturnValue>;
    type FinalJoinHandle = FaultRetriever<U>;
    fn make_spawner(&mut self, input: &mut Owned<U>) -> Self::FinalJoinHandle {
        FaultRetriever {
            data: Arc::new(RwLock::new(std::mem::replace(input, Owned(InternalOwned::Borrowed)).unwrap())),
            views: Arc::new(AtomicU64::new(0)),
            // spawns below look at the data directly: only CompressMulti's own view() calls count
            fail_view: self.fail_view,
            fail_unwrap: self.fail_unwrap,
        }
    }
    fn spawn(
        &mut self,
        handle: &mut Self::FinalJoinHandle,
        work: &mut SendAlloc<ReturnValue, ExtraInput, Alloc, Self::JoinHandle>,
        index: usize,
        num_threads: usize,
        f: fn(ExtraInput, usize, usize, &U, Alloc) -> ReturnValue,
    ) {
        let (alloc, extra) = work.replace_with_default();
        let ret = {
            let g = handle.data.read().unwrap();
            f(extra, index, num_threads, &*g, alloc)
        };
        let result = if self.fail_join == Some(index) {
            drop(ret);
            Err(BrotliEncoderThreadError::OtherThreadPanic)
        } else {
            Ok(ret)
        };
        *work = SendAlloc(InternalSendAlloc::Join(FaultJoin { result }));
    }
}

// ------------------------------------------------------------------------------------------
type Pool = brotli::enc::WorkerPool<
    CompressionThreadResult<StandardAlloc>,
    UnionHasher<StandardAlloc>,
    StandardAlloc,
    (VecW, BrotliEncoderParams),
>;

struct Outcome {
    res: String,
    n: usize,
    out: Vec<u8>,
    back: u8,
}

fn err_name(e: &BrotliEncoderThreadError) -> String {
    match e {
        BrotliEncoderThreadError::ThreadExecError(_) => "ThreadExecError".to_string(),
        other => format!("{:?}", other).replace(' ', ""),
    }
}

fn finish_outcome(res: Result<Result<usize, BrotliEncoderThreadError>, String>, mut out: Vec<u8>, back: u8) -> Outcome {
    match res {
        Ok(Ok(n)) => {
            let ok = n <= out.len();
            out.truncate(n.min(out.len()));
            Outcome { res: if ok { format!("OK n={}", n) } else { format!("OK-OVERRUN n={}", n) }, n, out, back }
        }
        Ok(Err(e)) => Outcome { res: format!("ERR:{}", err_name(&e)), n: 0, out: Vec::new(), back },
        Err(p) => Outcome { res: p, n: 0, out: Vec::new(), back },
    }
}

fn back_of(owned: &Owned<VecW>, data: &[u8]) -> u8 {
    match owned.0 {
        InternalOwned::Item(ref v) => {
            if v.0 == data {
                1
            } else {
                2
            }
        }
        InternalOwned::Borrowed => 0,
    }
}

fn new_allocs<J: Joinable<CompressionThreadResult<StandardAlloc>, BrotliEncoderThreadError>>(
    t: usize,
) -> Vec<SendAlloc<CompressionThreadResult<StandardAlloc>, UnionHasher<StandardAlloc>, StandardAlloc, J>> {
    (0..t).map(|_| SendAlloc::new(StandardAlloc::default(), UnionHasher::Uninit)).collect()
}

// set while a worker pool request is in flight: a panic on a thread other than the one that
// called CompressMulti is then a worker that died with its job (the join would wait for ever)
static POOL_ACTIVE: AtomicBool = AtomicBool::new(false);
static HELPER_ID: Mutex<Option<std::thread::ThreadId>> = Mutex::new(None);
static WORKER_PANIC: Mutex<Option<mpsc::Sender<Result<Outcome, String>>>> = Mutex::new(None);

fn install_hook() {
    std::panic::set_hook(Box::new(|info| {
        if POOL_ACTIVE.load(Ordering::SeqCst) {
            let me = std::thread::current().id();
            let helper = *HELPER_ID.lock().unwrap_or_else(|p| p.into_inner());
            if Some(me) != helper {
                let msg = if let Some(s) = info.payload().downcast_ref::<&str>() {
                    s.to_string()
                } else if let Some(s) = info.payload().downcast_ref::<String>() {
                    s.clone()
                } else {
                    "?".to_string()
                };
                let msg: String = msg.chars().map(|c| if c == '\n' { ' ' } else { c }).collect();
                if let Some(tx) = WORKER_PANIC.lock().unwrap_or_else(|p| p.into_inner()).as_ref() {
                    let _ = tx.send(Err(format!("PANIC(worker: {})", msg)));
                }
            }
        }
    }));
}

struct Pools {
    // workers -> (the pool, results it has delivered so far)
    map: HashMap<usize, (Arc<Mutex<Pool>>, u64)>,
}

// what the worker thread is doing, for the watchdog's verdict
static CUR_INFO: Mutex<String> = Mutex::new(String::new());
fn set_info(s: String) {
    *CUR_INFO.lock().unwrap_or_else(|p| p.into_inner()) = s;
}

/// did a job that went to the pool (index < t-1) finish before a job with a smaller index?
fn out_of_order(ev: &[verif_multi::Event], nt: usize) -> bool {
    let mut last: Vec<Option<usize>> = vec![None; nt];
    for (k, e) in ev.iter().enumerate() {
        if e[0] == 3 && (e[1] as usize) < nt {
            last[e[1] as usize] = Some(k);
        }
    }
    let pool_jobs = nt.saturating_sub(1);
    for i in 0..pool_jobs {
        for j in i + 1..pool_jobs {
            if let (Some(a), Some(b)) = (last[i], last[j]) {
                if b < a {
                    return true;
                }
            }
        }
    }
    false
}

fn run_pool(params: BrotliEncoderParams, data: Vec<u8>, cap: usize, t: usize, pool: Option<Arc<Mutex<Pool>>>) -> (Result<Outcome, String>, bool) {
    // the call runs on a helper thread; this thread waits for its result or for the report of a
    // worker that panicked (the helper is then blocked in join() for ever and is abandoned)
    let (tx, rx) = mpsc::channel::<Result<Outcome, String>>();
    *WORKER_PANIC.lock().unwrap() = Some(tx.clone());
    POOL_ACTIVE.store(true, Ordering::SeqCst);
    let h = std::thread::spawn(move || {
        *HELPER_ID.lock().unwrap() = Some(std::thread::current().id());
        let mut out = vec![0u8; cap];
        let mut owned = Owned::new(VecW(data.clone()));
        let r = guarded(AssertUnwindSafe(|| {
            let mut allocs = new_allocs(t);
            match pool {
                None => brotli::enc::compress_multi(&params, &mut owned, &mut out[..], &mut allocs[..]),
                Some(ref p) => {
                    let mut g = p.lock().unwrap_or_else(|p| p.into_inner());
                    brotli::enc::compress_worker_pool(&params, &mut owned, &mut out[..], &mut allocs[..], &mut *g)
                }
            }
        }));
        let back = back_of(&owned, &data);
        let _ = tx.send(Ok(finish_outcome(r, out, back)));
    });
    let got = rx.recv().unwrap_or_else(|_| Err("PANIC(helper vanished)".to_string()));
    POOL_ACTIVE.store(false, Ordering::SeqCst);
    *WORKER_PANIC.lock().unwrap() = None;
    // a worker died, or the call itself unwound and left its batch behind: the pool is not reused
    let dead = match got {
        Err(_) => true,
        Ok(ref o) => o.res.starts_with("PANIC"),
    };
    let hung = got.is_err();
    if !hung {
        let _ = h.join();
    }
    (got, dead)
}

fn trace_string(ev: &[verif_multi::Event]) -> String {
    // job-side events (tags 1..3) come from concurrent threads: order them by job index, then
    // by the order in which that job emitted them; submitter-side events keep their order
    let mut jobs: Vec<(u64, usize, String)> = Vec::new();
    let mut sub: Vec<String> = Vec::new();
    for (k, e) in ev.iter().enumerate() {
        let s = match e[0] {
            1 => format!("J{}:r{}-{}/{}:cap{}:f{}:n{}", e[1], e[3], e[4], e[2], e[5], e[6], e[7]),
            2 => format!("D{}:f{}:d{}:q{}:w{}", e[1], e[2], e[3], e[4], e[5]),
            3 => format!("C{}.{}:r{}:ao{}:oo{}:fin{}:left{}", e[1], e[2], e[3], e[4], e[5], e[6], e[7]),
            4 => format!("H{}:opt{}:size{}:dict{}:local{}:cmp{}", e[1], e[2], e[3], e[4], e[5], e[6]),
            5 => format!("P{}:ov{}:st{}:{}-{}", e[1], e[2], e[3], e[4], e[5]),
            6 => format!("S{}:ok{}:cat{}:out{}:in{}/{}", e[1], e[2], e[3], e[4], e[5], e[6]),
            7 => format!("F:cat{}:out{}", e[1], e[2]),
            8 => format!("E{}:{}", e[1], e[2]),
            _ => format!("?{}", e[0]),
        };
        match e[0] {
            1 | 2 | 3 | 4 => jobs.push((e[1], k, s)),
            _ => sub.push(s),
        }
    }
    jobs.sort_by(|a, b| (a.0, a.1).cmp(&(b.0, b.1)));
    let mut all: Vec<String> = jobs.into_iter().map(|x| x.2).collect();
    all.extend(sub);
    all.join(",")
}

fn run_r(t: &[&str], pools: &mut Pools) -> String {
    let sp = kv(t, "sp=").unwrap_or("thr");
    let q: i32 = kv(t, "q=").unwrap_or("5").parse().unwrap();
    let w: i32 = kv(t, "w=").unwrap_or("22").parse().unwrap();
    let f: u32 = kv(t, "f=").unwrap_or("0").parse().unwrap();
    let nt: usize = kv(t, "t=").unwrap_or("2").parse().unwrap();
    let d: Vec<&str> = kv(t, "in=").unwrap_or("text:0:1").split(':').collect();
    let data = if d[0] == "hex" { unhex(d[1]) } else { make_input(d[0], d[1].parse().unwrap(), d[2].parse().unwrap()) };
    let hint: usize = kv(t, "hint=").unwrap_or("0").parse().unwrap();
    let lgblock: i32 = kv(t, "lb=").unwrap_or("0").parse().unwrap();
    let want_trace = kv(t, "tr=").unwrap_or("0") == "1";
    let bound = brotli::enc::BrotliEncoderMaxCompressedSizeMulti(data.len(), nt);
    let cap: usize = match kv(t, "out=").unwrap_or("bound") {
        "bound" => bound,
        s if s.starts_with("bound-") => bound.saturating_sub(s[6..].parse().unwrap()),
        s if s.starts_with("bound+") => bound + s[6..].parse::<usize>().unwrap(),
        s => s.parse().unwrap(),
    };
    let mut params = BrotliEncoderParams::default();
    params.quality = q;
    params.lgwin = w;
    params.catable = f & 1 != 0;
    params.appendable = f & 2 != 0;
    params.magic_number = f & 4 != 0;
    params.favor_cpu_efficiency = f & 8 != 0;
    params.large_window = f & 16 != 0;
    params.size_hint = hint;
    params.lgblock = lgblock;
    let _ = verif_multi::take();
    let mut served: Option<u64> = None;
    set_info(format!("spawner {}", sp));
    let started = Instant::now();
    let mut out = vec![0u8; cap];
    let kind: Vec<&str> = sp.split(':').collect();
    let oc: Result<Outcome, String> = match kind[0] {
        "thr" => {
            let mut owned = Owned::new(VecW(data.clone()));
            let r = guarded(AssertUnwindSafe(|| {
                let mut allocs = new_allocs(nt);
                brotli::enc::compress_multi_no_threadpool(&params, &mut owned, &mut out[..], &mut allocs[..])
            }));
            let back = back_of(&owned, &data);
            Ok(finish_outcome(r, out, back))
        }
        "inl" => {
            let mut owned = Owned::new(VecW(data.clone()));
            let r = guarded(AssertUnwindSafe(|| {
                let mut allocs = new_allocs(nt);
                brotli::enc::singlethreading::compress_multi(&params, &mut owned, &mut out[..], &mut allocs[..])
            }));
            let back = back_of(&owned, &data);
            Ok(finish_outcome(r, out, back))
        }
        "slice" => {
            let r = guarded(AssertUnwindSafe(|| {
                let mut allocs = new_allocs(nt);
                CompressMultiSlice(
                    &params,
                    &data[..],
                    &mut out[..],
                    &mut allocs[..],
                    &mut brotli::enc::multithreading::MultiThreadedSpawner::default(),
                )
            }));
            // CompressMultiSlice takes the input back itself (and panics if it cannot)
            let back = if r.is_ok() { 1 } else { 0 };
            Ok(finish_outcome(r, out, back))
        }
        "fail" | "failview" | "failunwrap" => {
            let mut spw = FaultSpawner { fail_join: None, fail_view: 0, fail_unwrap: false };
            match kind[0] {
                "fail" => spw.fail_join = Some(kind[1].parse().unwrap()),
                "failview" => spw.fail_view = kind[1].parse().unwrap(),
                _ => spw.fail_unwrap = true,
            }
            let mut owned = Owned::new(VecW(data.clone()));
            let r = guarded(AssertUnwindSafe(|| {
                let mut allocs = new_allocs(nt);
                CompressMulti(&params, &mut owned, &mut out[..], &mut allocs[..], &mut spw)
            }));
            let back = back_of(&owned, &data);
            Ok(finish_outcome(r, out, back))
        }
        "pool" => {
            drop(out);
            let (r, _dead) = run_pool(params.clone(), data.clone(), cap, nt, None);
            r
        }
        "poolr" => {
            drop(out);
            let workers: usize = kind.get(1).map(|x| x.parse().unwrap()).unwrap_or(4);
            let ent = pools
                .map
                .entry(workers)
                .or_insert_with(|| (Arc::new(Mutex::new(brotli::enc::new_work_pool::<StandardAlloc, VecW>(workers))), 0));
            let p = ent.0.clone();
            served = Some(ent.1);
            set_info(format!(
                "compress_worker_pool on a reused pool of {} workers that had delivered {} results (result ring at slot {} of 16), {} jobs submitted",
                workers,
                ent.1,
                ent.1 % 16,
                nt.saturating_sub(1)
            ));
            ent.1 += nt.saturating_sub(1) as u64;
            let (r, dead) = run_pool(params.clone(), data.clone(), cap, nt, Some(p));
            if dead {
                // the pool has lost a worker and holds a job for ever: abandon it
                if let Some(p) = pools.map.remove(&workers) {
                    std::mem::forget(p);
                }
            }
            r
        }
        _ => return "BADREQ".to_string(),
    };
    let ms = started.elapsed().as_millis();
    let ev = verif_multi::take();
    let (res, back, dec, h) = match oc {
        Ok(o) => {
            let dec = if o.res.starts_with("OK n=") {
                match decode_all(&o.out) {
                    Some(x) => {
                        if x == data {
                            "ok"
                        } else {
                            "fail"
                        }
                    }
                    None => "fail",
                }
            } else {
                "na"
            };
            let h = if o.res.starts_with("OK") { hash_str(o.n as u64, &hex(&o.out)) } else { 0 };
            (o.res, format!("{}", o.back), dec, h)
        }
        Err(p) => (p, "?".to_string(), "na", 0),
    };
    let mut s = format!("{} back={} bound={} dec={} h={}", res, back, bound, dec, h);
    if let Some(k) = served {
        s.push_str(&format!(" served={} ooo={}", k, if out_of_order(&ev, nt) { 1 } else { 0 }));
    }
    s.push_str(&format!(" ms={}", ms));
    if want_trace {
        s.push_str(" T=");
        s.push_str(&trace_string(&ev));
    }
    s
}

fn budget_for(t: &[&str]) -> Duration {
    let base: u64 = std::env::var("VERIF_MULTI_WATCHDOG_S").ok().and_then(|x| x.parse().ok()).unwrap_or(60);
    let q: u64 = kv(t, "q=").and_then(|x| x.parse().ok()).unwrap_or(5);
    let n: u64 = kv(t, "in=").and_then(|x| x.split(':').nth(1).and_then(|y| y.parse().ok())).unwrap_or(0);
    let nt: u64 = kv(t, "t=").and_then(|x| x.parse().ok()).unwrap_or(1);
    // the slowest honest calls: quality 10/11 (about 1 MB/s per job here), run one after the other by the inline spawner
    let per_100k = if q >= 10 { 4 * nt.max(1) } else { 1 };
    Duration::from_secs(base + n / 100_000 * per_100k + n / 50_000)
}

fn main() {
    install_hook();
    // requests run on a worker thread (with the pools); this thread is the watchdog
    let (req_tx, req_rx) = mpsc::channel::<String>();
    let (ans_tx, ans_rx) = mpsc::channel::<String>();
    let worker = std::thread::Builder::new()
        .name("requests".to_string())
        .stack_size(256 << 20)
        .spawn(move || {
            let mut pools = Pools { map: HashMap::new() };
            while let Ok(line) = req_rx.recv() {
                let t: Vec<&str> = line.split_whitespace().collect();
                let r = guarded(AssertUnwindSafe(|| match t[0] {
                    "R" => run_r(&t[1..], &mut pools),
                    _ => "BADREQ".to_string(),
                }));
                let ans = match r {
                    Ok(s) => s,
                    Err(e) => e,
                };
                if ans_tx.send(ans).is_err() {
                    break;
                }
            }
            // worker pools that lost a thread cannot be dropped (Drop joins the workers)
            for (_, p) in pools.map.drain() {
                drop(p);
            }
        })
        .unwrap();
    let stdin = std::io::stdin();
    let stdout = std::io::stdout();
    for line in stdin.lock().lines() {
        let line = line.unwrap();
        let toks: Vec<&str> = line.split_whitespace().collect();
        if toks.is_empty() {
            continue;
        }
        let budget = budget_for(&toks);
        req_tx.send(line.clone()).unwrap();
        let (ans, stop) = match ans_rx.recv_timeout(budget) {
            Ok(a) => (a, false),
            Err(mpsc::RecvTimeoutError::Timeout) => {
                let info = CUR_INFO.lock().unwrap_or_else(|p| p.into_inner()).clone();
                let ev = verif_multi::take();
                (format!("NORETURN({}s: {}) back=? bound=0 dec=na h=0 ms={} T={}", budget.as_secs(), info, budget.as_millis(), trace_string(&ev)), true)
            }
            Err(mpsc::RecvTimeoutError::Disconnected) => ("PANIC(harness: the request thread died)".to_string(), true),
        };
        {
            let mut o = stdout.lock();
            writeln!(o, "{}", ans).unwrap();
            o.flush().unwrap();
        }
        if stop {
            // the call (and whatever it holds) is stuck: nothing of this process can be reused
            std::process::exit(3);
        }
    }
    drop(req_tx);
    let _ = worker.join();
}
