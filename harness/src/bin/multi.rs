// C02 / C06 harness: CompressMulti through every spawner, with the decisions of the run read
// from the verif_multi hook (cfg(brotli_verif)).
//
//   R sp=<spawner> q=<quality> w=<lgwin> f=<flag bits> t=<threads> in=<kind:len:seed> out=<bound|bound-K|N>
//     [hint=<size hint>] [tr=1]
//     spawner: thr            brotli::enc::compress_multi_no_threadpool (one OS thread per job)
//              pool           brotli::enc::compress_multi              (fresh worker pool, t-1 workers)
//              poolr:<W>      brotli::enc::compress_worker_pool on a pool of W workers that lives as
//                             long as this process (reused by every later poolr:<W> request)
//              inl            brotli::enc::singlethreading::compress_multi (jobs run inside spawn)
//              slice          CompressMultiSlice with the thread-per-job spawner
//              fail:<K>       harness-side inline spawner whose join of job K returns Err
//              failview:<K>   harness-side spawner whose K-th view() of the shared input fails
//              failunwrap     harness-side spawner whose final unwrap() fails
//     flag bits: 1 catable, 2 appendable, 4 magic_number, 8 favor_cpu_efficiency, 16 large_window
//   answer: <OK n=<n>|ERR:<kind>|PANIC(..)> back=<1|0> bound=<b> dec=<ok|fail|na> h=<hash> [T=<trace>]
use alloc_no_stdlib::SliceWrapper;
use brotli::enc::backward_references::{BrotliEncoderParams, UnionHasher};
use brotli::enc::threading::{
    verif_multi, BatchSpawnableLite, BrotliEncoderThreadError, CompressMulti, CompressMultiSlice,
    CompressionThreadResult, InternalOwned, InternalSendAlloc, Joinable, Owned, OwnedRetriever,
    PoisonedThreadError, SendAlloc,
};
use brotli::enc::{BrotliAlloc, StandardAlloc};
use std::collections::HashMap;
use std::panic::AssertUnwindSafe;
use std::sync::atomic::{AtomicBool, AtomicU64, Ordering};
use std::sync::mpsc;
use std::sync::{Arc, Mutex, RwLock};
use vharness::streamlib::{decode_all, gen_data};
use vharness::*;

pub struct VecW(Vec<u8>);
impl SliceWrapper<u8> for VecW {
    fn slice(&self) -> &[u8] {
        &self.0
    }
}

fn kv<'a>(t: &'a [&'a str], key: &str) -> Option<&'a str> {
    t.iter().find_map(|x| x.strip_prefix(key))
}

// ------------------------------------------------------------------------------------------
// harness-side spawner: runs every job inline (like singlethreading.rs) and can be told to
// fail a join, a view of the shared input, or the final unwrap
// ------------------------------------------------------------------------------------------
pub struct FaultRetriever<U: Send + 'static> {
    data: Arc<RwLock<U>>,
    views: Arc<AtomicU64>,
    fail_view: u64, // the k-th call of view (counted from 1) fails; 0 = never
    fail_unwrap: bool,
}
impl<U: Send + 'static> OwnedRetriever<U> for FaultRetriever<U> {
    fn view<T, F: FnOnce(&U) -> T>(&self, f: F) -> Result<T, PoisonedThreadError> {
        let k = self.views.fetch_add(1, Ordering::SeqCst) + 1;
        if k == self.fail_view {
            return Err(PoisonedThreadError::default());
        }
        match self.data.read() {
            Ok(u) => Ok(f(&*u)),
            Err(_) => Err(PoisonedThreadError::default()),
        }
    }
    fn unwrap(self) -> Result<U, PoisonedThreadError> {
        if self.fail_unwrap {
            return Err(PoisonedThreadError::default());
        }
        match Arc::try_unwrap(self.data) {
            Ok(l) => l.into_inner().map_err(|_| PoisonedThreadError::default()),
            Err(_) => Err(PoisonedThreadError::default()),
        }
    }
}
pub struct FaultJoin<T: Send + 'static> {
    result: Result<T, BrotliEncoderThreadError>,
}
impl<T: Send + 'static> Joinable<T, BrotliEncoderThreadError> for FaultJoin<T> {
    fn join(self) -> Result<T, BrotliEncoderThreadError> {
        self.result
    }
}
pub struct FaultSpawner {
    fail_join: Option<usize>,
    fail_view: u64,
    fail_unwrap: bool,
}
impl<ReturnValue: Send + 'static, ExtraInput: Send + 'static, Alloc: BrotliAlloc + Send + 'static, U: Send + 'static + Sync>
    BatchSpawnableLite<ReturnValue, ExtraInput, Alloc, U> for FaultSpawner
where
    <Alloc as alloc_no_stdlib::Allocator<u8>>::AllocatedMemory: Send + 'static,
{
    type JoinHandle = FaultJoin<ReturnValue>;
    type FinalJoinHandle = FaultRetriever<U>;
    fn make_spawner(&mut self, input: &mut Owned<U>) -> Self::FinalJoinHandle {
        FaultRetriever {
            data: Arc::new(RwLock::new(std::mem::replace(input, Owned(InternalOwned::Borrowed)).unwrap())),
            views: Arc::new(AtomicU64::new(0)),
            // spawns below look at the data directly: only CompressMulti's own view() calls count
            fail_view: self.fail_view,
            fail_unwrap: self.fail_unwrap,
        }
    }
    fn spawn(
        &mut self,
        handle: &mut Self::FinalJoinHandle,
        work: &mut SendAlloc<ReturnValue, ExtraInput, Alloc, Self::JoinHandle>,
        index: usize,
        num_threads: usize,
        f: fn(ExtraInput, usize, usize, &U, Alloc) -> ReturnValue,
    ) {
        let (alloc, extra) = work.replace_with_default();
        let ret = {
            let g = handle.data.read().unwrap();
            f(extra, index, num_threads, &*g, alloc)
        };
        let result = if self.fail_join == Some(index) {
            drop(ret);
            Err(BrotliEncoderThreadError::OtherThreadPanic)
        } else {
            Ok(ret)
        };
        *work = SendAlloc(InternalSendAlloc::Join(FaultJoin { result }));
    }
}

// ------------------------------------------------------------------------------------------
type Pool = brotli::enc::WorkerPool<
    CompressionThreadResult<StandardAlloc>,
    UnionHasher<StandardAlloc>,
    StandardAlloc,
    (VecW, BrotliEncoderParams),
>;

struct Outcome {
    res: String,
    n: usize,
    out: Vec<u8>,
    back: u8,
}

fn err_name(e: &BrotliEncoderThreadError) -> String {
    match e {
        BrotliEncoderThreadError::ThreadExecError(_) => "ThreadExecError".to_string(),
        other => format!("{:?}", other).replace(' ', ""),
    }
}

fn finish_outcome(res: Result<Result<usize, BrotliEncoderThreadError>, String>, mut out: Vec<u8>, back: u8) -> Outcome {
    match res {
        Ok(Ok(n)) => {
            let ok = n <= out.len();
            out.truncate(n.min(out.len()));
            Outcome { res: if ok { format!("OK n={}", n) } else { format!("OK-OVERRUN n={}", n) }, n, out, back }
        }
        Ok(Err(e)) => Outcome { res: format!("ERR:{}", err_name(&e)), n: 0, out: Vec::new(), back },
        Err(p) => Outcome { res: p, n: 0, out: Vec::new(), back },
    }
}

fn back_of(owned: &Owned<VecW>, data: &[u8]) -> u8 {
    match owned.0 {
        InternalOwned::Item(ref v) => {
            if v.0 == data {
                1
            } else {
                2
            }
        }
        InternalOwned::Borrowed => 0,
    }
}

fn new_allocs<J: Joinable<CompressionThreadResult<StandardAlloc>, BrotliEncoderThreadError>>(
    t: usize,
) -> Vec<SendAlloc<CompressionThreadResult<StandardAlloc>, UnionHasher<StandardAlloc>, StandardAlloc, J>> {
    (0..t).map(|_| SendAlloc::new(StandardAlloc::default(), UnionHasher::Uninit)).collect()
}

// set while a worker pool request is in flight: a panic on a thread other than the one that
// called CompressMulti is then a worker that died with its job (the join would wait for ever)
static POOL_ACTIVE: AtomicBool = AtomicBool::new(false);
static HELPER_ID: Mutex<Option<std::thread::ThreadId>> = Mutex::new(None);
static WORKER_PANIC: Mutex<Option<mpsc::Sender<Result<Outcome, String>>>> = Mutex::new(None);

fn install_hook() {
    std::panic::set_hook(Box::new(|info| {
        if POOL_ACTIVE.load(Ordering::SeqCst) {
            let me = std::thread::current().id();
            let helper = *HELPER_ID.lock().unwrap_or_else(|p| p.into_inner());
            if Some(me) != helper {
                let msg = if let Some(s) = info.payload().downcast_ref::<&str>() {
                    s.to_string()
                } else if let Some(s) = info.payload().downcast_ref::<String>() {
                    s.clone()
                } else {
                    "?".to_string()
                };
                let msg: String = msg.chars().map(|c| if c == '\n' { ' ' } else { c }).collect();
                if let Some(tx) = WORKER_PANIC.lock().unwrap_or_else(|p| p.into_inner()).as_ref() {
                    let _ = tx.send(Err(format!("PANIC(worker: {})", msg)));
                }
            }
        }
    }));
}

struct Pools {
    map: HashMap<usize, Arc<Mutex<Pool>>>,
}

fn run_pool(params: BrotliEncoderParams, data: Vec<u8>, cap: usize, t: usize, pool: Option<Arc<Mutex<Pool>>>) -> (Result<Outcome, String>, bool) {
    // the call runs on a helper thread; this thread waits for its result or for the report of a
    // worker that panicked (the helper is then blocked in join() for ever and is abandoned)
    let (tx, rx) = mpsc::channel::<Result<Outcome, String>>();
    *WORKER_PANIC.lock().unwrap() = Some(tx.clone());
    POOL_ACTIVE.store(true, Ordering::SeqCst);
    let h = std::thread::spawn(move || {
        *HELPER_ID.lock().unwrap() = Some(std::thread::current().id());
        let mut out = vec![0u8; cap];
        let mut owned = Owned::new(VecW(data.clone()));
        let r = guarded(AssertUnwindSafe(|| {
            let mut allocs = new_allocs(t);
            match pool {
                None => brotli::enc::compress_multi(&params, &mut owned, &mut out[..], &mut allocs[..]),
                Some(ref p) => {
                    let mut g = p.lock().unwrap_or_else(|p| p.into_inner());
                    brotli::enc::compress_worker_pool(&params, &mut owned, &mut out[..], &mut allocs[..], &mut *g)
                }
            }
        }));
        let back = back_of(&owned, &data);
        let _ = tx.send(Ok(finish_outcome(r, out, back)));
    });
    let got = rx.recv().unwrap_or_else(|_| Err("PANIC(helper vanished)".to_string()));
    POOL_ACTIVE.store(false, Ordering::SeqCst);
    *WORKER_PANIC.lock().unwrap() = None;
    // a worker died, or the call itself unwound and left its batch behind: the pool is not reused
    let dead = match got {
        Err(_) => true,
        Ok(ref o) => o.res.starts_with("PANIC"),
    };
    let hung = got.is_err();
    if !hung {
        let _ = h.join();
    }
    (got, dead)
}

fn trace_string(ev: &[verif_multi::Event]) -> String {
    // job-side events (tags 1..3) come from concurrent threads: order them by job index, then
    // by the order in which that job emitted them; submitter-side events keep their order
    let mut jobs: Vec<(u64, usize, String)> = Vec::new();
    let mut sub: Vec<String> = Vec::new();
    for (k, e) in ev.iter().enumerate() {
        let s = match e[0] {
            1 => format!("J{}:r{}-{}/{}:cap{}:f{}:n{}", e[1], e[3], e[4], e[2], e[5], e[6], e[7]),
            2 => format!("D{}:f{}:d{}:q{}:w{}", e[1], e[2], e[3], e[4], e[5]),
            3 => format!("C{}.{}:r{}:ao{}:oo{}:fin{}:left{}", e[1], e[2], e[3], e[4], e[5], e[6], e[7]),
            4 => format!("H{}:opt{}:size{}:dict{}:local{}:cmp{}", e[1], e[2], e[3], e[4], e[5], e[6]),
            5 => format!("P{}:ov{}:st{}:{}-{}", e[1], e[2], e[3], e[4], e[5]),
            6 => format!("S{}:ok{}:cat{}:out{}:in{}/{}", e[1], e[2], e[3], e[4], e[5], e[6]),
            7 => format!("F:cat{}:out{}", e[1], e[2]),
            8 => format!("E{}:{}", e[1], e[2]),
            _ => format!("?{}", e[0]),
        };
        match e[0] {
            1 | 2 | 3 | 4 => jobs.push((e[1], k, s)),
            _ => sub.push(s),
        }
    }
    jobs.sort_by(|a, b| (a.0, a.1).cmp(&(b.0, b.1)));
    let mut all: Vec<String> = jobs.into_iter().map(|x| x.2).collect();
    all.extend(sub);
    all.join(",")
}

fn run_r(t: &[&str], pools: &mut Pools) -> String {
    let sp = kv(t, "sp=").unwrap_or("thr");
    let q: i32 = kv(t, "q=").unwrap_or("5").parse().unwrap();
    let w: i32 = kv(t, "w=").unwrap_or("22").parse().unwrap();
    let f: u32 = kv(t, "f=").unwrap_or("0").parse().unwrap();
    let nt: usize = kv(t, "t=").unwrap_or("2").parse().unwrap();
    let d: Vec<&str> = kv(t, "in=").unwrap_or("text:0:1").split(':').collect();
    let data = if d[0] == "hex" { unhex(d[1]) } else { gen_data(d[0], d[1].parse().unwrap(), d[2].parse().unwrap()) };
    let hint: usize = kv(t, "hint=").unwrap_or("0").parse().unwrap();
    let want_trace = kv(t, "tr=").unwrap_or("0") == "1";
    let bound = brotli::enc::BrotliEncoderMaxCompressedSizeMulti(data.len(), nt);
    let cap: usize = match kv(t, "out=").unwrap_or("bound") {
        "bound" => bound,
        s if s.starts_with("bound-") => bound.saturating_sub(s[6..].parse().unwrap()),
        s if s.starts_with("bound+") => bound + s[6..].parse::<usize>().unwrap(),
        s => s.parse().unwrap(),
    };
    let mut params = BrotliEncoderParams::default();
    params.quality = q;
    params.lgwin = w;
    params.catable = f & 1 != 0;
    params.appendable = f & 2 != 0;
    params.magic_number = f & 4 != 0;
    params.favor_cpu_efficiency = f & 8 != 0;
    params.large_window = f & 16 != 0;
    params.size_hint = hint;
    let _ = verif_multi::take();
    let mut out = vec![0u8; cap];
    let kind: Vec<&str> = sp.split(':').collect();
    let oc: Result<Outcome, String> = match kind[0] {
        "thr" => {
            let mut owned = Owned::new(VecW(data.clone()));
            let r = guarded(AssertUnwindSafe(|| {
                let mut allocs = new_allocs(nt);
                brotli::enc::compress_multi_no_threadpool(&params, &mut owned, &mut out[..], &mut allocs[..])
            }));
            let back = back_of(&owned, &data);
            Ok(finish_outcome(r, out, back))
        }
        "inl" => {
            let mut owned = Owned::new(VecW(data.clone()));
            let r = guarded(AssertUnwindSafe(|| {
                let mut allocs = new_allocs(nt);
                brotli::enc::singlethreading::compress_multi(&params, &mut owned, &mut out[..], &mut allocs[..])
            }));
            let back = back_of(&owned, &data);
            Ok(finish_outcome(r, out, back))
        }
        "slice" => {
            let r = guarded(AssertUnwindSafe(|| {
                let mut allocs = new_allocs(nt);
                CompressMultiSlice(
                    &params,
                    &data[..],
                    &mut out[..],
                    &mut allocs[..],
                    &mut brotli::enc::multithreading::MultiThreadedSpawner::default(),
                )
            }));
            // CompressMultiSlice takes the input back itself (and panics if it cannot)
            let back = if r.is_ok() { 1 } else { 0 };
            Ok(finish_outcome(r, out, back))
        }
        "fail" | "failview" | "failunwrap" => {
            let mut spw = FaultSpawner { fail_join: None, fail_view: 0, fail_unwrap: false };
            match kind[0] {
                "fail" => spw.fail_join = Some(kind[1].parse().unwrap()),
                "failview" => spw.fail_view = kind[1].parse().unwrap(),
                _ => spw.fail_unwrap = true,
            }
            let mut owned = Owned::new(VecW(data.clone()));
            let r = guarded(AssertUnwindSafe(|| {
                let mut allocs = new_allocs(nt);
                CompressMulti(&params, &mut owned, &mut out[..], &mut allocs[..], &mut spw)
            }));
            let back = back_of(&owned, &data);
            Ok(finish_outcome(r, out, back))
        }
        "pool" => {
            drop(out);
            let (r, _dead) = run_pool(params.clone(), data.clone(), cap, nt, None);
            r
        }
        "poolr" => {
            drop(out);
            let workers: usize = kind.get(1).map(|x| x.parse().unwrap()).unwrap_or(4);
            let p = pools
                .map
                .entry(workers)
                .or_insert_with(|| Arc::new(Mutex::new(brotli::enc::new_work_pool::<StandardAlloc, VecW>(workers))))
                .clone();
            let (r, dead) = run_pool(params.clone(), data.clone(), cap, nt, Some(p));
            if dead {
                // the pool has lost a worker and holds a job for ever: abandon it
                if let Some(p) = pools.map.remove(&workers) {
                    std::mem::forget(p);
                }
            }
            r
        }
        _ => return "BADREQ".to_string(),
    };
    let ev = verif_multi::take();
    let (res, back, dec, h) = match oc {
        Ok(o) => {
            let dec = if o.res.starts_with("OK n=") {
                match decode_all(&o.out) {
                    Some(x) => {
                        if x == data {
                            "ok"
                        } else {
                            "fail"
                        }
                    }
                    None => "fail",
                }
            } else {
                "na"
            };
            let h = if o.res.starts_with("OK") { hash_str(o.n as u64, &hex(&o.out)) } else { 0 };
            (o.res, format!("{}", o.back), dec, h)
        }
        Err(p) => (p, "?".to_string(), "na", 0),
    };
    let mut s = format!("{} back={} bound={} dec={} h={}", res, back, bound, dec, h);
    if want_trace {
        s.push_str(" T=");
        s.push_str(&trace_string(&ev));
    }
    s
}

fn main() {
    install_hook();
    let mut pools = Pools { map: HashMap::new() };
    serve(|t| {
        let r = guarded(AssertUnwindSafe(|| match t[0] {
            "R" => run_r(&t[1..], &mut pools),
            _ => "BADREQ".to_string(),
        }));
        match r {
            Ok(s) => s,
            Err(e) => e,
        }
    });
    // worker pools that lost a thread cannot be dropped (Drop joins the workers)
    for (_, p) in pools.map.drain() {
        drop(p);
    }
}
