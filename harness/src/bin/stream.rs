// Stream harness (C20 / C04 / C05): runs a script through the real encoder, prints one line
// per script: call observations separated by " ; ", then spec verdicts computed on the
// implementation alone:  " ## DEC=<ok|fail|na> FL=<ok>/<n> PFX=<first failing flush index or ->"
use vharness::streamlib::*;
use vharness::*;

fn run_line(t: &[&str]) -> String {
    let sc = parse_script(t);
    let mut flush_ok = 0usize;
    let mut flush_n = 0usize;
    let mut first_bad: Option<usize> = None;
    let mut idx = 0usize;
    let data = sc.data.clone();
    let (obs, emitted) = run_rust(brotli::enc::StandardAlloc::default(), &sc, |em, cur, o| {
        // a completed flush: flush op returned true, consumed everything offered, nothing pending
        if o.kind == 'c' && o.op == 1 && o.ret && o.consumed == o.offered && !o.more && o.panic.is_none() {
            flush_n += 1;
            let (dec, res) = decode_prefix_cap(em, cur + 4096);
            if dec == data[..cur] && res == 2 {
                flush_ok += 1;
            } else if first_bad.is_none() {
                first_bad = Some(idx);
            }
        }
        idx += 1;
    });
    let mut s = String::new();
    for (i, o) in obs.iter().enumerate() {
        if i > 0 {
            s.push_str(" ; ");
        }
        s.push_str(&o.to_line());
    }
    let finished = obs.last().map(|o| o.finished).unwrap_or(false);
    let consumed_all = obs.last().map(|o| o.data_cursor).unwrap_or(0);
    let dec = if finished {
        match decode_all(&emitted) {
            Some(d) => {
                if d == data[..consumed_all] {
                    "ok"
                } else {
                    "fail"
                }
            }
            None => "fail",
        }
    } else {
        "na"
    };
    s.push_str(&format!(
        " ## DEC={} FL={}/{} PFX={} EM={}",
        dec,
        flush_ok,
        flush_n,
        first_bad.map(|x| x.to_string()).unwrap_or("-".to_string()),
        hash_str(0, &hex(&emitted))
    ));
    s
}

fn main() {
    quiet_panics();
    serve(|t| match guarded(std::panic::AssertUnwindSafe(|| run_line(t))) {
        Ok(s) => s,
        Err(e) => e,
    });
}
