// Input / dictionary recipes shared by the C14 and C10 harness binaries (include!d, not a module).
const WORDS: &[&str] = &[
    "information", "available", "copyright", "university", "management", "international", "development", "education",
    "community", "technology", "following", "resources", "including", "directory", "government", "department",
    "description", "insurance", "different", "categories", "conditions", "accessories", "September", "questions",
    "application", "financial", "equipment", "performance", "experience", "important", "activities", "additional",
    "something", "professional", "committee", "washington", "california", "reference", "companies", "computers",
    "president", "australia", "discussion", "entertainment", "agreement", "marketing", "association", "collection",
    "solutions", "electronics", "technical", "microsoft", "conference", "environment", "statement", "downloads",
    "applications", "requirements", "individual", "subscribe", "everything", "production", "commercial", "advertising",
    "treatment", "newsletter", "knowledge", "currently", "construction", "registered", "protection", "engineering",
    "published", "corporate", "customers", "materials", "countries", "standards", "political", "advertise",
    "environmental", "availability", "employment", "commission", "administration", "institute", "sponsored", "electronic",
    "condition", "effective", "organization", "selection", "corporation", "executive", "necessary", "according",
    "particular", "facilities", "opportunities", "appropriate", "statistics", "investment", "christmas", "registration",
    "furniture", "wednesday", "structure", "distribution", "industrial", "potential", "responsible", "communications",
    "associated", "foundation", "documents", "communication", "independent", "operating", "developed", "telephone",
    "population", "navigation", "operations", "therefore", "christian", "understand", "publications", "worldwide",
    "connection", "publisher", "introduction", "properties", "accommodation", "excellent", "opportunity", "assessment",
    "especially", "interface", "operation", "restaurants", "beautiful", "locations", "significant", "technologies",
    "manufacturer", "providing", "authority", "considered", "programme", "enterprise", "educational", "employees",
    "alternative", "processing", "responsibility", "resolution", "publication", "relations", "photography", "components",
];

fn gen_words(len: usize, seed: u64) -> Vec<u8> {
    // English words that the static dictionary contains, each used rarely, with the prefixes /
    // suffixes / capitalisations the 121 transforms produce
    let mut r = Rng::new(seed);
    let mut v: Vec<u8> = Vec::with_capacity(len + 32);
    let sufs = [" ", ", ", ". ", " the ", " of ", "s ", "ing ", "ed ", "=\"", "\">", "\n", ": ", " and ", " in ", "ly ", ".com/", "(", "'"];
    while v.len() < len {
        let w = WORDS[r.below(WORDS.len() as u64) as usize];
        let mut w: Vec<u8> = w.as_bytes().to_vec();
        match r.below(8) {
            0 => w[0] = w[0].to_ascii_uppercase(),
            1 => w = w.to_ascii_uppercase(),
            2 => {
                let k = 1 + r.below(3) as usize;
                w.truncate(w.len() - k);
            }
            3 => {
                let k = 1 + r.below(3) as usize;
                w.drain(..k);
            }
            _ => {}
        }
        if r.below(4) == 0 {
            v.push(b' ');
        }
        v.extend_from_slice(&w);
        v.extend_from_slice(sufs[r.below(sufs.len() as u64) as usize].as_bytes());
    }
    v.truncate(len);
    v
}

/// data recipes:  <kind>:<len>:<seed> with the streamlib kinds plus
///   words  - static-dictionary friendly text
///   dmix   - pieces of the custom dictionary (its tail, its head, slices across its end) interleaved with fresh data
///   wmix   - words / text / rand / period pieces
fn gen_input(recipe: &str, dict: &[u8]) -> Vec<u8> {
    let f: Vec<&str> = recipe.split(':').collect();
    let len: usize = f[1].parse().unwrap();
    let seed: u64 = f[2].parse().unwrap();
    match f[0] {
        "words" => gen_words(len, seed),
        "wmix" => {
            let mut r = Rng::new(seed);
            let mut v = Vec::new();
            while v.len() < len {
                let k = ["words", "text", "rand", "period", "words", "zero"][r.below(6) as usize];
                let l = 1 + r.below(2500) as usize;
                if k == "words" {
                    v.extend(gen_words(l, r.next()));
                } else {
                    v.extend(gen_data(k, l, r.next()));
                }
            }
            v.truncate(len);
            v
        }
        "dmix" => {
            let mut r = Rng::new(seed);
            let mut v: Vec<u8> = Vec::new();
            let n = dict.len();
            let mut first = true;
            while v.len() < len {
                let c = if first { 0 } else { r.below(6) };
                first = false;
                if n > 0 && c <= 3 {
                    // a slice of the dictionary: tail, head, middle, or tail followed by head
                    let l = 1 + r.below(n.min(400) as u64) as usize;
                    match c {
                        0 => v.extend_from_slice(&dict[n - l.min(n)..]),
                        1 => v.extend_from_slice(&dict[..l.min(n)]),
                        2 => {
                            let s = r.below(n as u64) as usize;
                            v.extend_from_slice(&dict[s..(s + l).min(n)]);
                        }
                        _ => {
                            v.extend_from_slice(&dict[n - l.min(n)..]);
                            v.extend_from_slice(&dict[..l.min(n)]);
                        }
                    }
                } else if c == 4 {
                    v.extend(gen_words(1 + r.below(300) as usize, r.next()));
                } else {
                    let k = ["text", "rand", "skew"][r.below(3) as usize];
                    v.extend(gen_data(k, 1 + r.below(200) as usize, r.next()));
                }
            }
            v.truncate(len);
            v
        }
        k => gen_data(k, len, seed),
    }
}

