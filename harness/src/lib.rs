//! Common helpers for the correspondence harness binaries.
#![allow(dead_code)]
pub mod streamlib;
use std::io::{self, BufRead, Write};
use std::panic;

pub const MASK62: u64 = (1u64 << 62) - 1;
#[inline]
pub fn hmix(h: u64, x: u64) -> u64 {
    (h.wrapping_mul(1000003).wrapping_add(x)) & MASK62
}
pub fn hash_str(mut h: u64, s: &str) -> u64 {
    for b in s.bytes() {
        h = hmix(h, b as u64);
    }
    hmix(h, 10)
}

pub fn hex(b: &[u8]) -> String {
    let mut s = String::with_capacity(b.len() * 2);
    for x in b {
        s.push_str(&format!("{:02x}", x));
    }
    s
}
pub fn unhex(s: &str) -> Vec<u8> {
    let s = s.trim();
    if s == "-" {
        return Vec::new();
    }
    (0..s.len() / 2)
        .map(|i| u8::from_str_radix(&s[2 * i..2 * i + 2], 16).unwrap())
        .collect()
}

/// Silence the default panic message; panics are outcomes, reported as `PANIC(msg)`.
pub fn quiet_panics() {
    panic::set_hook(Box::new(|_| {}));
}

pub fn panic_msg(e: Box<dyn std::any::Any + Send>) -> String {
    let m = if let Some(s) = e.downcast_ref::<&str>() {
        s.to_string()
    } else if let Some(s) = e.downcast_ref::<String>() {
        s.clone()
    } else {
        "?".to_string()
    };
    let m: String = m.chars().map(|c| if c == '\n' { ' ' } else { c }).collect();
    format!("PANIC({})", m)
}

/// Run `f`, mapping a panic to Err("PANIC(..)").
pub fn guarded<T, F: FnOnce() -> T + panic::UnwindSafe>(f: F) -> Result<T, String> {
    panic::catch_unwind(f).map_err(panic_msg)
}

/// Line protocol: call `f` for every stdin line, print its answer.
pub fn serve<F: FnMut(&[&str]) -> String>(mut f: F) {
    let stdin = io::stdin();
    let stdout = io::stdout();
    let mut out = io::BufWriter::new(stdout.lock());
    for line in stdin.lock().lines() {
        let line = line.unwrap();
        let toks: Vec<&str> = line.split_whitespace().collect();
        if toks.is_empty() {
            continue;
        }
        // the trace of back-end calls (hook verif_trace) is thread-local and stays enabled once a request has
        // switched it on; empty it so that its invocation bound counts the calls of ONE request only
        if brotli::enc::encode::verif_trace::enabled() {
            let _ = brotli::enc::encode::verif_trace::take();
        }
        let ans = f(&toks);
        writeln!(out, "{}", ans).unwrap();
    }
    out.flush().unwrap();
}

/// xorshift64* PRNG: every random choice in a harness derives from one seed.
pub struct Rng(pub u64);
impl Rng {
    pub fn new(seed: u64) -> Rng {
        Rng(seed.wrapping_mul(0x9E3779B97F4A7C15) | 1)
    }
    pub fn next(&mut self) -> u64 {
        let mut x = self.0;
        x ^= x >> 12;
        x ^= x << 25;
        x ^= x >> 27;
        self.0 = x;
        x.wrapping_mul(0x2545F4914F6CDD1D)
    }
    pub fn below(&mut self, n: u64) -> u64 {
        if n == 0 {
            0
        } else {
            self.next() % n
        }
    }
}
