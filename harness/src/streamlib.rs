//! Scripted driver for the streaming encoder (Rust API and C ABI), shared by the C20 / C04 /
//! C05 / C13 / C01 harness binaries.  One script = parameter list + data recipe + call list.
#![allow(dead_code)]
use brotli::enc::backward_references::BrotliEncoderParams;
use brotli::enc::combined_alloc::BrotliAlloc;
use brotli::enc::encode::{
    verif_trace, BrotliEncoderDestroyInstance, BrotliEncoderOperation, BrotliEncoderParameter,
    BrotliEncoderStateStruct,
};
use brotli::enc::StandardAlloc;
use std::panic::{self, AssertUnwindSafe};

use crate::{hex, panic_msg, Rng};

#[derive(Clone, Debug)]
pub enum InLen {
    N(usize),
    Remaining, // the encoder's remaining_metadata_bytes_ (metadata continuation)
}
#[derive(Clone, Debug)]
pub enum Call {
    Stream { op: u8, inl: InLen, out_cap: usize }, // op: 0 process 1 flush 2 finish 3 metadata
    Take(usize),
    SetParam(u32, u32),
}
#[derive(Clone, Debug, Default)]
pub struct Script {
    pub params: Vec<(u32, u32)>,
    pub data: Vec<u8>,
    pub calls: Vec<Call>,
}

pub fn gen_data(kind: &str, len: usize, seed: u64) -> Vec<u8> {
    let mut r = Rng::new(seed);
    let mut v = Vec::with_capacity(len);
    match kind {
        "zero" => v.resize(len, 0u8),
        "rand" => {
            for _ in 0..len {
                v.push(r.next() as u8)
            }
        }
        "text" => {
            let words = [
                "the ", "quick ", "brown ", "fox ", "jumps ", "over ", "lazy ", "dog ", "and ", "then ", "compress ",
                "stream ", "window ", "of ", "a ", "in ", "to ", "brotli ", "format ", "\n",
            ];
            while v.len() < len {
                let w = words[r.below(words.len() as u64) as usize];
                v.extend_from_slice(w.as_bytes());
            }
            v.truncate(len);
        }
        "skew" => {
            for _ in 0..len {
                let x = r.next();
                let b = if x & 1 == 0 { b'a' } else if x & 2 == 0 { b'b' } else if x & 4 == 0 { b'c' } else { (x >> 8) as u8 };
                v.push(b)
            }
        }
        "period" => {
            let p = 1 + (seed % 37) as usize;
            let base: Vec<u8> = (0..p).map(|_| r.next() as u8).collect();
            for i in 0..len {
                v.push(base[i % p])
            }
        }
        "mix" => {
            while v.len() < len {
                let k = ["text", "rand", "zero", "period", "skew"][r.below(5) as usize];
                let l = 1 + r.below(3000) as usize;
                v.extend(gen_data(k, l, r.next()));
            }
            v.truncate(len);
        }
        _ => v.resize(len, b'x'),
    }
    v
}
pub fn meta_byte(i: usize) -> u8 {
    ((i * 7 + 3) & 0xff) as u8
}

pub fn parse_script(toks: &[&str]) -> Script {
    // P=<id>:<val>,...  D=<kind>:<len>:<seed>  C=<call>,<call>,...
    let mut s = Script::default();
    for t in toks {
        if let Some(p) = t.strip_prefix("P=") {
            for kv in p.split(',').filter(|x| !x.is_empty()) {
                let mut it = kv.split(':');
                let k: u32 = it.next().unwrap().parse().unwrap();
                let v: i64 = it.next().unwrap().parse().unwrap();
                s.params.push((k, v as u32));
            }
        } else if let Some(d) = t.strip_prefix("D=") {
            let f: Vec<&str> = d.split(':').collect();
            s.data = gen_data(f[0], f[1].parse().unwrap(), f[2].parse().unwrap());
        } else if let Some(c) = t.strip_prefix("C=") {
            for call in c.split(',').filter(|x| !x.is_empty()) {
                let (h, rest) = call.split_at(1);
                match h {
                    "t" => s.calls.push(Call::Take(rest.parse().unwrap())),
                    "s" => {
                        let mut it = rest.split(':');
                        let k: u32 = it.next().unwrap().parse().unwrap();
                        let v: i64 = it.next().unwrap().parse().unwrap();
                        s.calls.push(Call::SetParam(k, v as u32));
                    }
                    _ => {
                        let op = match h {
                            "p" => 0,
                            "f" => 1,
                            "e" => 2,
                            _ => 3,
                        };
                        let mut it = rest.split('/');
                        let a = it.next().unwrap();
                        let inl = if a == "R" { InLen::Remaining } else { InLen::N(a.parse().unwrap()) };
                        let out_cap: usize = it.next().unwrap().parse().unwrap();
                        s.calls.push(Call::Stream { op, inl, out_cap });
                    }
                }
            }
        }
    }
    s
}

pub fn param_of(id: u32) -> BrotliEncoderParameter {
    use BrotliEncoderParameter::*;
    match id {
        0 => BROTLI_PARAM_MODE,
        1 => BROTLI_PARAM_QUALITY,
        2 => BROTLI_PARAM_LGWIN,
        3 => BROTLI_PARAM_LGBLOCK,
        4 => BROTLI_PARAM_DISABLE_LITERAL_CONTEXT_MODELING,
        5 => BROTLI_PARAM_SIZE_HINT,
        6 => BROTLI_PARAM_LARGE_WINDOW,
        150 => BROTLI_PARAM_Q9_5,
        151 => BROTLI_METABLOCK_CALLBACK,
        152 => BROTLI_PARAM_STRIDE_DETECTION_QUALITY,
        153 => BROTLI_PARAM_HIGH_ENTROPY_DETECTION_QUALITY,
        154 => BROTLI_PARAM_LITERAL_BYTE_SCORE,
        155 => BROTLI_PARAM_CDF_ADAPTATION_DETECTION,
        156 => BROTLI_PARAM_PRIOR_BITMASK_DETECTION,
        166 => BROTLI_PARAM_AVOID_DISTANCE_PREFIX_SEARCH,
        167 => BROTLI_PARAM_CATABLE,
        168 => BROTLI_PARAM_APPENDABLE,
        169 => BROTLI_PARAM_MAGIC_NUMBER,
        170 => BROTLI_PARAM_NO_DICTIONARY,
        171 => BROTLI_PARAM_FAVOR_EFFICIENCY,
        _ => UNUSED7,
    }
}
pub fn op_of(op: u8) -> BrotliEncoderOperation {
    match op {
        0 => BrotliEncoderOperation::BROTLI_OPERATION_PROCESS,
        1 => BrotliEncoderOperation::BROTLI_OPERATION_FLUSH,
        2 => BrotliEncoderOperation::BROTLI_OPERATION_FINISH,
        _ => BrotliEncoderOperation::BROTLI_OPERATION_EMIT_METADATA,
    }
}

#[derive(Clone, Debug, Default)]
pub struct CallObs {
    pub kind: char, // 'c' stream call, 't' take, 's' set_parameter
    pub op: u8,
    pub offered: usize,
    pub out_cap: usize,
    pub ret: bool,
    pub consumed: usize,
    pub produced: Vec<u8>,
    pub finished: bool,
    pub more: bool,
    pub total_out: i64,
    pub state: String,
    pub trace: Vec<String>,
    pub panic: Option<String>,
    pub data_cursor: usize, // data bytes consumed so far (after this call)
}

pub fn rec_to_string(r: &verif_trace::Rec) -> String {
    format!(
        "T {} {} {} {} {} {} {} {} {} {} {} {} {} {}:{}",
        r.fast as u8,
        r.is_last as u8,
        r.force_flush as u8,
        r.result as u8,
        r.inplace as u8,
        r.block_size,
        if r.out.is_empty() { "-".to_string() } else { hex(&r.out) },
        r.last_bytes,
        r.last_bytes_bits,
        r.input_pos,
        r.last_flush_pos,
        r.last_processed_pos,
        r.size_hint,
        r.next_out.0,
        r.next_out.1
    )
}

pub fn state_string<A: BrotliAlloc>(s: &BrotliEncoderStateStruct<A>) -> String {
    let no = s.verif_next_out();
    format!(
        "{} {} {} {} {} {} {} {} {} {}:{} {} {}",
        s.stream_state_ as i32,
        s.remaining_metadata_bytes_,
        s.input_pos_,
        s.last_flush_pos_,
        s.last_processed_pos_,
        s.last_bytes_,
        s.last_bytes_bits_,
        s.available_out_,
        s.total_out_,
        no.0,
        no.1,
        s.is_last_block_emitted_ as u8,
        s.is_initialized_ as u8
    )
}

impl CallObs {
    pub fn to_line(&self) -> String {
        if let Some(p) = &self.panic {
            return p.clone();
        }
        let mut s = format!(
            "{} {} {} {} {} {} {} {} | {}",
            self.kind,
            self.ret as u8,
            self.offered,
            self.consumed,
            if self.produced.is_empty() { "-".to_string() } else { hex(&self.produced) },
            self.finished as u8,
            self.more as u8,
            self.total_out,
            self.state
        );
        for t in &self.trace {
            s.push_str(" | ");
            s.push_str(t);
        }
        s
    }
}

/// Run a script through the Rust API on a fresh encoder; returns one observation per call.
/// `after_call` is invoked after every stream call with (emitted so far, data consumed so far, obs).
pub fn run_rust<A: BrotliAlloc, F: FnMut(&[u8], usize, &CallObs)>(
    alloc: A,
    sc: &Script,
    mut after_call: F,
) -> (Vec<CallObs>, Vec<u8>) {
    let mut obs: Vec<CallObs> = Vec::new();
    let mut emitted: Vec<u8> = Vec::new();
    let mut st = BrotliEncoderStateStruct::new(alloc);
    for (k, v) in &sc.params {
        st.set_parameter(param_of(*k), *v);
    }
    let mut cursor: usize = 0; // data cursor
    let mut mcursor: usize = 0; // metadata cursor
    let mut total_out: Option<usize> = Some(0);
    verif_trace::enable();
    let _ = verif_trace::take();
    let mut nop = |_a: &mut brotli::interface::PredictionModeContextMap<brotli::InputReferenceMut>,
                   _b: &mut [brotli::interface::StaticCommand],
                   _c: brotli::interface::InputPair,
                   _d: &mut A| ();
    for call in &sc.calls {
        let mut o = CallObs::default();
        match call {
            Call::SetParam(k, v) => {
                o.kind = 's';
                let r = panic::catch_unwind(AssertUnwindSafe(|| st.set_parameter(param_of(*k), *v)));
                match r {
                    Ok(b) => o.ret = b,
                    Err(e) => o.panic = Some(panic_msg(e)),
                }
            }
            Call::Take(n) => {
                o.kind = 't';
                o.out_cap = *n;
                let r = panic::catch_unwind(AssertUnwindSafe(|| {
                    let mut size = *n;
                    let sl = st.take_output(&mut size).to_vec();
                    (size, sl)
                }));
                match r {
                    Ok((size, sl)) => {
                        o.ret = true;
                        o.produced = sl[..size.min(sl.len())].to_vec();
                        if size > sl.len() {
                            o.panic = Some("PANIC(take_output size beyond slice)".to_string());
                        }
                    }
                    Err(e) => o.panic = Some(panic_msg(e)),
                }
            }
            Call::Stream { op, inl, out_cap } => {
                o.kind = 'c';
                o.op = *op;
                o.out_cap = *out_cap;
                let is_meta = *op == 3;
                let offered = match inl {
                    InLen::N(n) => *n,
                    InLen::Remaining => {
                        if st.remaining_metadata_bytes_ == u32::MAX {
                            0
                        } else {
                            st.remaining_metadata_bytes_ as usize
                        }
                    }
                };
                let inbuf: Vec<u8> = if is_meta {
                    (mcursor..mcursor + offered).map(meta_byte).collect()
                } else {
                    let end = (cursor + offered).min(sc.data.len());
                    sc.data[cursor..end].to_vec()
                };
                let offered = inbuf.len();
                o.offered = offered;
                let mut outbuf = vec![0u8; *out_cap];
                let mut avail_in = offered;
                let mut in_off = 0usize;
                let mut avail_out = *out_cap;
                let mut out_off = 0usize;
                let r = panic::catch_unwind(AssertUnwindSafe(|| {
                    st.compress_stream(
                        op_of(*op),
                        &mut avail_in,
                        &inbuf,
                        &mut in_off,
                        &mut avail_out,
                        &mut outbuf,
                        &mut out_off,
                        &mut total_out,
                        &mut nop,
                    )
                }));
                match r {
                    Ok(b) => {
                        o.ret = b;
                        o.consumed = in_off;
                        if in_off > offered || out_off > *out_cap || avail_in != offered - in_off || avail_out != *out_cap - out_off {
                            o.panic = Some(format!(
                                "PANIC(cursor accounting: in_off {} offered {} avail_in {} out_off {} cap {} avail_out {})",
                                in_off, offered, avail_in, out_off, out_cap, avail_out
                            ));
                        } else {
                            o.produced = outbuf[..out_off].to_vec();
                        }
                        if is_meta {
                            mcursor += in_off;
                        } else {
                            cursor += in_off;
                        }
                    }
                    Err(e) => o.panic = Some(panic_msg(e)),
                }
            }
        }
        o.trace = verif_trace::take().iter().map(rec_to_string).collect();
        if o.panic.is_none() {
            o.finished = st.is_finished();
            o.more = st.has_more_output();
            o.total_out = total_out.map(|x| x as i64).unwrap_or(-1);
            o.state = state_string(&st);
            emitted.extend_from_slice(&o.produced);
        }
        o.data_cursor = cursor;
        let stop = o.panic.is_some();
        after_call(&emitted, cursor, &o);
        obs.push(o);
        if stop {
            break;
        }
    }
    BrotliEncoderDestroyInstance(&mut st);
    (obs, emitted)
}

pub fn run_rust_std(sc: &Script) -> (Vec<CallObs>, Vec<u8>) {
    run_rust(StandardAlloc::default(), sc, |_, _, _| ())
}

/// One-shot decode with brotli-decompressor; None on failure.
pub fn decode_all(data: &[u8]) -> Option<Vec<u8>> {
    let mut out = Vec::new();
    let mut inp = data;
    match brotli::BrotliDecompress(&mut inp, &mut out) {
        Ok(_) => Some(out),
        Err(_) => None,
    }
}

/// Streaming decode of a *prefix* into one output buffer of `cap` bytes (large enough for
/// everything the prefix can produce, so the decoder is never asked to resume after
/// needs-more-output): returns (bytes produced, result) where result is
/// 1 success, 2 needs-more-input, 3 needs-more-output, 0 failure.
pub fn decode_prefix_cap(data: &[u8], cap: usize) -> (Vec<u8>, u8) {
    use brotli_decompressor::{BrotliDecompressStream, BrotliResult, BrotliState};
    let mut st = BrotliState::new(
        brotli::enc::StandardAlloc::default(),
        brotli::enc::StandardAlloc::default(),
        brotli::enc::StandardAlloc::default(),
    );
    let mut buf = vec![0u8; cap];
    let mut avail_in = data.len();
    let mut in_off = 0usize;
    let mut total = 0usize;
    let mut avail_out = buf.len();
    let mut out_off = 0usize;
    let r = BrotliDecompressStream(&mut avail_in, &mut in_off, data, &mut avail_out, &mut out_off, &mut buf, &mut total, &mut st);
    buf.truncate(out_off);
    let code = match r {
        BrotliResult::ResultSuccess => 1,
        BrotliResult::NeedsMoreInput => 2,
        BrotliResult::NeedsMoreOutput => 3,
        BrotliResult::ResultFailure => 0,
    };
    (buf, code)
}
pub fn decode_prefix(data: &[u8]) -> (Vec<u8>, u8) {
    decode_prefix_cap(data, 64 * data.len() + (1 << 20))
}
