//! Scripted driver for the streaming encoder (Rust API and C ABI), shared by the C20 / C04 /
//! C05 / C13 / C01 harness binaries.  One script = parameter list + data recipe + call list.
#![allow(dead_code)]
use brotli::enc::backward_references::BrotliEncoderParams;
use brotli::enc::combined_alloc::BrotliAlloc;
use brotli::enc::encode::{
    verif_trace, BrotliEncoderDestroyInstance, BrotliEncoderOperation, BrotliEncoderParameter,
    BrotliEncoderStateStruct,
};
use brotli::enc::StandardAlloc;
use std::panic::{self, AssertUnwindSafe};

use crate::{hex, panic_msg, Rng};

#[derive(Clone, Debug)]
pub enum InLen {
    N(usize),
    Remaining, // the encoder's remaining_metadata_bytes_ (metadata continuation)
}
#[derive(Clone, Debug)]
pub enum Call {
    Stream { op: u8, inl: InLen, out_cap: usize }, // op: 0 process 1 flush 2 finish 3 metadata
    Take(usize),
    SetParam(u32, u32),
    /// set a custom dictionary (len, seed; `null`: the C side passes a NULL pointer with size 0)
    SetDict(usize, u64, bool),
}
#[derive(Clone, Debug, Default)]
pub struct Script {
    pub params: Vec<(u32, u32)>,
    pub data: Vec<u8>,
    pub calls: Vec<Call>,
}

pub fn gen_data(kind: &str, len: usize, seed: u64) -> Vec<u8> {
    let mut r = Rng::new(seed);
    let mut v = Vec::with_capacity(len);
    match kind {
        "zero" => v.resize(len, 0u8),
        "rand" => {
            for _ in 0..len {
                v.push(r.next() as u8)
            }
        }
        "text" => {
            let words = [
                "the ", "quick ", "brown ", "fox ", "jumps ", "over ", "lazy ", "dog ", "and ", "then ", "compress ",
                "stream ", "window ", "of ", "a ", "in ", "to ", "brotli ", "format ", "\n",
            ];
            while v.len() < len {
                let w = words[r.below(words.len() as u64) as usize];
                v.extend_from_slice(w.as_bytes());
            }
            v.truncate(len);
        }
        "skew" => {
            for _ in 0..len {
                let x = r.next();
                let b = if x & 1 == 0 { b'a' } else if x & 2 == 0 { b'b' } else if x & 4 == 0 { b'c' } else { (x >> 8) as u8 };
                v.push(b)
            }
        }
        "period" => {
            let p = 1 + (seed % 37) as usize;
            let base: Vec<u8> = (0..p).map(|_| r.next() as u8).collect();
            for i in 0..len {
                v.push(base[i % p])
            }
        }
        "mix" => {
            while v.len() < len {
                let k = ["text", "rand", "zero", "period", "skew"][r.below(5) as usize];
                let l = 1 + r.below(3000) as usize;
                v.extend(gen_data(k, l, r.next()));
            }
            v.truncate(len);
        }
        _ => v.resize(len, b'x'),
    }
    v
}
pub fn meta_byte(i: usize) -> u8 {
    ((i * 7 + 3) & 0xff) as u8
}

pub fn parse_script(toks: &[&str]) -> Script {
    // P=<id>:<val>,...  D=<kind>:<len>:<seed>  C=<call>,<call>,...
    let mut s = Script::default();
    for t in toks {
        if let Some(p) = t.strip_prefix("P=") {
            for kv in p.split(',').filter(|x| !x.is_empty()) {
                let mut it = kv.split(':');
                let k: u32 = it.next().unwrap().parse().unwrap();
                let v: i64 = it.next().unwrap().parse().unwrap();
                s.params.push((k, v as u32));
            }
        } else if let Some(d) = t.strip_prefix("D=") {
            let f: Vec<&str> = d.split(':').collect();
            s.data = gen_data(f[0], f[1].parse().unwrap(), f[2].parse().unwrap());
        } else if let Some(c) = t.strip_prefix("C=") {
            for call in c.split(',').filter(|x| !x.is_empty()) {
                let (h, rest) = call.split_at(1);
                match h {
                    "t" => s.calls.push(Call::Take(rest.parse().unwrap())),
                    "d" => {
                        if rest == "N" {
                            s.calls.push(Call::SetDict(0, 0, true));
                        } else {
                            let mut it = rest.split(':');
                            let n: usize = it.next().unwrap().parse().unwrap();
                            let sd: u64 = it.next().unwrap_or("1").parse().unwrap();
                            s.calls.push(Call::SetDict(n, sd, false));
                        }
                    }
                    "s" => {
                        let mut it = rest.split(':');
                        let k: u32 = it.next().unwrap().parse().unwrap();
                        let v: i64 = it.next().unwrap().parse().unwrap();
                        s.calls.push(Call::SetParam(k, v as u32));
                    }
                    _ => {
                        let op = match h {
                            "p" => 0,
                            "f" => 1,
                            "e" => 2,
                            _ => 3,
                        };
                        let mut it = rest.split('/');
                        let a = it.next().unwrap();
                        let inl = if a == "R" { InLen::Remaining } else { InLen::N(a.parse().unwrap()) };
                        let out_cap: usize = it.next().unwrap().parse().unwrap();
                        s.calls.push(Call::Stream { op, inl, out_cap });
                    }
                }
            }
        }
    }
    s
}

pub fn param_of(id: u32) -> BrotliEncoderParameter {
    use BrotliEncoderParameter::*;
    match id {
        0 => BROTLI_PARAM_MODE,
        1 => BROTLI_PARAM_QUALITY,
        2 => BROTLI_PARAM_LGWIN,
        3 => BROTLI_PARAM_LGBLOCK,
        4 => BROTLI_PARAM_DISABLE_LITERAL_CONTEXT_MODELING,
        5 => BROTLI_PARAM_SIZE_HINT,
        6 => BROTLI_PARAM_LARGE_WINDOW,
        150 => BROTLI_PARAM_Q9_5,
        151 => BROTLI_METABLOCK_CALLBACK,
        152 => BROTLI_PARAM_STRIDE_DETECTION_QUALITY,
        153 => BROTLI_PARAM_HIGH_ENTROPY_DETECTION_QUALITY,
        154 => BROTLI_PARAM_LITERAL_BYTE_SCORE,
        155 => BROTLI_PARAM_CDF_ADAPTATION_DETECTION,
        156 => BROTLI_PARAM_PRIOR_BITMASK_DETECTION,
        166 => BROTLI_PARAM_AVOID_DISTANCE_PREFIX_SEARCH,
        167 => BROTLI_PARAM_CATABLE,
        168 => BROTLI_PARAM_APPENDABLE,
        169 => BROTLI_PARAM_MAGIC_NUMBER,
        170 => BROTLI_PARAM_NO_DICTIONARY,
        171 => BROTLI_PARAM_FAVOR_EFFICIENCY,
        _ => UNUSED7,
    }
}
pub fn op_of(op: u8) -> BrotliEncoderOperation {
    match op {
        0 => BrotliEncoderOperation::BROTLI_OPERATION_PROCESS,
        1 => BrotliEncoderOperation::BROTLI_OPERATION_FLUSH,
        2 => BrotliEncoderOperation::BROTLI_OPERATION_FINISH,
        _ => BrotliEncoderOperation::BROTLI_OPERATION_EMIT_METADATA,
    }
}

#[derive(Clone, Debug, Default)]
pub struct CallObs {
    pub kind: char, // 'c' stream call, 't' take, 's' set_parameter
    pub op: u8,
    pub offered: usize,
    pub out_cap: usize,
    pub ret: bool,
    pub consumed: usize,
    pub produced: Vec<u8>,
    pub finished: bool,
    pub more: bool,
    pub total_out: i64,
    pub state: String,
    pub trace: Vec<String>,
    pub panic: Option<String>,
    pub data_cursor: usize, // data bytes consumed so far (after this call)
}

pub fn rec_to_string(r: &verif_trace::Rec) -> String {
    format!(
        "T {} {} {} {} {} {} {} {} {} {} {} {} {} {}:{}",
        r.fast as u8,
        r.is_last as u8,
        r.force_flush as u8,
        r.result as u8,
        r.inplace as u8,
        r.block_size,
        if r.out.is_empty() { "-".to_string() } else { hex(&r.out) },
        r.last_bytes,
        r.last_bytes_bits,
        r.input_pos,
        r.last_flush_pos,
        r.last_processed_pos,
        r.size_hint,
        r.next_out.0,
        r.next_out.1
    )
}

pub fn state_string<A: BrotliAlloc>(s: &BrotliEncoderStateStruct<A>) -> String {
    let no = s.verif_next_out();
    format!(
        "{} {} {} {} {} {} {} {} {} {}:{} {} {}",
        s.stream_state_ as i32,
        s.remaining_metadata_bytes_,
        s.input_pos_,
        s.last_flush_pos_,
        s.last_processed_pos_,
        s.last_bytes_,
        s.last_bytes_bits_,
        s.available_out_,
        s.total_out_,
        no.0,
        no.1,
        s.is_last_block_emitted_ as u8,
        s.is_initialized_ as u8
    )
}

impl CallObs {
    pub fn to_line(&self) -> String {
        if let Some(p) = &self.panic {
            return p.clone();
        }
        let mut s = format!(
            "{} {} {} {} {} {} {} {} | {}",
            self.kind,
            self.ret as u8,
            self.offered,
            self.consumed,
            if self.produced.is_empty() { "-".to_string() } else { hex(&self.produced) },
            self.finished as u8,
            self.more as u8,
            self.total_out,
            self.state
        );
        for t in &self.trace {
            s.push_str(" | ");
            s.push_str(t);
        }
        s
    }
}

/// Run a script through the Rust API on a fresh encoder; returns one observation per call.
/// `after_call` is invoked after every stream call with (emitted so far, data consumed so far, obs).
pub fn run_rust<A: BrotliAlloc, F: FnMut(&[u8], usize, &CallObs)>(
    alloc: A,
    sc: &Script,
    mut after_call: F,
) -> (Vec<CallObs>, Vec<u8>) {
    let mut obs: Vec<CallObs> = Vec::new();
    let mut emitted: Vec<u8> = Vec::new();
    let mut st = BrotliEncoderStateStruct::new(alloc);
    for (k, v) in &sc.params {
        st.set_parameter(param_of(*k), *v);
    }
    let mut cursor: usize = 0; // data cursor
    let mut mcursor: usize = 0; // metadata cursor
    let mut total_out: Option<usize> = Some(0);
    verif_trace::enable();
    let _ = verif_trace::take();
    let mut nop = |_a: &mut brotli::interface::PredictionModeContextMap<brotli::InputReferenceMut>,
                   _b: &mut [brotli::interface::StaticCommand],
                   _c: brotli::interface::InputPair,
                   _d: &mut A| ();
    for call in &sc.calls {
        let mut o = CallObs::default();
        match call {
            Call::SetDict(n, sd, _null) => {
                // (only the C13 harness scripts dictionaries; kept total for completeness)
                o.kind = 'd';
                let d = gen_data("text", *n, *sd);
                let r = panic::catch_unwind(AssertUnwindSafe(|| st.set_custom_dictionary(d.len(), &d)));
                match r {
                    Ok(()) => o.ret = true,
                    Err(e) => o.panic = Some(panic_msg(e)),
                }
            }
            Call::SetParam(k, v) => {
                o.kind = 's';
                let r = panic::catch_unwind(AssertUnwindSafe(|| st.set_parameter(param_of(*k), *v)));
                match r {
                    Ok(b) => o.ret = b,
                    Err(e) => o.panic = Some(panic_msg(e)),
                }
            }
            Call::Take(n) => {
                o.kind = 't';
                o.out_cap = *n;
                let r = panic::catch_unwind(AssertUnwindSafe(|| {
                    let mut size = *n;
                    let sl = st.take_output(&mut size).to_vec();
                    (size, sl)
                }));
                match r {
                    Ok((size, sl)) => {
                        o.ret = true;
                        o.produced = sl[..size.min(sl.len())].to_vec();
                        if size > sl.len() {
                            o.panic = Some("PANIC(take_output size beyond slice)".to_string());
                        }
                    }
                    Err(e) => o.panic = Some(panic_msg(e)),
                }
            }
            Call::Stream { op, inl, out_cap } => {
                o.kind = 'c';
                o.op = *op;
                o.out_cap = *out_cap;
                let is_meta = *op == 3;
                let offered = match inl {
                    InLen::N(n) => *n,
                    InLen::Remaining => {
                        if st.remaining_metadata_bytes_ == u32::MAX {
                            0
                        } else {
                            st.remaining_metadata_bytes_ as usize
                        }
                    }
                };
                let inbuf: Vec<u8> = if is_meta {
                    (mcursor..mcursor + offered).map(meta_byte).collect()
                } else {
                    let end = (cursor + offered).min(sc.data.len());
                    sc.data[cursor..end].to_vec()
                };
                let offered = inbuf.len();
                o.offered = offered;
                let mut outbuf = vec![0u8; *out_cap];
                let mut avail_in = offered;
                let mut in_off = 0usize;
                let mut avail_out = *out_cap;
                let mut out_off = 0usize;
                let r = panic::catch_unwind(AssertUnwindSafe(|| {
                    st.compress_stream(
                        op_of(*op),
                        &mut avail_in,
                        &inbuf,
                        &mut in_off,
                        &mut avail_out,
                        &mut outbuf,
                        &mut out_off,
                        &mut total_out,
                        &mut nop,
                    )
                }));
                match r {
                    Ok(b) => {
                        o.ret = b;
                        o.consumed = in_off;
                        if in_off > offered || out_off > *out_cap || avail_in != offered - in_off || avail_out != *out_cap - out_off {
                            o.panic = Some(format!(
                                "PANIC(cursor accounting: in_off {} offered {} avail_in {} out_off {} cap {} avail_out {})",
                                in_off, offered, avail_in, out_off, out_cap, avail_out
                            ));
                        } else {
                            o.produced = outbuf[..out_off].to_vec();
                        }
                        if is_meta {
                            mcursor += in_off;
                        } else {
                            cursor += in_off;
                        }
                    }
                    Err(e) => o.panic = Some(panic_msg(e)),
                }
            }
        }
        o.trace = verif_trace::take().iter().map(rec_to_string).collect();
        if o.panic.is_none() {
            o.finished = st.is_finished();
            o.more = st.has_more_output();
            o.total_out = total_out.map(|x| x as i64).unwrap_or(-1);
            o.state = state_string(&st);
            emitted.extend_from_slice(&o.produced);
        }
        o.data_cursor = cursor;
        let stop = o.panic.is_some();
        after_call(&emitted, cursor, &o);
        obs.push(o);
        if stop {
            break;
        }
    }
    BrotliEncoderDestroyInstance(&mut st);
    (obs, emitted)
}

pub fn run_rust_std(sc: &Script) -> (Vec<CallObs>, Vec<u8>) {
    run_rust(StandardAlloc::default(), sc, |_, _, _| ())
}

/// One-shot decode with brotli-decompressor; None on failure.
pub fn decode_all(data: &[u8]) -> Option<Vec<u8>> {
    let mut out = Vec::new();
    let mut inp = data;
    match brotli::BrotliDecompress(&mut inp, &mut out) {
        Ok(_) => Some(out),
        Err(_) => None,
    }
}

/// Streaming decode of a *prefix* into one output buffer of `cap` bytes (large enough for
/// everything the prefix can produce, so the decoder is never asked to resume after
/// needs-more-output): returns (bytes produced, result) where result is
/// 1 success, 2 needs-more-input, 3 needs-more-output, 0 failure.
pub fn decode_prefix_cap(data: &[u8], cap: usize) -> (Vec<u8>, u8) {
    use brotli_decompressor::{BrotliDecompressStream, BrotliResult, BrotliState};
    let mut st = BrotliState::new(
        brotli::enc::StandardAlloc::default(),
        brotli::enc::StandardAlloc::default(),
        brotli::enc::StandardAlloc::default(),
    );
    let mut buf = vec![0u8; cap];
    let mut avail_in = data.len();
    let mut in_off = 0usize;
    let mut total = 0usize;
    let mut avail_out = buf.len();
    let mut out_off = 0usize;
    let r = BrotliDecompressStream(&mut avail_in, &mut in_off, data, &mut avail_out, &mut out_off, &mut buf, &mut total, &mut st);
    buf.truncate(out_off);
    let code = match r {
        BrotliResult::ResultSuccess => 1,
        BrotliResult::NeedsMoreInput => 2,
        BrotliResult::NeedsMoreOutput => 3,
        BrotliResult::ResultFailure => 0,
    };
    (buf, code)
}
pub fn decode_prefix(data: &[u8]) -> (Vec<u8>, u8) {
    decode_prefix_cap(data, 64 * data.len() + (1 << 20))
}

// ------------------------------------------------------------------------------------------
// A uniform view of "an encoder instance" over the Rust API and the C ABI, a driver for
// *logical* scripts (each (operation, chunk) is repeated until it completes) and the
// wrapper entry points.  Used by the C05 and C13 harnesses.
// ------------------------------------------------------------------------------------------
pub trait Enc {
    fn set_param(&mut self, id: u32, v: u32) -> bool;
    /// one stream call: returns (ret, consumed, produced bytes, total_out as reported through the argument)
    fn stream(&mut self, op: u8, input: &[u8], out_cap: usize) -> (bool, usize, Vec<u8>, i64);
    fn take(&mut self, n: usize) -> Vec<u8>;
    fn finished(&mut self) -> bool;
    fn more(&mut self) -> bool;
    fn remaining_meta(&mut self) -> Option<usize> {
        None
    }
    /// set_custom_dictionary / BrotliEncoderSetCustomDictionary (`null`: NULL pointer, size 0)
    fn set_dict(&mut self, _dict: &[u8], _null: bool) {}
}

pub struct RustEnc<A: BrotliAlloc> {
    pub st: BrotliEncoderStateStruct<A>,
    pub total_out: Option<usize>,
}
impl<A: BrotliAlloc> RustEnc<A> {
    pub fn new(a: A) -> Self {
        RustEnc { st: BrotliEncoderStateStruct::new(a), total_out: Some(0) }
    }
}
impl<A: BrotliAlloc> Drop for RustEnc<A> {
    fn drop(&mut self) {
        BrotliEncoderDestroyInstance(&mut self.st);
    }
}
impl<A: BrotliAlloc> Enc for RustEnc<A> {
    fn set_param(&mut self, id: u32, v: u32) -> bool {
        self.st.set_parameter(param_of(id), v)
    }
    fn set_dict(&mut self, dict: &[u8], _null: bool) {
        self.st.set_custom_dictionary(dict.len(), dict)
    }
    fn stream(&mut self, op: u8, input: &[u8], out_cap: usize) -> (bool, usize, Vec<u8>, i64) {
        let mut outbuf = vec![0u8; out_cap];
        let mut avail_in = input.len();
        let mut in_off = 0usize;
        let mut avail_out = out_cap;
        let mut out_off = 0usize;
        let mut nop = |_a: &mut brotli::interface::PredictionModeContextMap<brotli::InputReferenceMut>,
                       _b: &mut [brotli::interface::StaticCommand],
                       _c: brotli::interface::InputPair,
                       _d: &mut A| ();
        let r = self.st.compress_stream(
            op_of(op),
            &mut avail_in,
            input,
            &mut in_off,
            &mut avail_out,
            &mut outbuf,
            &mut out_off,
            &mut self.total_out,
            &mut nop,
        );
        assert!(in_off <= input.len() && out_off <= out_cap && avail_in == input.len() - in_off && avail_out == out_cap - out_off, "cursor accounting");
        outbuf.truncate(out_off);
        (r, in_off, outbuf, self.total_out.map(|x| x as i64).unwrap_or(-1))
    }
    fn take(&mut self, n: usize) -> Vec<u8> {
        let mut size = n;
        let sl = self.st.take_output(&mut size).to_vec();
        sl[..size].to_vec()
    }
    fn finished(&mut self) -> bool {
        self.st.is_finished()
    }
    fn more(&mut self) -> bool {
        self.st.has_more_output()
    }
    fn remaining_meta(&mut self) -> Option<usize> {
        Some(if self.st.remaining_metadata_bytes_ == u32::MAX { 0 } else { self.st.remaining_metadata_bytes_ as usize })
    }
}

/// The exported C functions, called exactly as a C program would (raw pointers, cursors).
pub mod cabi {
    use super::Enc;
    use brotli::ffi::broccoli::c_void;
    use brotli::ffi::compressor::*;
    use std::cell::RefCell;
    use std::collections::HashMap;

    // process-wide (worker threads of the multi-threaded entry points allocate and free too)
    pub struct Glob<T>(pub std::sync::Mutex<Option<T>>);
    impl<T: Default> Glob<T> {
        pub fn with<R, F: FnOnce(&RefCell<T>) -> R>(&self, f: F) -> R {
            let mut g = self.0.lock().unwrap_or_else(|e| e.into_inner());
            let cell = RefCell::new(g.take().unwrap_or_default());
            let r = f(&cell);
            *g = Some(cell.into_inner());
            r
        }
    }
    pub static LEDGER: Glob<HashMap<usize, usize>> = Glob(std::sync::Mutex::new(None));
    pub static ALLOCS: Glob<(usize, usize, usize)> = Glob(std::sync::Mutex::new(None)); // allocs, frees, bad frees
    pub extern "C" fn c_alloc(_opaque: *mut c_void, size: usize) -> *mut c_void {
        let layout = std::alloc::Layout::from_size_align(size.max(1) + 32, 32).unwrap();
        let p = unsafe { std::alloc::alloc_zeroed(layout) };
        unsafe { *(p as *mut usize) = size };
        let user = unsafe { p.add(32) };
        LEDGER.with(|l| l.borrow_mut().insert(user as usize, size));
        ALLOCS.with(|a| a.borrow_mut().0 += 1);
        user as *mut c_void
    }
    pub extern "C" fn c_free(_opaque: *mut c_void, ptr: *mut c_void) {
        if ptr.is_null() {
            return;
        }
        let known = LEDGER.with(|l| l.borrow_mut().remove(&(ptr as usize)));
        match known {
            Some(size) => {
                ALLOCS.with(|a| a.borrow_mut().1 += 1);
                let layout = std::alloc::Layout::from_size_align(size.max(1) + 32, 32).unwrap();
                unsafe { std::alloc::dealloc((ptr as *mut u8).sub(32), layout) };
            }
            None => ALLOCS.with(|a| a.borrow_mut().2 += 1),
        }
    }
    pub struct CEnc {
        pub st: *mut BrotliEncoderState,
        pub custom: bool,
    }
    impl CEnc {
        pub fn new(custom: bool) -> CEnc {
            let st = unsafe {
                if custom {
                    BrotliEncoderCreateInstance(Some(c_alloc), Some(c_free), core::ptr::null_mut())
                } else {
                    BrotliEncoderCreateInstance(None, None, core::ptr::null_mut())
                }
            };
            CEnc { st, custom }
        }
    }
    impl Drop for CEnc {
        fn drop(&mut self) {
            unsafe { BrotliEncoderDestroyInstance(self.st) }
        }
    }
    fn cparam(id: u32) -> brotli::enc::encode::BrotliEncoderParameter {
        super::param_of(id)
    }
    fn cop(op: u8) -> BrotliEncoderOperation {
        match op {
            0 => BrotliEncoderOperation::BROTLI_OPERATION_PROCESS,
            1 => BrotliEncoderOperation::BROTLI_OPERATION_FLUSH,
            2 => BrotliEncoderOperation::BROTLI_OPERATION_FINISH,
            _ => BrotliEncoderOperation::BROTLI_OPERATION_EMIT_METADATA,
        }
    }
    impl Enc for CEnc {
        fn set_param(&mut self, id: u32, v: u32) -> bool {
            unsafe { BrotliEncoderSetParameter(self.st, cparam(id), v) != 0 }
        }
        fn set_dict(&mut self, dict: &[u8], null: bool) {
            let p: *const u8 = if null || dict.is_empty() { core::ptr::null() } else { dict.as_ptr() };
            unsafe { BrotliEncoderSetCustomDictionary(self.st, dict.len(), p) }
        }
        fn stream(&mut self, op: u8, input: &[u8], out_cap: usize) -> (bool, usize, Vec<u8>, i64) {
            let mut outbuf = vec![0u8; out_cap];
            let mut avail_in = input.len();
            let mut avail_out = out_cap;
            // zero-length buffers are passed as null pointers, as C callers commonly do
            let in_start: *const u8 = if input.is_empty() { core::ptr::null() } else { input.as_ptr() };
            let out_start: *mut u8 = if out_cap == 0 { core::ptr::null_mut() } else { outbuf.as_mut_ptr() };
            let mut next_in = in_start;
            let mut next_out = out_start;
            let mut total_out: usize = usize::MAX;
            let r = unsafe {
                BrotliEncoderCompressStream(self.st, cop(op), &mut avail_in, &mut next_in, &mut avail_out, &mut next_out, &mut total_out)
            };
            let in_adv = if input.is_empty() { if next_in == in_start { 0 } else { usize::MAX } } else { (next_in as usize).wrapping_sub(in_start as usize) };
            let out_adv = if out_cap == 0 { if next_out == out_start { 0 } else { usize::MAX } } else { (next_out as usize).wrapping_sub(out_start as usize) };
            assert!(
                in_adv == input.len().wrapping_sub(avail_in) && out_adv == out_cap.wrapping_sub(avail_out) && in_adv <= input.len() && out_adv <= out_cap,
                "cursor accounting: pointers advanced by {} / {}, counters decreased by {} / {}",
                in_adv,
                out_adv,
                input.len().wrapping_sub(avail_in),
                out_cap.wrapping_sub(avail_out)
            );
            outbuf.truncate(out_adv);
            (r != 0, in_adv, outbuf, total_out as i64)
        }
        fn take(&mut self, n: usize) -> Vec<u8> {
            let mut size = n;
            let p = unsafe { BrotliEncoderTakeOutput(self.st, &mut size) };
            if size == 0 {
                Vec::new()
            } else {
                unsafe { std::slice::from_raw_parts(p, size).to_vec() }
            }
        }
        fn finished(&mut self) -> bool {
            unsafe { BrotliEncoderIsFinished(self.st) != 0 }
        }
        fn more(&mut self) -> bool {
            unsafe { BrotliEncoderHasMoreOutput(self.st) != 0 }
        }
    }
}

/// physical script (same format as `Script`) through any `Enc`; one compact record per call
/// "kind ret offered consumed producedhex fin more total_out"
pub fn run_physical<E: Enc>(e: &mut E, sc: &Script) -> (Vec<String>, Vec<u8>) {
    let mut recs = Vec::new();
    let mut emitted = Vec::new();
    for (k, v) in &sc.params {
        e.set_param(*k, *v);
    }
    let mut cursor = 0usize;
    let mut mcursor = 0usize;
    let mut meta_left: usize = 0;
    let mut last_total: i64 = 0;
    for call in &sc.calls {
        let r = panic::catch_unwind(AssertUnwindSafe(|| match call {
            Call::SetParam(k, v) => {
                let b = e.set_param(*k, *v);
                format!("s {} 0 0 - {} {} {}", b as u8, e.finished() as u8, e.more() as u8, last_total)
            }
            Call::SetDict(n, sd, null) => {
                let d = gen_data("text", *n, *sd);
                e.set_dict(&d, *null);
                format!("d 1 0 0 - {} {} {}", e.finished() as u8, e.more() as u8, last_total)
            }
            Call::Take(n) => {
                let bs = e.take(*n);
                emitted.extend_from_slice(&bs);
                format!("t 1 0 0 {} {} {} {}", if bs.is_empty() { "-".to_string() } else { hex(&bs) }, e.finished() as u8, e.more() as u8, last_total)
            }
            Call::Stream { op, inl, out_cap } => {
                let is_meta = *op == 3;
                let want = match inl {
                    InLen::N(n) => *n,
                    InLen::Remaining => e.remaining_meta().unwrap_or(meta_left),
                };
                let inbuf: Vec<u8> = if is_meta {
                    (mcursor..mcursor + want).map(meta_byte).collect()
                } else {
                    sc.data[cursor..(cursor + want).min(sc.data.len())].to_vec()
                };
                let (ret, consumed, produced, tot) = e.stream(*op, &inbuf, *out_cap);
                if is_meta {
                    mcursor += consumed;
                    if ret {
                        if let InLen::N(n) = inl {
                            if meta_left == 0 {
                                meta_left = *n;
                            }
                        }
                        meta_left = meta_left.saturating_sub(consumed);
                    }
                } else {
                    cursor += consumed;
                }
                emitted.extend_from_slice(&produced);
                last_total = tot;
                format!(
                    "c {} {} {} {} {} {} {}",
                    ret as u8,
                    inbuf.len(),
                    consumed,
                    if produced.is_empty() { "-".to_string() } else { hex(&produced) },
                    e.finished() as u8,
                    e.more() as u8,
                    tot
                )
            }
        }));
        match r {
            Ok(s) => recs.push(s),
            Err(err) => {
                recs.push(panic_msg(err));
                break;
            }
        }
    }
    (recs, emitted)
}

/// logical script: each (op, chunk) is repeated with the output capacities of `caps` (cycled)
/// until its input is consumed and, for flush / finish / metadata, nothing is pending.
/// `take` > 0: stream calls get no output space and output is fetched with take_output(take).
pub struct Logical {
    pub params: Vec<(u32, u32)>,
    pub data: Vec<u8>,
    pub calls: Vec<(u8, usize)>,
    pub caps: Vec<usize>,
    pub take: usize,
}
pub fn run_logical<E: Enc>(e: &mut E, lg: &Logical) -> (Vec<u8>, usize, bool) {
    for (k, v) in &lg.params {
        e.set_param(*k, *v);
    }
    let mut emitted = Vec::new();
    let mut cursor = 0usize;
    let mut mcursor = 0usize;
    let mut ncalls = 0usize;
    let mut ci = 0usize;
    let mut ok = true;
    'outer: for (op, chunk) in &lg.calls {
        let is_meta = *op == 3;
        let mut inbuf: Vec<u8> = if is_meta {
            let v = (mcursor..mcursor + *chunk).map(meta_byte).collect();
            mcursor += *chunk;
            v
        } else {
            let end = (cursor + *chunk).min(lg.data.len());
            let v = lg.data[cursor..end].to_vec();
            cursor = end;
            v
        };
        let mut stall = 0usize;
        loop {
            let cap = if lg.take > 0 { 0 } else { lg.caps[ci % lg.caps.len()] };
            ci += 1;
            ncalls += 1;
            let (ret, consumed, produced, _) = e.stream(*op, &inbuf, cap);
            if !ret {
                ok = false;
                break 'outer;
            }
            emitted.extend_from_slice(&produced);
            inbuf.drain(..consumed);
            let mut took = 0usize;
            if lg.take > 0 {
                while e.more() {
                    let bs = e.take(lg.take);
                    took += bs.len();
                    emitted.extend_from_slice(&bs);
                    if bs.is_empty() {
                        break;
                    }
                }
            }
            // encode.h: "If output is acquired via BrotliEncoderTakeOutput, then operation should be
            // repeated after output buffer is drained": a request is complete when a call returns
            // with its input consumed and nothing pending
            let done = inbuf.is_empty() && (*op == 0 || (!e.more() && took == 0));
            if done {
                break;
            }
            if consumed == 0 && produced.is_empty() && took == 0 {
                stall += 1;
                if stall > lg.caps.len() + 2 {
                    ok = false;
                    break 'outer;
                }
            } else {
                stall = 0;
            }
            if ncalls > 50_000_000 {
                ok = false;
                break 'outer;
            }
        }
    }
    (emitted, ncalls, ok)
}
