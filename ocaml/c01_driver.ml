(* C01 driver.  Requests (one per line):
     W <p>                                              model of WrapPosition
     C P=<id:val,...> [H=<size hint at hasher setup>]   model of the configuration: cfg=q,lgwin,lgblock,np,nd,alphabet,maxdist,rbsize,rbmask,rbtail,rbtotal hasher=<type> hq=<0|1>
     B <lgwin> <lgblock> <q> <n1,n2,..> <data hex>      model of the ring buffer after these writes: pos mask cur chk (+ own check against the data)
     SC <lgwin> <lw 0|1> <n1,n2,..> <data hex>          model of the stored-stream writer (EncodeWindowBits, uncompressed meta-block
                                                        headers, JumpToByteBoundary, raw bytes, empty last meta-block): hex of the stream
     D <allow_large 0|1> <stream hex|->                 decode with the extracted RFC 7932 decoder
     DP <allow_large> <prefix hex|-> <stream hex|->     same with a custom-dictionary prefix
     DR <allow_large> <hex of a stream prefix that ends at a meta-block boundary>
                                                        decoder state there: ring=<d1.d2.d3.d4> pushes=<n> pos=<bytes> p=<p1.p2> c=<compressed meta-blocks> u=<uncompressed>
   answers:  OK <len> <hash> I=<k:v,...> [H=<hex of output if len <= 64>]   |   ERR <code>
   The static dictionary and the transform list (Section parameters of coq/spec/Decoder.v) are
   loaded from dict.bin / dict_offsets.txt / transforms.txt next to the executable
   (tools/gen_c01_dict.py writes them from the decoder crate's sources). *)
let dir = Filename.dirname Sys.executable_name
let read_file p = let ic = open_in_bin p in let n = in_channel_length ic in let s = really_input_string ic n in close_in ic; s
let dict = read_file (Filename.concat dir "dict.bin")
let offsets =
  let ic = open_in (Filename.concat dir "dict_offsets.txt") in
  let l = input_line ic in close_in ic;
  Array.of_list (Stdlib.List.map int_of_string (split_ws l))
(* bytes as N, preallocated *)
let nbyte = Array.init 256 n_of_int
let bytes_of_string s = Stdlib.List.init (Stdlib.String.length s) (fun i -> nbyte.(Char.code s.[i]))
let unhex s = if s = "-" then "" else
  Stdlib.String.init (Stdlib.String.length s / 2) (fun i -> Char.chr (int_of_string ("0x" ^ Stdlib.String.sub s (2*i) 2)))
let dict_word (len : n) (idx : n) : n list =
  let l = int_of_n len and i = int_of_n idx in
  if l < 4 || l > 24 then [] else
  let o = offsets.(l) + i * l in
  if o + l > Stdlib.String.length dict then [] else bytes_of_string (Stdlib.String.sub dict o l)
let transforms =
  let ic = open_in (Filename.concat dir "transforms.txt") in
  let r = ref [] in
  (try while true do
     match split_ws (input_line ic) with
     | [p; t; s] -> r := ((bytes_of_string (unhex p), n_of_int (int_of_string t)), bytes_of_string (unhex s)) :: !r
     | _ -> ()
   done with End_of_file -> ());
  close_in ic; Array.of_list (Stdlib.List.rev !r)
let transform_tbl (id : n) = let i = int_of_n id in if i < Array.length transforms then Some transforms.(i) else None

let hash_bytes (l : n list) = Stdlib.List.fold_left (fun h b -> hmix h (int_of_n b)) 0 l
let info_string i =
  let b = Buffer.create 64 in
  for k = 1 to 34 do
    let v = int_of_n (ngetd i (n_of_int k)) in
    if v <> 0 then Buffer.add_string b (Printf.sprintf "%s%d:%d" (if Buffer.length b > 0 then "," else "") k v)
  done; if Buffer.length b = 0 then "-" else Buffer.contents b
let run lw prefix stream =
  match decode dict_word transform_tbl (lw <> "0") (bytes_of_string (unhex prefix)) (bytes_of_string (unhex stream)) with
  | Ok (bytes, i) ->
    let len = Stdlib.List.length bytes in
    Printf.sprintf "OK %d %d I=%s%s" len (hash_bytes bytes) (info_string i)
      (if len <= 64 then " H=" ^ (if len = 0 then "-" else ints_to_hex (Stdlib.List.map int_of_n bytes)) else "")
  | Err e -> Printf.sprintf "ERR %d" (int_of_n e)
let parse_params (t : string) : (n * n) list =
  Stdlib.List.filter_map (fun kv ->
    match Stdlib.String.split_on_char ':' kv with
    | [k; v] -> let v = int_of_string v in
                let v = if v < 0 then v + (1 lsl 32) else v in
                Some (n_of_int (int_of_string k), n_of_int v)
    | _ -> None) (Stdlib.String.split_on_char ',' t)
let cfg_of plist hint =
  let p = set_params plist in
  let p = match hint with None -> p | Some h -> { p with e_size_hint = n_of_int h } in
  let c = configure p in
  (c, Printf.sprintf "cfg=%d,%d,%d,%d,%d,%d,%d,%d,%d,%d,%d hasher=%d hq=%d"
    (int_of_z c.c_quality) (int_of_z c.c_lgwin) (int_of_z c.c_lgblock) (int_of_n c.c_np) (int_of_n c.c_nd)
    (int_of_n c.c_alphabet) (int_of_n c.c_maxdist) (int_of_n c.c_rbsize) (int_of_n c.c_rbmask) (int_of_n c.c_rbtail)
    (int_of_n c.c_rbtotal) (int_of_z c.c_hasher) (if hq_ok c.c_alphabet then 1 else 0))
let run_b lgwin lgblock q sizes data =
  let plist = (if lgwin > 24 then [(n_of_int 6, n_of_int 1)] else []) @
              [(n_of_int 2, n_of_int lgwin); (n_of_int 3, n_of_int lgblock); (n_of_int 1, n_of_int q)] in
  let (c, _) = cfg_of plist None in
  let bytes = Array.of_list (bytes_of_string (unhex data)) in
  let cur = ref 0 in
  let ws = Stdlib.List.map (fun n -> let w = Array.to_list (Array.sub bytes !cur n) in cur := !cur + n; w) sizes in
  match rb_writes ws (rb_setup (Z.to_N c.c_rbbits) (Z.to_N c.c_lgblock)) with
  | RbPanic w -> Printf.sprintf "rb=PANIC(%d)" (int_of_n w)
  | RbDone r ->
    let total = !cur in
    let size = int_of_n r.r_size in
    let span = min total size in
    let h = ref 0 and ok = ref true in
    if int_of_n r.r_len > 0 then
      for p = total - span to total - 1 do
        let b = int_of_n (rb_at r (n_of_int p)) in
        h := hmix !h b;
        if b <> int_of_n bytes.(p) then ok := false
      done;
    Printf.sprintf "rb=%s pos=%d mask=%d cur=%d size=%d tail=%d chk=%d" (if !ok then "ok" else "bad") (int_of_n r.r_pos)
      (int_of_n r.r_mask) (int_of_n r.r_cur) size (int_of_n r.r_tail) !h
let strip_prefix p s = let lp = Stdlib.String.length p in
  if Stdlib.String.length s >= lp && Stdlib.String.sub s 0 lp = p then Some (Stdlib.String.sub s lp (Stdlib.String.length s - lp)) else None
let () = iter_lines (fun line ->
  match split_ws line with
  | ["D"; lw; s] -> print_endline (run lw "-" s)
  | ["DP"; lw; p; s] -> print_endline (run lw p s)
  | ["DR"; lw; s] ->
    (match decode_prefix dict_word transform_tbl (lw <> "0") [] (bytes_of_string (unhex s)) with
     | Ok ((rg, ((pos, p1), p2)), i) ->
       let (((a, b), c), d) = rg in
       Printf.printf "ring=%d.%d.%d.%d pushes=%d pos=%d p=%d.%d c=%d u=%d\n" (int_of_n a) (int_of_n b) (int_of_n c) (int_of_n d)
         (int_of_n (ngetd i (n_of_int 34))) (int_of_n pos) (int_of_n p1) (int_of_n p2)
         (int_of_n (ngetd i (n_of_int 1))) (int_of_n (ngetd i (n_of_int 2)))
     | Err e -> Printf.printf "ERR %d\n" (int_of_n e))
  | ["SC"; lgwin; lw; lens; data] ->
    let (lb, lbb) = encode_window_bits (z_of_int (int_of_string lgwin)) (lw <> "0") in
    let hb = n_to_bits (nat_of_int (int_of_n lbb)) lb in
    let bytes = Array.of_list (bytes_of_string (unhex data)) in
    let cur = ref 0 in
    let chunks = Stdlib.List.map (fun n -> let w = Array.to_list (Array.sub bytes !cur n) in cur := !cur + n; w)
        (Stdlib.List.map int_of_string (Stdlib.List.filter (fun x -> x <> "") (Stdlib.String.split_on_char ',' lens))) in
    (match store_chunks chunks hb with
     | None -> print_endline "PANIC"
     | Some bs ->
       let b = Buffer.create 1024 in
       let rec go l acc k = match l with
         | [] -> if k > 0 then Buffer.add_string b (Printf.sprintf "%02x" acc)
         | x :: t -> let acc = if x then acc lor (1 lsl k) else acc in
                     if k = 7 then (Buffer.add_string b (Printf.sprintf "%02x" acc); go t 0 0) else go t acc (k + 1) in
       go bs 0 0; print_endline (Buffer.contents b))
  | ["W"; p] -> print_endline (string_of_n (wrap_position (n_of_string p)))
  | "C" :: rest ->
    let ps = ref [] and hint = ref None in
    Stdlib.List.iter (fun t ->
      (match strip_prefix "P=" t with Some x -> ps := parse_params x | None -> ());
      (match strip_prefix "H=" t with Some x -> hint := Some (int_of_string x) | None -> ())) rest;
    print_endline (snd (cfg_of !ps !hint))
  | ["B"; lgwin; lgblock; q; sizes; data] ->
    print_endline (run_b (int_of_string lgwin) (int_of_string lgblock) (int_of_string q)
      (Stdlib.List.map int_of_string (Stdlib.List.filter (fun x -> x <> "") (Stdlib.String.split_on_char ',' sizes))) data)
  | [] -> ()
  | _ -> print_endline "BADREQ")
