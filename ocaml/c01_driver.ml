(* C01 driver.  Requests (one per line):
     D <allow_large 0|1> <stream hex|->                 decode with the extracted RFC 7932 decoder
     DP <allow_large> <prefix hex|-> <stream hex|->     same with a custom-dictionary prefix
   answers:  OK <len> <hash> I=<k:v,...> [H=<hex of output if len <= 64>]   |   ERR <code>
   The static dictionary and the transform list (Section parameters of coq/spec/Decoder.v) are
   loaded from dict.bin / dict_offsets.txt / transforms.txt next to the executable
   (tools/gen_c01_dict.py writes them from the decoder crate's sources). *)
let dir = Filename.dirname Sys.executable_name
let read_file p = let ic = open_in_bin p in let n = in_channel_length ic in let s = really_input_string ic n in close_in ic; s
let dict = read_file (Filename.concat dir "dict.bin")
let offsets =
  let ic = open_in (Filename.concat dir "dict_offsets.txt") in
  let l = input_line ic in close_in ic;
  Array.of_list (Stdlib.List.map int_of_string (split_ws l))
(* bytes as N, preallocated *)
let nbyte = Array.init 256 n_of_int
let bytes_of_string s = Stdlib.List.init (Stdlib.String.length s) (fun i -> nbyte.(Char.code s.[i]))
let unhex s = if s = "-" then "" else
  Stdlib.String.init (Stdlib.String.length s / 2) (fun i -> Char.chr (int_of_string ("0x" ^ Stdlib.String.sub s (2*i) 2)))
let dict_word (len : n) (idx : n) : n list =
  let l = int_of_n len and i = int_of_n idx in
  if l < 4 || l > 24 then [] else
  let o = offsets.(l) + i * l in
  if o + l > Stdlib.String.length dict then [] else bytes_of_string (Stdlib.String.sub dict o l)
let transforms =
  let ic = open_in (Filename.concat dir "transforms.txt") in
  let r = ref [] in
  (try while true do
     match split_ws (input_line ic) with
     | [p; t; s] -> r := ((bytes_of_string (unhex p), n_of_int (int_of_string t)), bytes_of_string (unhex s)) :: !r
     | _ -> ()
   done with End_of_file -> ());
  close_in ic; Array.of_list (Stdlib.List.rev !r)
let transform_tbl (id : n) = let i = int_of_n id in if i < Array.length transforms then Some transforms.(i) else None

let hash_bytes (l : n list) = Stdlib.List.fold_left (fun h b -> hmix h (int_of_n b)) 0 l
let info_string i =
  let b = Buffer.create 64 in
  for k = 1 to 33 do
    let v = int_of_n (ngetd i (n_of_int k)) in
    if v <> 0 then Buffer.add_string b (Printf.sprintf "%s%d:%d" (if Buffer.length b > 0 then "," else "") k v)
  done; if Buffer.length b = 0 then "-" else Buffer.contents b
let run lw prefix stream =
  match decode dict_word transform_tbl (lw <> "0") (bytes_of_string (unhex prefix)) (bytes_of_string (unhex stream)) with
  | Ok (bytes, i) ->
    let len = Stdlib.List.length bytes in
    Printf.sprintf "OK %d %d I=%s%s" len (hash_bytes bytes) (info_string i)
      (if len <= 64 then " H=" ^ (if len = 0 then "-" else ints_to_hex (Stdlib.List.map int_of_n bytes)) else "")
  | Err e -> Printf.sprintf "ERR %d" (int_of_n e)
let () = iter_lines (fun line ->
  match split_ws line with
  | ["D"; lw; s] -> print_endline (run lw "-" s)
  | ["DP"; lw; p; s] -> print_endline (run lw p s)
  | [] -> ()
  | _ -> print_endline "BADREQ")
