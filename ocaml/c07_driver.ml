(* C07 driver: the extracted FixedQueue / worker-pool model on the line protocol of
   harness/src/bin/c07.rs.
     Q <op> ...                               queue operation sequence (model of fixed_queue.rs)
     P <workers> <script> | x <mv> <mv> ...   one run of the pool model on an explicit schedule
     C <workers> <script> | <budget> <cap>    number of maximal schedules of the model (depth first, same
                                              option order as the harness), capped
     S Q <op> ... = <answers>                 bounded-queue spec applied to the implementation's answers
     S P <workers> <script> | <impl line>     run-summary spec (spec_ok) applied to an implementation run *)
let salt = 777
let panic_bit = 1 lsl 40
let job_value (p : int) : int = hmix (hmix 12345 salt) p
let jf (p : n) : n = n_of_int (job_value (int_of_n p))
let job_ok (p : n) : bool = (int_of_n p) land panic_bit = 0
let ni = int_of_n

(* ---------------------------------------------------------------- queue *)
let parse_qop (s : string) : int qop option =
  let c = s.[0] and rest = Stdlib.String.sub s 1 (Stdlib.String.length s - 1) in
  match c with
  | 'p' -> Some (QPush (int_of_string rest))
  | 'o' -> Some QPop
  | 'r' -> let k = int_of_string rest in
    Some (QRemove (fun o -> match o with Some v -> v mod 8 = k | None -> false))
  | 's' -> Some QSize
  | 'c' -> Some QCanPush
  | 'f' -> Some QFree
  | _ -> None

let show_ans (a : int qans) : string = match a with
  | APush b -> if b then "p:ok" else "p:err"
  | APop o -> (match o with Some v -> Printf.sprintf "o:%d" v | None -> "o:-")
  | ARemove o -> (match o with Some v -> Printf.sprintf "r:%d" v | None -> "r:-")
  | ASize k -> Printf.sprintf "s:%d" (ni k)
  | ACan b -> if b then "c:1" else "c:0"
  | AFree k -> Printf.sprintf "f:%d" (ni k)

let show_panic (p : panic) : string = match p with
  | PAddOverflow -> "PAddOverflow" | PSubOverflow -> "PSubOverflow" | PAssertIsNone -> "PAssertIsNone"
  | PUnwrapJobsPush -> "PUnwrapJobsPush" | PUnwrapResultsPush -> "PUnwrapResultsPush" | PJoinUnwrap -> "PJoinUnwrap"

let cmd_queue (toks : string list) : string =
  let ops = Stdlib.List.map (fun t -> match parse_qop t with Some o -> o | None -> failwith "qop") toks in
  match fq_run fq_new ops with
  | Ok l -> Stdlib.String.concat "," (Stdlib.List.map show_ans l)
  | Panic p -> "PANIC(" ^ show_panic p ^ ")"

let spec_queue (toks : string list) (answers : string) : string =
  let ops = Stdlib.List.map (fun t -> match parse_qop t with Some o -> o | None -> failwith "qop") toks in
  let cap = nat_of_int (ni mAX_THREADS) in
  let want = Stdlib.String.concat "," (Stdlib.List.map show_ans (qs_run cap [] ops)) in
  if want = answers then "OK" else "FAIL bounded FIFO/first-match queue answers " ^ want

(* ---------------------------------------------------------------- pool *)
type op = OB | OS of int | OJ of int | OU | OD

let parse_script (s : string) : op list =
  Stdlib.List.filter_map (fun t ->
    if t = "" then None else
    let rest = Stdlib.String.sub t 1 (Stdlib.String.length t - 1) in
    match t.[0] with
    | 'B' -> Some OB | 'S' -> Some (OS (int_of_string rest)) | 'J' -> Some (OJ (int_of_string rest))
    | 'U' -> Some OU | 'D' -> Some OD | _ -> failwith "script")
    (Stdlib.String.split_on_char ',' s)

let nworkers (s : pstate) : int = Stdlib.List.length s.wpcs

(* work id of the k-th submitted job *)
let id_of_ordinal (s : pstate) (k : int) : n =
  let l = Stdlib.List.rev s.spawned in
  match Stdlib.List.nth_opt l k with Some j -> j.j_id | None -> n_of_int 1000000

let sub_move (s : pstate) (rest : op list) : move option =
  match s.sub0 with
  | SIdle -> (match rest with
      | OB :: _ -> Some MBegin
      | OS p :: _ -> Some (MSpawn (n_of_int p))
      | OJ k :: _ -> Some (MJoin (id_of_ordinal s k))
      | OU :: _ -> Some MUnwrap
      | OD :: _ -> Some MDrop
      | [] -> None)
  | SSpawnWait a -> Some (MSpawn a)
  | SJoinWait w -> Some (MJoin w)
  | SReaping _ -> Some MReap
  | SDone -> None

let mem_nat_i (t : int) (l : nat list) : bool = Stdlib.List.exists (fun x -> int_of_nat x = t) l

let sub_status (s : pstate) (rest : op list) : string =
  match s.sub0 with
  | SIdle -> (match rest with
      | OB :: _ -> "U10" | OU :: _ -> "U11" | (OS _ | OJ _ | OD) :: _ -> "A" | [] -> "X")
  | SSpawnWait _ | SJoinWait _ -> if mem_nat_i 0 s.waiters then "w" else "W"
  | SReaping k -> Printf.sprintf "J%d" (int_of_nat k + 1)
  | SDone -> "X"

let worker_status (s : pstate) (i : int) (pc : wpc) : string =
  match pc with
  | WTop -> "A"
  | WWaiting -> if mem_nat_i (i + 1) s.waiters then "w" else "W"
  | WHolding _ -> "U1"
  | WRan _ -> "U2"
  | WDropped _ -> "A"
  | WExited | WKilled -> "X"

let statuses (s : pstate) (rest : op list) : string list =
  sub_status s rest :: Stdlib.List.mapi (fun i pc -> worker_status s i pc) s.wpcs

let thread_move (s : pstate) (rest : op list) (t : int) : move option =
  if t = 0 then sub_move s rest else Some (MWorker (nat_of_int (t - 1)))

let enabled_list (s : pstate) (rest : op list) : int list =
  let n = nworkers s in
  Stdlib.List.filter (fun t -> match thread_move s rest t with
      | Some m -> enabled jf job_ok s m | None -> false)
    (Stdlib.List.init (n + 1) (fun t -> t))

let spur_list (s : pstate) : int list =
  let n = nworkers s in
  Stdlib.List.filter (fun t -> mem_nat_i t s.waiters) (Stdlib.List.init (n + 1) (fun t -> t))

let strong_str (s : pstate) (rest : op list) : string =
  if Stdlib.List.for_all (fun x -> x = "X") (statuses s rest) then "-" else
  match s.next_arc with N0 -> "-" | a -> string_of_int (ni (s.strong (N.pred a)))

let record (mv : string) (prev : pstate option) (s : pstate) (rest : op list) : string =
  let en = enabled_list s rest in
  let mask = Stdlib.List.fold_left (fun m t -> m lor (1 lsl t)) 0 en in
  let (((j, r), p), c) = observe s in
  let notified = match prev with Some p -> ni p.n_notify <> ni s.n_notify | None -> false in
  let ev = match prev with
    | None -> "-"
    | Some p ->
      if p.cur_arc = None && s.cur_arc <> None then "B"
      else if Stdlib.List.length s.spawned > Stdlib.List.length p.spawned then
        Printf.sprintf "S%d" (ni (Stdlib.List.hd s.spawned).j_id)
      else if Stdlib.List.length s.joined > Stdlib.List.length p.joined then
        (let (w, v) = Stdlib.List.hd s.joined in Printf.sprintf "J%d=%d" (ni w) (ni v))
      else if Stdlib.List.length s.unwraps > Stdlib.List.length p.unwraps then
        (let ((_, _), okk) = Stdlib.List.hd s.unwraps in if okk then Printf.sprintf "U=ok%d" salt else "U=err")
      else if p.sub0 <> SDone && s.sub0 = SDone then "D"
      else "-" in
  Printf.sprintf "%s|%s|%s|%d,%d,%d,%d|%s|%x|%s" mv (Stdlib.String.concat "." (statuses s rest))
    (if notified then "N" else "-") (ni j) (ni r) (ni p) (ni c) (strong_str s rest) mask ev

let all_exited (s : pstate) (rest : op list) : bool =
  Stdlib.List.for_all (fun x -> x = "X") (statuses s rest)

(* after a submitter move: has the current script operation completed? *)
let advance (s : pstate) (rest : op list) : op list =
  match s.sub0, rest with
  | (SIdle | SDone), _ :: r -> r
  | _, _ -> rest

let exec_str (s : pstate) (njobs : int) : string =
  Stdlib.String.concat "," (Stdlib.List.init njobs (fun k ->
    string_of_int (int_of_nat (exec_count s (id_of_ordinal s k)))))

let njobs_of (script : op list) : int =
  Stdlib.List.length (Stdlib.List.filter (fun o -> match o with OS _ -> true | _ -> false) script)

let cmd_pool (nw : int) (script : op list) (sched : string list) : string =
  let s0 = pool_new (n_of_int nw) in
  let njobs = njobs_of script in
  let recs = ref [record "init" None s0 script] in
  let fin s e =
    Printf.sprintf "sched=%s;steps=%s;exec=%s;end=%s" (Stdlib.String.concat " " sched)
      (Stdlib.String.concat ";" (Stdlib.List.rev !recs)) (exec_str s njobs) e in
  let rec go s rest sch =
    if all_exited s rest then fin s "ok"
    else if enabled_list s rest = [] then fin s "DEADLOCK"
    else match sch with
      | [] -> fin s "incomplete"
      | mv :: sch' ->
        let t = int_of_string (Stdlib.String.sub mv 1 (Stdlib.String.length mv - 1)) in
        let m = if mv.[0] = 'w' then Some (MSpurious (nat_of_int t)) else thread_move s rest t in
        (match m with
         | None -> fin s ("NOTENABLED(" ^ mv ^ ")")
         | Some m ->
           match step jf job_ok s m with
           | None -> fin s ("NOTENABLED(" ^ mv ^ ")")
           | Some (Panic p) -> fin s ("PANIC(" ^ show_panic p ^ ")")
           | Some (Ok s') ->
             let rest' = if mv.[0] = 't' && t = 0 then advance s' rest else rest in
             recs := record mv (Some s) s' rest' :: !recs;
             go s' rest' sch') in
  go s0 script sched

(* number of maximal schedules (depth-first; options: enabled threads ascending, then spurious wake-ups while
   the budget lasts); `red` = always run a worker that sits at a purely local step first *)
(* reduction: a worker at a purely local step (job body about to run = U1, or notified inside wait = W: it only
   re-acquires and releases the lock) commutes with every other move, so it is run first and alone *)
let local_first (s : pstate) (rest : op list) (en : int list) : int option =
  let st = statuses s rest in
  Stdlib.List.find_opt (fun t -> t > 0 && (let x = Stdlib.List.nth st t in x = "U1" || x = "W")) en

let cmd_count (nw : int) (script : op list) (budget : int) (cap : int) (red : bool) : string =
  let count = ref 0 and states = ref 0 and bad = ref "" in
  let rec go s rest used =
    if !count >= cap then ()
    else if all_exited s rest then incr count
    else begin
      let en = enabled_list s rest in
      if en = [] then (incr count; bad := "DEADLOCK")
      else match (if red then local_first s rest en else None) with
      | Some t ->
        (match thread_move s rest t with
         | Some m -> (match step jf job_ok s m with
             | Some (Ok s') -> incr states; go s' rest used
             | _ -> ())
         | None -> ())
      | None -> begin
        Stdlib.List.iter (fun t ->
          match thread_move s rest t with
          | None -> ()
          | Some m -> (match step jf job_ok s m with
              | Some (Ok s') -> incr states; go s' (if t = 0 then advance s' rest else rest) used
              | Some (Panic p) -> incr count; bad := "PANIC(" ^ show_panic p ^ ")"
              | None -> ())) en;
        if used < budget then
          Stdlib.List.iter (fun t ->
            match step jf job_ok s (MSpurious (nat_of_int t)) with
            | Some (Ok s') -> incr states; go s' rest (used + 1)
            | _ -> ()) (spur_list s)
      end
    end in
  go (pool_new (n_of_int nw)) script 0;
  Printf.sprintf "n=%d;complete=%d;transitions=%d;%s" !count (if !count >= cap then 0 else 1) !states !bad

(* every schedule prefix of length `depth` (or shorter when maximal), same exploration rule as cmd_count *)
let cmd_prefixes (nw : int) (script : op list) (budget : int) (red : bool) (depth : int) : string =
  let out = ref [] in
  let rec go s rest used acc d =
    if d = 0 || all_exited s rest || enabled_list s rest = [] then
      out := Stdlib.String.concat " " (Stdlib.List.rev acc) :: !out
    else begin
      let en = enabled_list s rest in
      let threads, spur = match (if red then local_first s rest en else None) with
        | Some t -> [t], []
        | None -> en, (if used < budget then spur_list s else []) in
      Stdlib.List.iter (fun t ->
        match thread_move s rest t with
        | None -> ()
        | Some m -> (match step jf job_ok s m with
            | Some (Ok s') -> go s' (if t = 0 then advance s' rest else rest) used (Printf.sprintf "t%d" t :: acc) (d - 1)
            | Some (Panic _) -> out := Stdlib.String.concat " " (Stdlib.List.rev (Printf.sprintf "t%d" t :: acc)) :: !out
            | None -> ())) threads;
      Stdlib.List.iter (fun t ->
        match step jf job_ok s (MSpurious (nat_of_int t)) with
        | Some (Ok s') -> go s' rest (used + 1) (Printf.sprintf "w%d" t :: acc) (d - 1)
        | _ -> ()) spur
    end in
  go (pool_new (n_of_int nw)) script 0 [] depth;
  Stdlib.String.concat ";" (Stdlib.List.rev !out)

let hash_str (h : int) (s : string) : int =
  let h = ref h in Stdlib.String.iter (fun c -> h := hmix !h (Char.code c)) s; hmix !h 10

(* ---------------------------------------------------------------- spec on an implementation run *)
let find_sub (s : string) (pat : string) : int =
  let n = Stdlib.String.length s and m = Stdlib.String.length pat in
  let rec go i = if i + m > n then -1 else if Stdlib.String.sub s i m = pat then i else go (i + 1) in
  go 0

let field (line : string) (name : string) : string =
  let parts = Stdlib.String.split_on_char ';' line in
  let pre = name ^ "=" in
  let pl = Stdlib.String.length pre in
  (* `steps=` spans several ;-separated records: take everything up to `;exec=` *)
  if name = "steps" then begin
    let i = find_sub line "steps=" in
    let j = find_sub line ";exec=" in
    if i < 0 || j < 0 then "" else Stdlib.String.sub line (i + 6) (j - i - 6)
  end else
    match Stdlib.List.find_opt (fun p -> Stdlib.String.length p >= pl && Stdlib.String.sub p 0 pl = pre) parts with
    | Some p -> Stdlib.String.sub p pl (Stdlib.String.length p - pl)
    | None -> ""

let spec_pool (script : op list) (line : string) : string =
  let payloads = Stdlib.List.filter_map (fun o -> match o with OS p -> Some p | _ -> None) script in
  let spawned = Stdlib.List.mapi (fun k p -> (n_of_int k, n_of_int p)) payloads in
  let steps = Stdlib.String.split_on_char ';' (field line "steps") in
  let events = Stdlib.List.concat_map (fun r ->
      match Stdlib.String.split_on_char '|' r with
      | [_; _; _; _; _; _; ev] -> if ev = "-" then [] else Stdlib.String.split_on_char '+' ev
      | _ -> ["?"]) steps in
  let joins = ref [] and unwraps = ref [] and ns = ref 0 and nj = ref 0 and bad = ref "" in
  Stdlib.List.iter (fun e ->
    if e = "" then () else
    match e.[0] with
    | 'S' -> incr ns
    | 'J' -> (match Stdlib.String.split_on_char '=' (Stdlib.String.sub e 1 (Stdlib.String.length e - 1)) with
        | [k; v] -> incr nj;
          (match int_of_string_opt v with
           | Some v -> joins := (n_of_int (int_of_string k), n_of_int v) :: !joins
           | None -> bad := "join returned an error")
        | _ -> bad := "unparsable join event")
    | 'U' -> unwraps := ((!ns = !nj), (e = Printf.sprintf "U=ok%d" salt)) :: !unwraps
    | 'B' | 'D' -> ()
    | _ -> bad := "unparsable event " ^ e) events;
  let execs = Stdlib.List.map (fun x -> if x = "" then 0 else int_of_string x)
      (Stdlib.String.split_on_char ',' (field line "exec")) in
  let exec_fn (w : n) : n = match Stdlib.List.nth_opt execs (ni w) with Some c -> n_of_int c | None -> n_of_int 99 in
  let clean = (field line "end" = "ok") && (match Stdlib.List.rev script with OD :: _ -> true | _ -> false) in
  let sm = { sm_spawned = spawned; sm_joins = Stdlib.List.rev !joins; sm_exec = exec_fn;
             sm_unwraps = Stdlib.List.rev !unwraps; sm_clean_end = clean } in
  if !bad <> "" then "FAIL " ^ !bad
  else if spec_ok jf sm then "OK"
  else begin
    let why = Buffer.create 64 in
    Stdlib.List.iter (fun (w, v) -> if not (join_ok jf sm (w, v)) then
      Buffer.add_string why (Printf.sprintf " join %d returned %d (its job yields %s, executed %d times)" (ni w) (ni v)
        (match lookupN w spawned with Some p -> string_of_int (job_value (ni p)) | None -> "?") (ni (exec_fn w)))) sm.sm_joins;
    Stdlib.List.iter (fun (w, _) -> if ni (exec_fn w) > 1 then
      Buffer.add_string why (Printf.sprintf " job %d executed %d times" (ni w) (ni (exec_fn w)))) spawned;
    Stdlib.List.iter (fun (a, b) -> if a && not b then Buffer.add_string why " unwrap failed although every handle was joined") sm.sm_unwraps;
    if not clean then Buffer.add_string why (" run ended with " ^ field line "end");
    "FAIL" ^ Buffer.contents why
  end

let rec split_at_bar (l : string list) : string list * string list =
  match l with
  | [] -> ([], [])
  | "|" :: r -> ([], r)
  | x :: r -> let (a, b) = split_at_bar r in (x :: a, b)

let () = iter_lines (fun line ->
  let ans =
    try
      match split_ws line with
      | "Q" :: ops -> cmd_queue ops
      | "P" :: nw :: script :: "|" :: "x" :: sched -> cmd_pool (int_of_string nw) (parse_script script) sched
      | "P" :: nw :: script :: "|" :: [] -> cmd_pool (int_of_string nw) (parse_script script) []
      | "PH" :: nw :: script :: "|" :: "x" :: sched ->
        let l = cmd_pool (int_of_string nw) (parse_script script) sched in
        let i = find_sub l ";end=" in
        Printf.sprintf "%d#%s" (hash_str 0 l) (Stdlib.String.sub l (i + 5) (Stdlib.String.length l - i - 5))
      | "X" :: nw :: script :: "|" :: budget :: red :: depth :: _ ->
        cmd_prefixes (int_of_string nw) (parse_script script) (int_of_string budget) (red = "1") (int_of_string depth)
      | "C" :: nw :: script :: "|" :: budget :: cap :: red :: _ ->
        cmd_count (int_of_string nw) (parse_script script) (int_of_string budget) (int_of_string cap) (red = "1")
      | "V" :: p :: [] -> string_of_int (job_value (int_of_string p))
      | "S" :: "Q" :: rest ->
        let rec sp l = match l with [] -> ([], "") | "=" :: a :: _ -> ([], a) | "=" :: [] -> ([], "") | x :: r -> let (o, a) = sp r in (x :: o, a) in
        let (ops, a) = sp rest in spec_queue ops a
      | "S" :: "P" :: _nw :: script :: "|" :: impl -> spec_pool (parse_script script) (Stdlib.String.concat " " impl)
      | _ -> "BADREQ"
    with e -> "DRIVER-ERROR " ^ Printexc.to_string e in
  print_endline ans)
