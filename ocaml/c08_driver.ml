(* C08 driver: one request per line on stdin, one canonical answer line on stdout.
     M <n>                 -> R=<v> | R=PANIC              (BrotliEncoderMaxCompressedSize)
     MM <n> <t>            -> R=<v> | R=PANIC              (...Multi)
     U <kind>:<len>:<seed> -> len=<L> h=<hash> [hex=..]    (MakeUncompressedStream; kinds p and z)
     C <n> <buf> <result> <finished> <total>  -> ret=<0|1> size=<s> src=<stream|stored|empty|none>   (encoder_compress)
     T <q> <lgwin> <lw> <cat> <app> <magic> <hint> <n> <final_empty> <len>:<end bit position> ...
                           -> bytes=<total|NONE> cfg=<0|1> sched=<0|1> blocks=<S|C..>  (stream accounting)
     S U <input> <impl answer>  -> OK | FAIL ...   (stored stream: within the bound; small ones decoded by the RFC reader) *)
let ns = n_of_string
let res_str = function Ok v -> string_of_n v | Panic -> "PANIC"
let gen_input kind len seed : int array =
  match kind with
  | "z" -> Array.make len (seed land 255)
  | _ -> Array.init len (fun i -> (7 * i + seed) land 255)
let parse_input s = match Stdlib.String.split_on_char ':' s with
  | [k; l; sd] -> (k, int_of_string l, int_of_string sd)
  | _ -> failwith "bad input spec"
(* expand the model's segments over the generated input without building Coq lists of the data *)
let stored_bytes (kind, len, seed) : Buffer.t =
  let inp = gen_input kind len seed in
  let segs = make_uncompressed_segments (n_of_int len) in
  let b = Buffer.create (len + 64) in
  Stdlib.List.iter (function
    | Lit bs -> Stdlib.List.iter (fun x -> Buffer.add_char b (Char.chr (int_of_n x))) bs
    | Copy (off, l) -> let o = int_of_n off and l = int_of_n l in
        for i = o to o + l - 1 do Buffer.add_char b (Char.chr inp.(i)) done) segs;
  b
let hash_buf (b : Buffer.t) = let h = ref 0 in Stdlib.String.iter (fun c -> h := hmix !h (Char.code c)) (Buffer.contents b); !h
let hex_buf (b : Buffer.t) = let o = Buffer.create 16 in Stdlib.String.iter (fun c -> Buffer.add_string o (Printf.sprintf "%02x" (Char.code c))) (Buffer.contents b); Buffer.contents o
let bo s = s <> "0"
let cfg_of q lgw lw cat app magic hint n =
  let p0 = { quality = z_of_int (int_of_string q); lgwin = z_of_int (int_of_string lgw); large_window = bo lw;
             catable = bo cat; appendable = bo app; use_dictionary = not (bo cat); magic_number = bo magic; size_hint = ns hint } in
  let p = sanitize p0 in
  let (_, nb) = encode_window_bits (header_lgwin p) p.large_window in
  let hl = Stdlib.List.length (encode_base_128 (update_size_hint p.size_hint (ns n) N0)) in
  { s_wbits = nb; s_magic = p.magic_number; s_hintlen = n_of_int hl; s_catable = p.catable; s_appendable = p.appendable }
let () = iter_lines (fun line ->
  match split_ws line with
  | ["M"; n] -> print_endline ("R=" ^ res_str (max_compressed_size (ns n)))
  | ["MM"; n; t] -> print_endline ("R=" ^ res_str (max_compressed_size_multi (ns n) (ns t)))
  | ["U"; spec] ->
    let b = stored_bytes (parse_input spec) in
    let l = Buffer.length b in
    Printf.printf "len=%d h=%d%s\n" l (hash_buf b) (if l <= 600 then " hex=" ^ hex_buf b else "")
  | ["C"; n; buf; r; f; tot] ->
    (match encoder_compress (ns n) (ns buf) { in_result = bo r; in_finished = bo f; in_total = ns tot } with
     | Panic -> print_endline "PANIC"
     | Ok ((ret, size), src) ->
       Printf.printf "ret=%d size=%s src=%s\n" (if ret then 1 else 0) (string_of_n size)
         (match src with FromStream -> "stream" | StoredStream -> "stored" | EmptyStream -> "empty" | NoOutput -> "none"))
  | "T" :: q :: lgw :: lw :: cat :: app :: magic :: hint :: n :: fe :: blocks ->
    let c = cfg_of q lgw lw cat app magic hint n in
    let fe = bo fe in
    let nblocks = Stdlib.List.length blocks in
    let p = ref (header_end c (ns n)) in
    let forms = Buffer.create 16 in
    let bad = ref "" in
    let bs = Stdlib.List.mapi (fun i s ->
      match Stdlib.String.split_on_char ':' s with
      | [l; pe] ->
        let len = ns l and pend = ns pe in
        let last = (i = nblocks - 1) && not fe in
        let st = Stored len in
        let b =
          if after_block c !p st last = Some pend then (Buffer.add_char forms 'S'; st)
          else begin
            (* the bits of the compressed form are not observable when the block is followed by
               padding (is_last): take the smallest count that ends at the observed position *)
            let extra = if last then (if c.s_appendable then 9 else 7) else 0 in
            let w = N.sub pend (N.add !p (n_of_int extra)) in
            let cb = Compressed (len, w) in
            (match after_block c !p cb last with
             | Some pe' when pe' = pend -> Buffer.add_char forms 'C'
             | Some _ -> Buffer.add_char forms '?'; if !bad = "" then bad := Printf.sprintf "block %d: end position not reproducible" i
             | None -> Buffer.add_char forms '!'; if !bad = "" then bad := Printf.sprintf "block %d: compressed form exceeds the expansion guard" i);
            cb end in
        p := pend; b
      | _ -> failwith "bad block") blocks in
    let total = match stream_bytes c (ns n) bs fe with Some t -> string_of_n t | None -> "NONE" in
    Printf.printf "bytes=%s cfg=%d sched=%d blocks=%s%s\n" total (if scfg_ok c then 1 else 0)
      (if schedule_ok c (ns n) bs fe then 1 else 0) (Buffer.contents forms) (if !bad = "" then "" else " note=" ^ Stdlib.String.map (fun ch -> if ch = ' ' then '_' else ch) !bad)
  | "S" :: "U" :: spec :: ans ->
    let (kind, len, seed) = parse_input spec in
    let field k = Stdlib.List.fold_left (fun acc t -> match Stdlib.String.split_on_char '=' t with [a; v] when a = k -> Some v | _ -> acc) None ans in
    (match field "len", max_compressed_size (n_of_int len) with
     | Some l, Ok bnd when int_of_string l <= int_of_n bnd ->
       (match field "hex" with
        | Some hx ->
          let inp = Array.to_list (gen_input kind len seed) in
          (match rfc_read_stored_stream (Stdlib.List.map n_of_int (hex_to_ints hx)) with
           | Some d when Stdlib.List.map int_of_n d = inp -> print_endline "OK"
           | _ -> print_endline "FAIL the RFC reader does not decode the stored stream to the input")
        | None -> print_endline "OK")
     | Some _, Ok _ -> print_endline "FAIL stored stream longer than the advertised bound"
     | _ -> print_endline "FAIL no length / bound")
  | [] -> ()
  | _ -> print_endline "BADREQ")
