(* C09 driver: one request per line on stdin, one answer line on stdout.

   S <events>                         executable specification (spec/Ledger.v `replay` + `returnedb`)
                                      applied to an allocator log of the implementation:
                                      OK | FAIL live=.. foreign=.. stray=.. dropped=.. dup=..
   B <events>;<events>;...            canonical ledger state after each boundary of a log
   M k=v ... H=<ops> [T=<temps>]      run the extracted model (model/Alloc.v); canonical state after
                                      every operation, then `#` and the final state computed by the
                                      top-level Coq function the theorems are about

   events : comma list  A<id>.<inst>.<ty>.<len>  F<id>.<inst>  D<id>        ("-" = none)
   state  : <live>|<foreign>,<stray>,<dropped>,<dup>|<slots>|<params>
            live  = sorted  inst.ty.len  joined by ','
            slots = st,cm,rb,h,lt,cb,lb   each the '+'-joined block lengths of the field *)
let i = int_of_string
let sp c s = Stdlib.List.filter (fun x -> x <> "") (Stdlib.String.split_on_char c s)

let ty_names = [| "U8"; "U16"; "I32"; "U32"; "U64"; "Cmd"; "F32"; "V8"; "S16"; "PDF"; "SC"; "HL"; "HC";
                  "HD"; "HP"; "CT"; "HT"; "ZN"; "State"; "B" |]
let ty_of_string (s : string) : ety =
  let r = ref 19 in
  Array.iteri (fun k n -> if n = s then r := k) ty_names;
  ety_of_code (n_of_int !r)
let string_of_ty (t : ety) : string = ty_names.(int_of_n (ety_code t))

(* ---------------------------------------------------------------- events *)
let parse_ev (s : string) : ev =
  let body = Stdlib.String.sub s 1 (Stdlib.String.length s - 1) in
  let f = Stdlib.String.split_on_char '.' body in
  match s.[0], f with
  | 'A', [id; inst; ty; len] -> EvAlloc (n_of_int (i id), n_of_int (i inst), ty_of_string ty, n_of_int (i len))
  | 'F', [id; inst] -> EvFree (n_of_int (i id), n_of_int (i inst))
  | 'D', [id] -> EvDrop (n_of_int (i id))
  | _ -> failwith ("bad event " ^ s)
let parse_evs (s : string) : ev list =
  if s = "-" || s = "" then [] else Stdlib.List.map parse_ev (sp ',' s)

let canon_live (l : ledger) : string =
  let xs = Stdlib.List.map (fun b -> Printf.sprintf "%d.%s.%d" (int_of_n b.binst) (string_of_ty b.bty) (int_of_n b.blen)) l.live in
  Stdlib.String.concat "," (Stdlib.List.sort compare xs)
let canon_faults (l : ledger) : string =
  Printf.sprintf "%d,%d,%d,%d" (int_of_n (count_faults is_foreign l)) (int_of_n (count_faults is_stray l))
    (int_of_n (count_faults is_dropped l)) (int_of_n (count_faults is_dup l))
let canon_ledger (l : ledger) : string = canon_live l ^ "|" ^ canon_faults l

let spec_verdict (l : ledger) : string =
  if returnedb l then "OK"
  else Printf.sprintf "FAIL live=%d foreign=%d stray=%d dropped=%d dup=%d first=%s"
         (Stdlib.List.length l.live) (int_of_n (count_faults is_foreign l)) (int_of_n (count_faults is_stray l))
         (int_of_n (count_faults is_dropped l)) (int_of_n (count_faults is_dup l))
         (match Stdlib.List.rev l.live with b :: _ -> Printf.sprintf "%d.%s.%d" (int_of_n b.binst) (string_of_ty b.bty) (int_of_n b.blen) | [] -> "-")

(* ---------------------------------------------------------------- model requests *)
let kv (toks : string list) : (string * string) list =
  Stdlib.List.filter_map (fun t ->
    match Stdlib.String.index_opt t '=' with
    | Some p -> Some (Stdlib.String.sub t 0 p, Stdlib.String.sub t (p + 1) (Stdlib.String.length t - p - 1))
    | None -> None) toks
let get d k l = try Stdlib.List.assoc k l with Not_found -> d

let parse_shapes (s : string) : (ety * n) list =
  if s = "-" || s = "" then [] else
  Stdlib.List.map (fun x -> match Stdlib.String.split_on_char '_' x with
    | [t; len] -> (ty_of_string t, n_of_int (i len)) | _ -> failwith ("bad shape " ^ x)) (sp '+' s)
let parse_nums (s : string) : n list =
  if s = "-" || s = "" then [] else Stdlib.List.map (fun x -> n_of_int (i x)) (sp '+' s)

let callee_of (c : int) : callee =
  match c with 0 -> CFragmentFast | 1 -> CFragmentTwoPass | 2 -> CBackwardRefs | _ -> CWriteMetaBlock
let tail s = Stdlib.String.sub s 1 (Stdlib.String.length s - 1)

let parse_phase (s : string) : phase =
  match s.[0] with
  | 'U' -> PhSizeHint (n_of_int (i (tail s)))
  | 'R' -> PhRingInit (n_of_int (i (tail s)))
  | 'G' -> PhStorage (n_of_int (i (tail s)))
  | 'C' -> (match Stdlib.String.split_on_char '_' (tail s) with
            | [a; b] -> PhCommands (n_of_int (i a), n_of_int (i b)) | _ -> failwith "bad C")
  | 'H' -> PhHasherSetup
  | 'T' -> PhTable (n_of_int (i (tail s)))
  | 'Q' -> PhQ1Bufs
  | 't' -> (match Stdlib.String.split_on_char '_' (tail s) with
            | [c; k] -> PhTemp (callee_of (i c), n_of_int (i k)) | _ -> failwith "bad t")
  | _ -> failwith ("bad phase " ^ s)
let parse_fphase (s : string) : fphase =
  match s.[0] with
  | 'G' -> FpStorage (n_of_int (i (tail s)))
  | 'T' -> FpTable (n_of_int (i (tail s)))
  | 't' -> (match Stdlib.String.split_on_char '_' (tail s) with
            | [c; k] -> FpTemp (callee_of (i c), n_of_int (i k)) | _ -> failwith "bad t")
  | _ -> failwith ("bad fphase " ^ s)

let pname_of (c : char) : pname =
  match c with 'q' -> PQuality | 'w' -> PLgwin | 'b' -> PLgblock | 'h' -> PSizeHint | '5' -> PQ95
             | 'c' -> PCatable | 'l' -> PLargeWindow | _ -> POther

let parse_op (s : string) : op =
  match s.[0] with
  | 'P' -> (match Stdlib.String.split_on_char ':' (tail s) with
            | [nm; v] -> OSetParam (pname_of nm.[0], n_of_int (i v)) | _ -> failwith "bad P")
  | 'D' -> (match Stdlib.String.split_on_char ':' (tail s) with
            | [size; oinst; shapes; rings] -> OSetDict (n_of_int (i size), n_of_int (i oinst), parse_shapes shapes, parse_nums rings)
            | _ -> failwith "bad D")
  | 'I' -> (match Stdlib.String.split_on_char ':' (tail s) with
            | [inst; shapes] -> OInstallHasher (n_of_int (i inst), parse_shapes shapes) | _ -> failwith "bad I")
  | 'S' -> OStream (Stdlib.List.map parse_phase (sp '+' (tail s)))
  | 'F' -> (match Stdlib.String.split_on_char ':' (tail s) with
            | [n] -> OStreamFast (n_of_int (i n), [])
            | [n; ph] -> OStreamFast (n_of_int (i n), Stdlib.List.map parse_fphase (sp '+' ph))
            | _ -> failwith "bad F")
  | 'O' -> OTakeOutput
  | 'X' -> OCleanup
  | _ -> failwith ("bad op " ^ s)
let parse_ops (s : string) : op list =
  if s = "-" || s = "" then [] else Stdlib.List.map parse_op (sp ';' s)

let parse_tstep (s : string) : tstep =
  match s.[0] with
  | 'a' -> (match Stdlib.String.split_on_char '_' (tail s) with
            | [t; len] -> TAlloc (ty_of_string t, n_of_int (i len)) | _ -> failwith "bad a")
  | 'f' -> TFree (nat_of_int (i (tail s)))
  | _ -> failwith ("bad tstep " ^ s)
let parse_temps (s : string) : (callee -> n -> tstep list) =
  let tab = if s = "-" || s = "" then [||] else
      Array.of_list (Stdlib.List.map (fun tr -> if tr = "e" then [] else Stdlib.List.map parse_tstep (sp '.' tr))
                       (Stdlib.String.split_on_char '/' s)) in
  fun _ k -> let k = int_of_n k in if k < Array.length tab then tab.(k) else []

let lens (bs : blk list) : string =
  if bs = [] then "0" else Stdlib.String.concat "+" (Stdlib.List.map (fun b -> string_of_int (int_of_n b.blen)) bs)
let canon_state ((e, l) : st) : string =
  Printf.sprintf "%s|%s,%s,%s,%s,%s,%s,%s|%d,%d,%d,%d,%d,%d" (canon_ledger l)
    (lens (e.slot FStorage)) (lens (e.slot FCommands)) (lens (e.slot FRing)) (lens (e.slot FHasher))
    (lens (e.slot FLargeTable)) (lens (e.slot FCommandBuf)) (lens (e.slot FLiteralBuf))
    (int_of_n e.quality) (int_of_n e.lgwin) (int_of_n e.lgblock) (int_of_n e.size_hint)
    (int_of_n e.hp.h_type) (if e.initialized then 1 else 0)

let version_of (s : string) : version =
  let dbg = Stdlib.String.length s > 3 && s.[3] = 'd' in
  if Stdlib.String.sub s 0 3 = "leg" then legacy dbg else current dbg

let parse_thread (s : string) : thread_spec =
  match Stdlib.String.split_on_char '~' s with
  | [mx; params; dict; rings; calls; ok] ->
    { t_max = n_of_int (i mx); t_params = parse_ops params; t_dict = n_of_int (i dict);
      t_rings = parse_nums rings; t_calls = parse_ops calls; t_ok = (ok = "1") }
  | _ -> failwith ("bad thread " ^ s)

let model (toks : string list) : string =
  let a = kv toks in
  let ver = version_of (get "curd" "ver" a) in
  let temps = parse_temps (get "-" "T" a) in
  let h = parse_ops (get "-" "H" a) in
  let kind = get "raw" "kind" a in
  let steps (s0 : st) : string list =
    let s = ref s0 in
    Stdlib.List.map (fun o -> s := run_op temps ver o !s; canon_state !s) h in
  let join xs fin = Stdlib.String.concat ";" xs ^ "#" ^ canon_ledger fin in
  match kind with
  | "raw" ->
    let clean = get "0" "clean" a = "1" in
    join (steps (new_enc N0, empty_ledger)) (instance_life temps ver N0 h clean empty_ledger)
  | "ffi" ->
    let custom = get "1" "custom" a = "1" in
    let ssize = n_of_int (i (get "0" "ssize" a)) in
    let l0 = if custom then Stdlib.snd (l_alloc N0 EState ssize empty_ledger) else empty_ledger in
    join (steps (new_enc N0, l0)) (ffi_life temps ver custom ssize h)
  | "writer" | "reader" ->
    let q = n_of_int (i (get "5" "q" a)) and w = n_of_int (i (get "18" "w" a)) in
    let s0 = run temps ver [OSetParam (PQuality, q); OSetParam (PLgwin, w)] (new_enc N0, empty_ledger) in
    join (canon_state s0 :: steps s0)
      (if kind = "writer" then writer_life temps ver q w h else reader_life temps ver q w h)
  | "copy" ->
    let x = match get "f" "exit" a with
      | "w" -> XWriteError | "z" -> XZeroWrite | "wp" -> XWriteErrorReadPending | "zp" -> XZeroWriteReadPending
      | "n" -> XNoProgress | _ -> XFinished in
    join [] (copy_life temps ver [] [] h x)
  | "oneshot" ->
    let q = n_of_int (i (get "5" "q" a)) and w = n_of_int (i (get "18" "w" a)) in
    join [] (oneshot_life temps ver q w (get "0" "triv" a = "1") h)
  | "single" ->
    (match Stdlib.List.rev h with
     | call :: rp -> join [] (ffi_single_life temps ver (Stdlib.List.rev rp) call)
     | [] -> failwith "single needs a call")
  | "multi" ->
    let sh =
      if get "-" "sh" a = "auto" then
        (* CompressMulti builds the precomputed hasher with hasher_setup on the sanitised parameters *)
        let q = sane_quality (n_of_int (i (get "5" "q" a))) in
        let w = sane_lgwin (n_of_int (i (get "18" "w" a))) false in
        hasher_blocks (choose_hasher q (get "0" "q95" a = "1") (n_of_int (i (get "0" "hint" a))) w default_hp) w
      else parse_shapes (get "-" "sh" a) in
    let ts = Stdlib.List.map parse_thread (sp '#' (get "" "TS" a)) in
    let slice = i (get "-1" "slice" a) in
    let jf = i (get "-1" "joinfail" a) in
    if jf >= 0 then join [] (multi_life_joinfail temps ver sh ts (nat_of_int jf))
    else if slice >= 0 then join [] (multi_slice_life temps ver sh (n_of_int slice) ts)
    else join [] (multi_life temps ver sh ts empty_ledger)
  | _ -> "BADKIND"

let () =
  iter_lines (fun line ->
    let toks = split_ws line in
    let ans =
      try
        match toks with
        | "S" :: rest -> spec_verdict (replay (parse_evs (Stdlib.String.concat "," (Stdlib.List.filter (fun x -> x <> "-") rest))))
        | ["B"; segs] ->
          let l = ref empty_ledger in
          Stdlib.String.concat ";" (Stdlib.List.map (fun seg ->
            l := Stdlib.List.fold_left apply_ev !l (parse_evs seg); canon_ledger !l) (Stdlib.String.split_on_char ';' segs))
        | "M" :: rest -> model rest
        | _ -> "BADREQ"
      with e -> "DRIVER-ERROR(" ^ Printexc.to_string e ^ ")" in
    print_string ans; print_newline ())
