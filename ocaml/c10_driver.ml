(* C10 driver.  One request per line:
     M <v> <size> <q_raw> <lgwin_raw> <large_window 0/1> <use_dictionary 0/1> <last byte> <last-but-one byte>
         v = fixed | unfixed.  Model of set_custom_dictionary and of the decoder's set-up:
         "ENC ip=<kept> nbe=<kept> custom= sc=<early return taken> ud= lgwin= q= pb= pb2= ; DEC wbits= cds= mbd="  or  "PANIC"
     S <q sanitized> <bytes the encoder kept> <bytes the decoder kept>
         the conclusion of C10_positions on observed values: OK | FAIL ... *)
let b2i b = if b then 1 else 0
let () = iter_lines (fun line ->
  match split_ws line with
  | ["M"; v; size; q; lgwin; lw; ud; l1; l2] ->
    let f = if v = "unfixed" then enc_dict_setup_unfixed else enc_dict_setup in
    let size' = n_of_string size in
    (match f size' (z_of_int (int_of_string q)) (n_of_string lgwin) (lw = "1") (ud = "1") with
     | DPanic -> print_endline "PANIC"
     | DOk e ->
       let qs = sanitize_quality (z_of_int (int_of_string q)) in
       let wb = header_wbits qs e.e_lgwin in
       let d = dec_dict_setup size' wb in
       let (pb, pb2) = enc_prev_bytes e.e_kept (n_of_string l1) (n_of_string l2) in
       Printf.printf "ENC ip=%s nbe=%s custom=%d sc=%d ud=%d lgwin=%d q=%d pb=%d pb2=%d ; DEC wbits=%d cds=%s mbd=%s\n"
         (string_of_n e.e_kept) (string_of_n e.e_kept) (b2i e.e_custom) (b2i e.e_selfcontained) (b2i e.e_static)
         (int_of_n e.e_lgwin) (int_of_n qs) (int_of_n pb) (int_of_n pb2) (int_of_n wb) (string_of_n d.d_kept) (string_of_n d.d_mbd))
  | ["S"; q; ek; dk] ->
    if positions_ok (n_of_string q) (n_of_string ek) (n_of_string dk) then print_endline "OK"
    else Printf.printf "FAIL encoder-keeps-%s-dictionary-bytes-decoder-%s-at-quality-%s\n" ek dk q
  | [] -> ()
  | _ -> print_endline "BADREQ")
