(* C11 driver: runs the extracted adapter models (coq/model/IO.v) on the request lines of
   harness/src/bin/c11.rs and prints the same canonical answer (the part before " # ").
   The model's abstract encoder (Section variables enc_step / enc_finished / enc_more) is
   instantiated with the REAL encoder: a child process `c11 --encserver` (path in $C11_ENCSERVER)
   answers every compress_stream call; every answer is checked against the contract clauses the
   theorems assume (consumed <= avail_in, produced <= avail_out, progress, finished is absorbing,
   no finish without output space).
     S <adapter> <closeidx> res=.. faults=.. allok=.. dec=.. ref=..   -> spec/IOSpec.v on an answer of the implementation *)

let fuel = nat_of_int 400_000
let spins = ref 0

(* ---------------------------------------------------------------- real encoder behind a pipe *)
type est = { tok : int; fin : bool; more : bool }
let srv : (in_channel * out_channel) option ref = ref None
let cur = ref 0
let ncalls = ref 0
let nviol = ref 0
let first_viol = ref ""
let server () = match !srv with
  | Some s -> s
  | None ->
    let exe = try Sys.getenv "C11_ENCSERVER" with Not_found -> failwith "C11_ENCSERVER not set" in
    let s = Unix.open_process (if Filename.check_suffix exe ".sh" then exe else exe ^ " --encserver") in srv := Some s; s
let ask line =
  let (ic, oc) = server () in
  output_string oc line; output_char oc (Char.chr 10); Stdlib.flush oc; input_line ic
let hex_of_bytes (l : byte list) : string =
  match l with [] -> "-" | _ ->
  let b = Buffer.create 64 in
  Stdlib.List.iter (fun x -> Buffer.add_string b (Printf.sprintf "%02x" (int_of_n x))) l; Buffer.contents b
let byte_tab = Array.init 256 n_of_int
let bytes_of_hex (s : string) : byte list =
  if s = "-" then [] else
  let l = Stdlib.String.length s / 2 in
  let rec go i acc = if i < 0 then acc else
    go (i - 1) (byte_tab.(int_of_string ("0x" ^ Stdlib.String.sub s (2 * i) 2)) :: acc) in
  go (l - 1) []
let enc_new q lgwin =
  ignore (ask (Printf.sprintf "new %d %d" q lgwin)); cur := 0; { tok = 0; fin = false; more = false }
let viol why = incr nviol; if !first_viol = "" then first_viol := why
let enc_step (s : est) (o : op) (inp : byte list) (cap : nat) : est eans =
  if s.tok <> !cur then failwith "model used an encoder state twice";
  let capi = int_of_nat cap in
  let ops = (match o with Process -> "P" | Flush -> "L" | Finish -> "F") in
  let r = ask (Printf.sprintf "step %s %d %s" ops capi (hex_of_bytes inp)) in
  match split_ws r with
  | [c; ok; fin; more; prod] ->
    let c = int_of_string c and ok = (ok = "1") and fin = (fin = "1") and more = (more = "1") in
    let p = bytes_of_hex prod in
    let np = Stdlib.List.length p and ni = Stdlib.List.length inp in
    incr cur; incr ncalls;
    if c > ni then viol "consumed > avail_in";
    if np > capi then viol "produced > avail_out";
    if ok && capi > 0 then begin
      (match o with
       | Process -> if ni > 0 && c = 0 && np = 0 then viol "PROCESS made no progress"
       | Finish -> if ni = 0 && np = 0 && not fin then viol "FINISH made no progress"
       | Flush -> if ni = 0 && np = 0 && more then viol "FLUSH made no progress") end;
    if o = Process && ni > 0 && ok && fin && not s.fin then viol "PROCESS finished the stream";
    if s.fin && (not fin || c > 0 || np > 0) then viol "finished is not absorbing";
    if s.fin && ni = 0 && not ok then viol "finished encoder refused an empty call";
    if capi = 0 && (not s.fin) && fin then viol "finished without output space";
    if (not ok) && not (ni > 0 && (s.fin || s.more)) then viol ("refused a legal call " ^ ops);
    { ea_state = { tok = !cur; fin = fin; more = more }; ea_consumed = nat_of_int c; ea_produced = p; ea_ok = ok }
  | _ -> failwith ("encoder server: " ^ r)
let enc_finished (s : est) = s.fin
let enc_more (s : est) = s.more

(* ---------------------------------------------------------------- parsing *)
let parse_beh (s : string) : beh =
  match s.[0] with
  | 'F' -> Full | 'Z' -> Zero | 'I' -> Interrupted
  | 'S' -> Short (nat_of_int (int_of_string (Stdlib.String.sub s 1 (Stdlib.String.length s - 1))))
  | 'E' -> Fail (n_of_int (int_of_string (Stdlib.String.sub s 1 (Stdlib.String.length s - 1))))
  | _ -> failwith "bad behaviour"
let parse_script (s : string) : script =
  match Stdlib.String.split_on_char '/' s with
  | [l; t] -> { s_list = Stdlib.List.map parse_beh (Stdlib.List.filter (fun x -> x <> "") (Stdlib.String.split_on_char ',' l));
                s_tail = parse_beh t }
  | _ -> failwith "bad script"
let mk_source (hex : string) (sc : script) : source =
  { src_rest = bytes_of_hex hex; src_taken = []; src_script = sc; src_log = [] }
let mk_sink (sc : script) : sink = { k_got = []; k_script = sc; k_log = [] }

(* ---------------------------------------------------------------- canonical printing (as in c11.rs) *)
let rle (v : string list) : string =
  let rec go acc = function
    | [] -> Stdlib.List.rev acc
    | x :: tl ->
      let rec cnt k = function y :: r when y = x -> cnt (k + 1) r | r -> (k, r) in
      let (k, r) = cnt 1 tl in
      go ((if k > 1 then Printf.sprintf "%s*%d" x k else x) :: acc) r in
  match go [] v with [] -> "-" | l -> Stdlib.String.concat "," l
let hash_str h s = let h = ref h in Stdlib.String.iter (fun c -> h := hmix !h (Char.code c)) s; hmix !h 10
let clip (s : string) : string =
  if Stdlib.String.length s <= 600 then s
  else Printf.sprintf "%s..h%d" (Stdlib.String.sub s 0 600) (hash_str 0 s)
let bytes_sig (b : byte list) : string =
  let h = ref 0 and n = ref 0 in
  Stdlib.List.iter (fun x -> h := hmix !h (int_of_n x); incr n) b;
  let rec take k l = if k = 0 then [] else match l with [] -> [] | x :: r -> x :: take (k - 1) r in
  Printf.sprintf "%d:%d:%s" !n !h (hex_of_bytes (take 24 b))
let err_str = function
  | EScript c -> Printf.sprintf "eE%d" (int_of_n c)
  | EInvalidData -> "eINV" | EWriteZero -> "eWZ" | EUnexpectedEof -> "eEOF"
let panic_str w = match int_of_n w with
  | 1 -> "PANIC(unwrap-none)" | 2 -> "PANIC(index)" | 3 -> "PANIC(assert)" | k -> Printf.sprintf "PANIC(%d)" k
let res_str (okf : 'a -> string) (r : 'a res) : string =
  match r with Ok a -> okf a | Err e -> err_str e | Panic w -> panic_str w | OutOfFuel -> "H"
let ret_str = function RN n -> string_of_int (int_of_n n) | RInt -> "I" | RErr e -> Printf.sprintf "E%d" (int_of_n e)
let ev_str = function
  | EvIO (o, r) -> Printf.sprintf "%d>%s" (int_of_n o) (ret_str r)
  | EvFlush (RN _) -> "f>ok"
  | EvFlush r -> "f>" ^ ret_str r
let log_str (l : event list) : string = clip (rle (Stdlib.List.rev_map ev_str l))
let tail () = Printf.sprintf " # contract=%d:%d%s" !ncalls !nviol (if !first_viol = "" then "" else ":" ^ Stdlib.String.map (fun c -> if c = ' ' then '_' else c) !first_viol)

let ints_of s = Stdlib.List.map int_of_string (Stdlib.List.filter (fun x -> x <> "") (Stdlib.String.split_on_char ',' s))

let case_reader q lgwin staging src rs sizes =
  let st0 = enc_new q lgwin in
  let (sl, drain, maxr) = (match Stdlib.String.split_on_char '/' sizes with
    | [a; b; c] -> (ints_of a, int_of_string b, int_of_string c) | _ -> failwith "sizes") in
  let r0 = reader_new (reader_buffer_size (nat_of_int staging)) st0 (mk_source src (parse_script rs)) in
  let (rs, r) = read_session enc_step enc_finished fuel (nat_of_int maxr) (Stdlib.List.map nat_of_int sl) (nat_of_int drain) r0 in
  Printf.sprintf "res=%s rlog=%s out=%s"
    (rle (Stdlib.List.map (res_str (fun n -> Printf.sprintf "k%d" (int_of_nat n))) rs))
    (log_str r.r_src.src_log) (bytes_sig (emitted r.r_enc))

let parse_wop (s : string) : wop =
  match s.[0] with
  | 'w' -> WWrite (bytes_of_hex (Stdlib.String.sub s 1 (Stdlib.String.length s - 1)))
  | 'f' -> WFlush
  | _ -> WClose
let case_writer q lgwin obuf ws ops =
  let st0 = enc_new q lgwin in
  let opl = Stdlib.List.filter (fun x -> x <> "") (Stdlib.String.split_on_char ',' ops) in
  let w0 = writer_new (writer_buffer_size (nat_of_int obuf)) st0 (mk_sink (parse_script ws)) in
  let (rs, w) = write_session enc_step enc_finished enc_more fuel (Stdlib.List.map parse_wop opl) w0 in
  (* the harness prints Ok(n) of a write as k<n>, of flush / close as k *)
  let rec pr rs ops = match rs, ops with
    | r :: rs', o :: ops' ->
      (match r with
       | Ok () -> (if o.[0] = 'w' then Printf.sprintf "k%d" ((Stdlib.String.length o - 1) / 2) else "k")
       | _ -> res_str (fun () -> "k") r) :: pr rs' ops'
    | _, _ -> [] in
  Printf.sprintf "res=%s wlog=%s sink=%s" (rle (pr rs opl)) (log_str w.w_sink.k_log) (bytes_sig (sink_bytes w.w_sink))

let case_copy q lgwin ibuf obuf src rs ws =
  let st0 = enc_new q lgwin in
  let c0 = copier_new (nat_of_int ibuf) (nat_of_int obuf) st0 (mk_source src (parse_script rs)) (mk_sink (parse_script ws)) in
  let (r, c) = copy enc_step enc_finished fuel c0 in
  Printf.sprintf "res=%s rlog=%s wlog=%s sink=%s"
    (res_str (fun n -> Printf.sprintf "k%d" (int_of_n n)) r)
    (log_str c.c_src.src_log) (log_str c.c_sink.k_log) (bytes_sig (sink_bytes c.c_sink))

let case_write_all ws ez ei buf =
  let b = bytes_of_hex buf in
  let o = write_all (nat_of_int (Stdlib.List.length b + 1)) (mk_sink (parse_script ws)) b (ez = "1") (ei = "1") in
  Printf.sprintf "res=%s wlog=%s sink=%s left=%d%d"
    (res_str (fun () -> "k") o.wa_res) (log_str o.wa_sink.k_log) (bytes_sig (sink_bytes o.wa_sink))
    (if o.wa_ez then 1 else 0) (if o.wa_ei then 1 else 0)

(* ---------------------------------------------------------------- spec on an answer of the implementation *)
let kv (toks : string list) (k : string) : string =
  let p = k ^ "=" in
  let pl = Stdlib.String.length p in
  match Stdlib.List.filter (fun t -> Stdlib.String.length t >= pl && Stdlib.String.sub t 0 pl = p) toks with
  | t :: _ -> Stdlib.String.sub t pl (Stdlib.String.length t - pl)
  | [] -> "-"
let unrle (s : string) : string list =
  if s = "-" then [] else
  Stdlib.List.concat_map (fun t ->
    match Stdlib.String.rindex_opt t '*' with
    | Some i when not (Stdlib.String.length t > 5 && Stdlib.String.sub t 0 5 = "PANIC") ->
      let k = int_of_string (Stdlib.String.sub t (i + 1) (Stdlib.String.length t - i - 1)) in
      Stdlib.List.init k (fun _ -> Stdlib.String.sub t 0 i)
    | _ -> [t]) (Stdlib.String.split_on_char ',' s)
let ores_of (closeidx : int) (i : int) (s : string) : ores =
  if s = "H" || s = "HANG" || s = "ABORT" then OHang
  else if Stdlib.String.length s >= 5 && Stdlib.String.sub s 0 5 = "PANIC" then OPanic
  else if s.[0] = 'k' then (if i = closeidx then ONoReport else OOk)
  else if Stdlib.String.length s >= 3 && Stdlib.String.sub s 0 2 = "eE" && s <> "eEOF" then
    OErrScript (n_of_int (int_of_string (Stdlib.String.sub s 2 (Stdlib.String.length s - 2))))
  else OErrOther
let fault_of (s : string) : fault * nat =
  match Stdlib.String.split_on_char '@' s with
  | [f; i] -> ((if f = "Z" then FZero else FErr (n_of_int (int_of_string (Stdlib.String.sub f 1 (Stdlib.String.length f - 1))))),
               nat_of_int (int_of_string i))
  | _ -> failwith "fault"
let optb = function "ok" | "same" -> Some true | "bad" | "diff" -> Some false | _ -> None
let spec_line (toks : string list) : string =
  match toks with
  | _adapter :: closeidx :: rest ->
    let closeidx = int_of_string closeidx in
    let results = Stdlib.List.mapi (ores_of closeidx) (unrle (kv rest "res")) in
    let fs = kv rest "faults" in
    let faults = if fs = "-" then [] else Stdlib.List.map fault_of (Stdlib.String.split_on_char ',' fs) in
    let o = { o_results = results; o_faults = faults; o_all_ok = (kv rest "allok" = "1");
              o_input_exhausted = (kv rest "eofseen" <> "0");
              o_decodes = optb (kv rest "dec"); o_same_as_unscripted = optb (kv rest "ref") } in
    (match spec_check o with
     | VOk -> "OK"
     | VHang i -> Printf.sprintf "FAIL hang %d" (int_of_nat i)
     | VPanic i -> Printf.sprintf "FAIL panic %d" (int_of_nat i)
     | VSwallowed i -> Printf.sprintf "FAIL swallowed %d" (int_of_nat i)
     | VNoReport i -> Printf.sprintf "FAIL noreport %d" (int_of_nat i)
     | VWrongError i -> Printf.sprintf "FAIL wrongerror %d" (int_of_nat i)
     | VTruncated -> "FAIL truncated -1"
     | VBytesChanged -> "FAIL byteschanged -1"
     | VBadStream -> "FAIL badstream -1")
  | _ -> "BADREQ"

let contains_h (a : string) : bool =
  (* a result list that contains the out-of-fuel marker H (",H" / "=H") *)
  let n = Stdlib.String.length a in
  let rec go i = i + 1 < n && (((a.[i] = '=' || a.[i] = ',') && a.[i+1] = 'H' && (i + 2 >= n || a.[i+2] = ' ' || a.[i+2] = ',')) || go (i + 1)) in
  go 0
let () = iter_lines (fun line ->
  let ans =
    try
      (match split_ws line with
       | ("R" | "W" | "C") :: _ when !spins >= 2 -> "res=SKIPPED # out-of-fuel budget of this shard exhausted"
       | ["R"; q; lgwin; staging; src; rs; sizes] ->
         let a = case_reader (int_of_string q) (int_of_string lgwin) (int_of_string staging) src rs sizes in a ^ tail ()
       | ["W"; q; lgwin; obuf; ws; ops] ->
         let a = case_writer (int_of_string q) (int_of_string lgwin) (int_of_string obuf) ws ops in a ^ tail ()
       | ["C"; q; lgwin; ibuf; obuf; src; rs; ws] ->
         let a = case_copy (int_of_string q) (int_of_string lgwin) (int_of_string ibuf) (int_of_string obuf) src rs ws in a ^ tail ()
       | ["A"; ws; ez; ei; buf] -> case_write_all ws ez ei buf ^ " # contract=0:0"
       | "S" :: rest -> spec_line rest
       | _ -> "BADREQ")
    with e -> "TOOL-ERROR " ^ Stdlib.String.map (fun c -> if c = '\n' then ' ' else c) (Printexc.to_string e) in
  ncalls := 0; nviol := 0; first_viol := "";
  (match split_ws line with ("R" | "W" | "C") :: _ when contains_h ans -> incr spins | _ -> ());
  print_endline ans)
