(* C14 driver.  argv[1] = dictionary/transform data written by tools/gen_c14_dict.py.
   One request per line:
     M <harness answer line>   model: run `recode` on the encoder's own command list of every
                               meta-block record; answer  "<h|PANIC:<p>|FUEL|SKIP>,..."  where h is the
                               hash of the canonical IR string (same format as the harness's ir=)
                               followed by ":" and the new num_bytes_encoded, ":" the number of literal block
                               types pushed, ":" 1/0 = StrideEval::choose_stride's assertion holds for that number
     S <harness answer line>   spec: replay the implementation's IR with the extracted ir_run
                               (history = custom dictionary ++ everything before); OK | FAIL mb=<k> <why>
     A <eff> <harness answer line>   the three answers below joined by " | "
     W <eff> <harness answer line>   (eff = dictionary bytes the encoder put before the input) hypothesis of C14_recode on the implementation's command lists
                               (extracted cmds_ok): OK <n> | FAIL mb=<k>
     X <word_size> <word_id> <transform>   dict_expand -> hex | NONE *)
let dict_bytes, dict_offsets, transforms =
  let path = if Array.length Sys.argv > 1 then Sys.argv.(1) else "dict.txt" in
  let ic = open_in path in
  let hexline = input_line ic in
  let offs = Array.of_list (Stdlib.List.map int_of_string (split_ws (input_line ic))) in
  let n = Stdlib.String.length hexline / 2 in
  let b = Bytes.create n in
  for i = 0 to n - 1 do
    Bytes.set b i (Char.chr (int_of_string ("0x" ^ Stdlib.String.sub hexline (2 * i) 2)))
  done;
  let trs = ref [] in
  (try while true do
     match split_ws (input_line ic) with
     | [p; t; s] ->
       let bytes h = if h = "-" then [] else Stdlib.List.map n_of_int (hex_to_ints h) in
       trs := ((bytes p, n_of_int (int_of_string t)), bytes s) :: !trs
     | _ -> ()
   done with End_of_file -> ());
  close_in ic;
  (b, offs, Stdlib.List.rev !trs)

let byte_n = Array.init 256 n_of_int
let dict_word (ws : n) (id : n) : n list =
  let ws = int_of_n ws and id = int_of_n id in
  if ws < 0 || ws > 24 then [] else
  let off = dict_offsets.(ws) + ws * id in
  if off + ws > Bytes.length dict_bytes then [] else
  Stdlib.List.init ws (fun i -> byte_n.(Char.code (Bytes.get dict_bytes (off + i))))

let bytes_of_hex h : n list =
  if h = "-" then [] else
  let l = Stdlib.String.length h / 2 in
  let rec go i acc = if i < 0 then acc else
      go (i - 1) (byte_n.(int_of_string ("0x" ^ Stdlib.String.sub h (2 * i) 2)) :: acc) in
  go (l - 1) []
let raw_of_hex h : Bytes.t =
  if h = "-" then Bytes.empty else
  let l = Stdlib.String.length h / 2 in
  Bytes.init l (fun i -> Char.chr (int_of_string ("0x" ^ Stdlib.String.sub h (2 * i) 2)))

(* ---- parsing the harness line ---- *)
let split_on (sep : string) (s : string) : string list =
  let ls = Stdlib.String.length sep and n = Stdlib.String.length s in
  let rec go start i acc =
    if i + ls > n then Stdlib.List.rev (Stdlib.String.sub s start (n - start) :: acc)
    else if Stdlib.String.sub s i ls = sep then go (i + ls) (i + ls) (Stdlib.String.sub s start (i - start) :: acc)
    else go start (i + 1) acc in
  go 0 0 []
let kv (rec_ : string) : (string * string) list =
  Stdlib.List.filter_map (fun t ->
      match Stdlib.String.index_opt t '=' with
      | Some i -> Some (Stdlib.String.sub t 0 i, Stdlib.String.sub t (i + 1) (Stdlib.String.length t - i - 1))
      | None -> None) (split_ws rec_)
let get k l = try Stdlib.List.assoc k l with Not_found -> ""
let has k l = Stdlib.List.mem_assoc k l
let ints sep s = if s = "" || s = "-" then [] else Stdlib.List.map int_of_string (Stdlib.String.split_on_char sep s)

let parse_split (s : string) : bsplit =
  (* <ntypes>/<t:l,t:l> *)
  match Stdlib.String.split_on_char '/' s with
  | [nt; items] ->
    let items = if Stdlib.String.length items > 0 && items.[Stdlib.String.length items - 1] = '!' then Stdlib.String.sub items 0 (Stdlib.String.length items - 1) else items in
    let pairs = if items = "" then [] else
        Stdlib.List.map (fun it -> match Stdlib.String.split_on_char ':' it with
            | [t; l] -> (n_of_int (int_of_string t), n_of_int (int_of_string l)) | _ -> failwith "split item")
          (Stdlib.String.split_on_char ',' items) in
    { bs_types = Stdlib.List.map fst pairs; bs_lengths = Stdlib.List.map snd pairs; bs_num_types = n_of_int (int_of_string nt) }
  | _ -> failwith "split"
let parse_cmds (s : string) : command list =
  if s = "-" || s = "" then [] else
  Stdlib.List.map (fun it -> match Stdlib.List.map int_of_string (Stdlib.String.split_on_char '.' it) with
      | [a; b; c; d; e] -> { insert_len_ = n_of_int a; copy_len_ = n_of_int b; dist_extra_ = n_of_int c; cmd_prefix_ = n_of_int d; dist_prefix_ = n_of_int e }
      | _ -> failwith "cmd") (Stdlib.String.split_on_char ',' s)
let parse_ir (s : string) : ir_cmd list =
  if s = "-" || s = "" then [] else
  Stdlib.List.map (fun it ->
      let h = it.[0] and f = Stdlib.List.map (fun x -> n_of_int (int_of_string x))
                  (Stdlib.String.split_on_char ':' (Stdlib.String.sub it 1 (Stdlib.String.length it - 1))) in
      match h, f with
      | 'c', [d; n] -> IrCopy (d, n)
      | 'd', [ws; tr; fs; e; id] -> IrDict (ws, tr, fs, e, id)
      | 'l', [o; n; he] -> IrLiteral (o, n, he <> N0)
      | 'L', [t; st] -> IrBlockSwitchLiteral (t, st)
      | 'C', [t] -> IrBlockSwitchCommand t
      | 'D', [t] -> IrBlockSwitchDistance t
      | _ -> failwith ("ir item " ^ it)) (Stdlib.String.split_on_char ',' s)
let ir_item (c : ir_cmd) : string =
  let i = int_of_n in
  match c with
  | IrCopy (d, n) -> Printf.sprintf "c%d:%d" (i d) (i n)
  | IrDict (ws, tr, fs, e, id) -> Printf.sprintf "d%d:%d:%d:%d:%d" (i ws) (i tr) (i fs) (i e) (i id)
  | IrLiteral (o, n, he) -> Printf.sprintf "l%d:%d:%d" (i o) (i n) (if he then 1 else 0)
  | IrBlockSwitchLiteral (t, s) -> Printf.sprintf "L%d:%d" (i t) (i s)
  | IrBlockSwitchCommand t -> Printf.sprintf "C%d" (i t)
  | IrBlockSwitchDistance t -> Printf.sprintf "D%d" (i t)
let hash_str s = let h = ref 0 in Stdlib.String.iter (fun c -> h := hmix !h (Char.code c)) s; hmix !h 10
let panic_name = function
  | PSplitLengths0 -> "lengths[0]" | PNumTypes -> "num_types" | PAssertInserts -> "inserts<=mb_len"
  | PCopyLenLt4 -> "copy_len>=4" | PCopyLenGe25 -> "copy_len<25" | PDictIndex -> "dict-index"
  | PDictAssertEq -> "dict-assert_eq" | PSubOverflow -> "sub-overflow"
let err_name = function
  | EDistanceZero -> "copy-distance-0" | EDistanceBeyondProduced -> "copy-distance-beyond-produced"
  | EOverrun -> "command-runs-past-the-meta-block" | ENoSuchWord -> "no-such-dictionary-word"
  | EFinalSize -> "dict-final-size-differs-from-expansion" | ELiteralOffset -> "literal-slice-not-at-replay-position"
  | ELiteralRange -> "literal-slice-outside-meta-block" | ECmdInsertOverrun -> "cmd-insert-overrun"
  | ECmdDistance -> "cmd-distance<=0" | ECmdCopyOverrun -> "cmd-copy-overrun" | ECmdMismatch -> "cmd-bytes-differ-from-input"
  | ECmdTrailing -> "cmd-trailing"

let segments (line : string) : string * string list =
  let body = match split_on " ## " line with b :: _ -> b | [] -> line in
  match split_on " ; " body with
  | st :: rest -> (st, rest)
  | [] -> ("", [])

let z_list s = Stdlib.List.map z_of_int (ints ',' s)

let model_line (line : string) : string =
  let (_, segs) = segments line in
  let out = ref [] in
  Stdlib.List.iter (fun seg ->
      let f = kv seg in
      if has "dict" f then ()
      else if has "norec" f then out := "SKIP" :: !out
      else begin
        let mb = raw_of_hex (get "mb" f) in
        let mb_at (i : n) : n =
          let k = int_of_n i in if k < Bytes.length mb then byte_n.(Char.code (Bytes.get mb k)) else N0 in
        let g k = n_of_int (int_of_string (get k f)) in
        if has "nocallback" f && Bytes.length mb = 0 && int_of_string (get "l0" f) + int_of_string (get "l1" f) > 0 then
          (* the implementation panicked before the callback: the bytes are not in the dump, the
             model can only be run when it does not need them; the harness reruns with the input *)
          out := "NOBYTES" :: !out
        else
          let r = recode dict_word transforms mb_at (g "lgwin") (g "nd") (g "np") (g "he") (get "ct" f = "1")
              (parse_split (get "bl" f)) (parse_split (get "bc" f)) (parse_split (get "bd" f))
              (z_list (get "dc" f)) (g "l0") (g "l1") (parse_cmds (get "cmds" f)) (g "nbe") in
          out := (match r with
              | Done (ir, nbe) ->
                let s = Stdlib.String.concat "," (Stdlib.List.map ir_item ir) in
                let nsw = count_literal_switches ir in
                Printf.sprintf "%d:%d:%d:%d" (hash_str (if s = "" then "-" else s)) (int_of_n nbe) (int_of_nat nsw)
                  (if choose_stride_ok nsw then 1 else 0)
              | Panic p -> "PANIC:" ^ panic_name p
              | OutOfFuel -> "FUEL") :: !out
      end) segs;
  Stdlib.String.concat "," (Stdlib.List.rev !out)

let spec_line (line : string) : string =
  let (_, segs) = segments line in
  let hist = ref [] and produced = ref 0 in
  let fail = ref None and k = ref 0 in
  Stdlib.List.iter (fun seg ->
      let f = kv seg in
      if has "dict" f then begin
        let d = bytes_of_hex (get "dict" f) in
        hist := Stdlib.List.rev d; produced := Stdlib.List.length d
      end else if has "mb" f then begin
        let mb = bytes_of_hex (get "mb" f) in
        let n = Stdlib.List.length mb in
        let s0 = { hist = !hist; produced = n_of_int !produced; pos = N0; rest = mb; remaining = n_of_int n } in
        let bad why = if !fail = None then fail := Some (Printf.sprintf "mb=%d %s" !k why) in
        (match ir_run dict_word transforms (parse_ir (get "ir" f)) s0 with
         | Ok s ->
           if s.remaining <> N0 then bad (Printf.sprintf "replay-stops-%d-bytes-short" (int_of_n s.remaining))
           else if not (list_eqb (produced_here s) mb) then bad "replay-differs-from-input"
           else ()
         | Err e -> bad (err_name e));
        (* continue from the true input *)
        hist := Stdlib.List.rev_append mb !hist; produced := !produced + n;
        incr k
      end) segs;
  match !fail with None -> "OK" | Some w -> "FAIL " ^ w

let rec drop k l = if k <= 0 then l else match l with [] -> [] | _ :: r -> drop (k - 1) r
(* eff = number of dictionary bytes the encoder placed before the input (model/Dict.v): the
   decoder's reading of the command list is relative to that prefix *)
let hyp_line (eff : int) (line : string) : string =
  let (_, segs) = segments line in
  let pre = ref [] and k = ref 0 and fail = ref None in
  Stdlib.List.iter (fun seg ->
      let f = kv seg in
      if has "dict" f then (let d = bytes_of_hex (get "dict" f) in pre := drop (Stdlib.List.length d - eff) d)
      else if has "mb" f && has "cmds" f then begin
        let mb = bytes_of_hex (get "mb" f) in
        let g x = n_of_int (int_of_string (get x f)) in
        if not (cmds_ok dict_word transforms (g "lgwin") (g "nd") (g "np") !pre mb (z_list (get "dc" f)) (parse_cmds (get "cmds" f)))
        && !fail = None then fail := Some !k;
        pre := !pre @ mb;
        incr k
      end) segs;
  match !fail with None -> Printf.sprintf "OK %d" !k | Some j -> Printf.sprintf "FAIL mb=%d" j

let () = iter_lines (fun line ->
    let n = Stdlib.String.length line in
    if n >= 2 && line.[1] = ' ' then begin
      let rest = Stdlib.String.sub line 2 (n - 2) in
      (try
         match line.[0] with
         | 'M' -> print_endline (model_line rest)
         | 'S' -> print_endline (spec_line rest)
         | 'W' | 'A' ->
           let sp = Stdlib.String.index rest ' ' in
           let eff = int_of_string (Stdlib.String.sub rest 0 sp) in
           let rest = Stdlib.String.sub rest (sp + 1) (Stdlib.String.length rest - sp - 1) in
           if line.[0] = 'W' then print_endline (hyp_line eff rest)
           else print_endline (model_line rest ^ " | " ^ spec_line rest ^ " | " ^ hyp_line eff rest)
         | 'T' ->
           (* premises of C14_recode on the real tables: number of transforms, longest expansion *)
           let mx = ref 0 and cnt = ref 0 in
           for ws = 4 to 24 do
             for id = 0 to (1 lsl (int_of_n (ndbits (n_of_int ws)))) - 1 do
               let w = dict_word (n_of_int ws) (n_of_int id) in
               Stdlib.List.iteri (fun t _ ->
                   match apply_transform transforms (n_of_int t) w with
                   | Some e -> incr cnt; let l = Stdlib.List.length e in if l > !mx then mx := l
                   | None -> ()) transforms
             done
           done;
           Printf.printf "transforms=%d expansions=%d longest=%d\n" (Stdlib.List.length transforms) !cnt !mx
         | 'X' ->
           (match Stdlib.List.map int_of_string (split_ws rest) with
            | [ws; id; tr] ->
              (match dict_expand dict_word transforms (n_of_int ws) (n_of_int id) (n_of_int tr) with
               | Some w -> print_endline (let h = ints_to_hex (Stdlib.List.map int_of_n w) in if h = "" then "-" else h)
               | None -> print_endline "NONE")
            | _ -> print_endline "BADREQ")
         | _ -> print_endline "BADREQ"
       with e -> print_endline ("DRIVER-ERROR " ^ Printexc.to_string e))
    end else if n = 0 then () else print_endline "BADREQ")
