(* C15 driver: one request per line on stdin, one canonical answer line on stdout.
     E <via> <q> <lgwin> <lw> <cat> <app> <dict> <magic> <hint> <n>
         model of the first bits of the stream: "<nbits> <hex of the bits packed into bytes>"
         via D: parameters as given; via S/F: init_params after the client's set_parameter calls
         n = input length (all of it known to the encoder when the first block is encoded)
     B <n>    hex of encode_base_128 n
     S E <same fields> <hex of the first bytes of the real stream>   -> OK | FAIL <clause>
     S B <n> <hex>                                                   -> OK | FAIL *)
let zi s = z_of_int (int_of_string s)
let b s = s <> "0"
let bytes_hex (l : n list) = ints_to_hex (Stdlib.List.map int_of_n l)
let hex_bytes (s : string) : n list = if s = "-" then [] else Stdlib.List.map n_of_int (hex_to_ints s)
let params_of via q lgw lw cat app dict magic hint =
  match via with
  | "D" -> { quality = zi q; lgwin = zi lgw; large_window = b lw; catable = b cat; appendable = b app;
             use_dictionary = b dict; magic_number = b magic; size_hint = n_of_string hint }
  | _ -> fst (set_parameters init_params (client_settings (zi q) (zi lgw) (b lw) (b cat) (b app) (b magic) (n_of_string hint)))
let clause = function
  | 1 -> "no valid WBITS at the start of the stream"
  | 2 -> "declared window differs from the clamped requested window"
  | 3 -> "large-window form does not match the large_window request"
  | 4 -> "magic requested but the stream does not continue with a metadata meta-block"
  | 5 -> "metadata block does not end on a byte boundary"
  | 6 -> "magic bytes / mode byte / version are not e1 97 <mode> 01"
  | 7 -> "size hint is not a base-128 number"
  | 8 -> "size hint differs from the requested one"
  | 9 -> "size hint longer than 10 bytes"
  | _ -> "?"
let () = iter_lines (fun line ->
  match split_ws line with
  | ["E"; via; q; lgw; lw; cat; app; dict; magic; hint; n] ->
    let p = params_of via q lgw lw cat app dict magic hint in
    let bits = first_bits p (n_of_string n) N0 in
    Printf.printf "%d %s\n" (Stdlib.List.length bits) (bytes_hex (bits_to_bytes bits))
  | ["B"; n] -> print_endline (bytes_hex (encode_base_128 (n_of_string n)))
  | ["S"; "E"; via; q; lgw; lw; cat; app; dict; magic; hint; n; hx] ->
    (* the request as the client expressed it: for S/F the dictionary flag follows catable *)
    let dict' = if via = "D" then b dict else not (b cat) in
    let r = int_of_n (spec_check_header (zi q) (zi lgw) (b lw) (b cat) (b app) dict' (b magic)
                        (n_of_string hint) (n_of_string n) (bytes_to_bits (hex_bytes hx))) in
    print_endline (if r = 0 then "OK" else Printf.sprintf "FAIL clause %d: %s" r (clause r))
  | ["S"; "B"; n; hx] ->
    (match base128_decode (hex_bytes hx) with
     | Some v when v = n_of_string n && Stdlib.List.length (hex_bytes hx) <= 10 -> print_endline "OK"
     | _ -> print_endline "FAIL base-128 bytes do not decode to the number")
  | [] -> ()
  | _ -> print_endline "BADREQ")
