(* C17 driver: one request per line on stdin, one canonical answer line on stdout.  Same requests
   and answer format as harness/src/bin/c17.rs (see there); additionally
     Q <T|B|F> ...          number of times the model's retry loop doubled count_limit
     S <request> <answer>   apply the Coq SPEC (coq/spec/PrefixCode.v) to an answer of the implementation
   The E request also applies the spec to every answer and reports the number of failures:
     E nsym maxc lo hi -> "H <hash> <spec failures>" *)
let i = int_of_string
let nl (s : string) : n list = if s = "-" then [] else Stdlib.List.map (fun x -> n_of_int (i x)) (Stdlib.String.split_on_char ',' s)
let il (s : string) : int list = if s = "-" then [] else Stdlib.List.map i (Stdlib.String.split_on_char ',' s)
let sl (l : n list) : string = if l = [] then "-" else Stdlib.String.concat "," (Stdlib.List.map (fun x -> string_of_int (int_of_n x)) l)
let bstr (b : bool list) : string =
  if b = [] then "-" else begin
    let buf = Buffer.create 256 in
    Stdlib.List.iter (fun x -> Buffer.add_char buf (if x then '1' else '0')) b; Buffer.contents buf end
let bparse (s : string) : bool list =
  if s = "-" then [] else Stdlib.List.init (Stdlib.String.length s) (fun k -> s.[k] = '1')
let rec repeat x k = if k <= 0 then [] else x :: repeat x (k - 1)
let zeros k = repeat N0 k
let out (r : string res) : string = match r with Done s -> s | Panic -> "PANIC" | OutOfFuel -> "OUTOFFUEL"
let len = Stdlib.List.length
let nn k = n_of_int k

(* ---- the model ---- *)
let m_t limit counts =
  let n = len counts in
  match create_huffman_tree counts (nn n) (z_of_int limit) (repeat node0 (2 * n + 1)) (zeros n) with
  | Done ((d, _), r) -> Done (sl d, int_of_n r) | Panic -> Panic | OutOfFuel -> OutOfFuel
let f_t limit counts = out (match m_t limit counts with Done (s, _) -> Done s | Panic -> Panic | OutOfFuel -> OutOfFuel)
let f_c depth = let n = len depth in
  out (match convert_bit_depths_to_symbols depth (nn n) (zeros n) with Done b -> Done (sl b) | Panic -> Panic | OutOfFuel -> OutOfFuel)
let f_w depth = let n = len depth in
  out (match write_huffman_tree depth (nn n) (nn 704) with
       | Done t -> Done (sl (Stdlib.List.map fst t) ^ " " ^ sl (Stdlib.List.map snd t)) | Panic -> Panic | OutOfFuel -> OutOfFuel)
let f_d depth = let n = len depth in
  out (match decide_over_rle_use depth (nn n) with
       | Done (a, b) -> Done ((if a then "1" else "0") ^ " " ^ (if b then "1" else "0")) | Panic -> Panic | OutOfFuel -> OutOfFuel)
let f_o counts = let n = len counts in
  out (match optimize_huffman_counts_for_rle (nn n) counts (zeros n) with
       | Done (c, g) -> Done (sl c ^ " " ^ sl g) | Panic -> Panic | OutOfFuel -> OutOfFuel)
let f_h depth = let n = len depth in
  out (match store_huffman_tree depth (nn n) (repeat node0 (2 * 704 + 1)) [] with
       | Done ((b, _), _) -> Done (bstr b) | Panic -> Panic | OutOfFuel -> OutOfFuel)
let q_h depth = let n = len depth in
  (match store_huffman_tree depth (nn n) (repeat node0 (2 * 704 + 1)) [] with Done ((_, _), r) -> int_of_n r | _ -> -1)
let m_b alphabet counts = let n = len counts in
  build_and_store_huffman_tree counts (nn n) (nn alphabet) (repeat node0 (2 * (max n 18) + 1)) (zeros n) (zeros n) []
let f_b alphabet counts =
  out (match m_b alphabet counts with
       | Done (((d, b), o), _) -> Done (sl d ^ " " ^ sl b ^ " " ^ bstr o) | Panic -> Panic | OutOfFuel -> OutOfFuel)
let m_f max_bits counts = let n = len counts in
  let total = Stdlib.List.fold_left (fun a x -> N.add a x) N0 counts in
  build_and_store_huffman_tree_fast counts total (nn max_bits) (zeros n) (zeros n) []
let f_f max_bits counts =
  out (match m_f max_bits counts with
       | Done (((d, b), o), _) -> Done (sl d ^ " " ^ sl b ^ " " ^ bstr o) | Panic -> Panic | OutOfFuel -> OutOfFuel)
let f_p num max_bits depth symbols =
  out (match store_simple_huffman_tree depth symbols (nn num) (nn max_bits) [] with
       | Done o -> Done (bstr o) | Panic -> Panic | OutOfFuel -> OutOfFuel)
let f_r num_bits bits =
  out (match reverse_bits (nn num_bits) (nn bits) with Done v -> Done (string_of_int (int_of_n v)) | Panic -> Panic | OutOfFuel -> OutOfFuel)

(* ---- the executable specification applied to answers of the implementation ---- *)
let ok b why = if b then "OK" else "FAIL " ^ why
let both a b = if a = "OK" then b else a
let nz_count (c : int list) = len (Stdlib.List.filter (fun x -> x <> 0) c)
let kraft_i d = int_of_n (kraft (Stdlib.List.map nn d))
let rec pad l k = if len l >= k then l else l @ repeat 0 (k - len l)

(* depths for a histogram: support, limit, Kraft equality (C17_tree / C17_tree_one) *)
let s_tree limit (counts : int list) (d : int list) =
  let nz = nz_count counts in
  if len d <> len counts then "FAIL depth vector has the wrong length"
  else if nz = 0 then "OK"
  else if nz = 1 then
    ok (Stdlib.List.for_all2 (fun c x -> if c <> 0 then x = 1 else x = 0) counts d) "single symbol must get depth 1 and nothing else a depth"
  else
    both (ok (Stdlib.List.for_all2 (fun c x -> (c <> 0) = (x <> 0)) counts d) "support: non-zero depth iff non-zero count")
      (both (ok (Stdlib.List.for_all (fun x -> x <= limit) d) "a depth exceeds the limit")
         (ok (kraft_i d = 32768) (Printf.sprintf "Kraft sum is %d/32768" (kraft_i d))))

(* canonical codes (C17_canonical): bits = bit-reversed RFC codes; prefix-free; decode . encode *)
let s_canon (d : int list) (bits : int list) =
  let dn = Stdlib.List.map nn d in
  if len bits <> len d then "FAIL bits vector has the wrong length"
  else if not (wf_depthsb dn) then "OK"   (* outside the property: a length above 15 *)
  else if kraft_i d > 32768 then "OK"     (* outside the property: over-subscribed *)
  else begin
    let tab = rfc_canonical dn in
    let okc = Stdlib.List.for_all2 (fun (l, c) b ->
      if int_of_n l = 0 then true else int_of_n (bits_to_N (msb_first (nat_of_int (int_of_n l)) c)) = b) tab bits in
    let n = len d in
    let used = Stdlib.List.filter (fun s -> Stdlib.List.nth d s <> 0) (Stdlib.List.init n (fun s -> s)) in
    let sample = if n <= 40 then used else
      Stdlib.List.filteri (fun k _ -> k mod (1 + len used / 6) = 0) used in
    let tail = [true; false; true] in
    let okd = Stdlib.List.for_all (fun s ->
      match rfc_decode_symbol dn (rfc_codeword dn (nat_of_int s) @ tail) with
      | Some (s', r) -> int_of_n s' = s && r = tail | None -> false) sample in
    let okp = if n > 40 then true else
      Stdlib.List.for_all (fun s -> Stdlib.List.for_all (fun t -> s = t ||
        not (is_prefix (rfc_codeword dn (nat_of_int s)) (rfc_codeword dn (nat_of_int t)))) used) used in
    both (ok okc "bits are not the bit-reversed RFC 7932 3.2 canonical codes")
      (both (ok okd "rfc_decode_symbol (code word) does not return the symbol") (ok okp "code is not prefix-free"))
  end

let rec strip_int (d : int list) = Stdlib.List.map int_of_n (strip_trailing_zeros (Stdlib.List.map nn d))
let s_rle (d : int list) (tree : int list) (extra : int list) =
  if len tree <> len extra then "FAIL tree/extra lengths differ" else
  match rfc_expand (nn (len d)) (Stdlib.List.map2 (fun a b -> (nn a, nn b)) tree extra) with
  | None -> "FAIL RFC expansion rejects the code length sequence"
  | Some e -> ok (Stdlib.List.map int_of_n e = strip_int d) "RFC expansion of the run-length coded lengths differs from the depths"

(* the RFC reader applied to emitted bits returns the depths (C17_store) *)
let s_read asz (d : int list) (single : int option) (bs : string) =
  match rfc_read_prefix_code (nn asz) (bparse bs) with
  | None -> "FAIL RFC 7932 3.4/3.5 reader rejects the emitted prefix code"
  | Some (pc, rest) ->
    let l = Stdlib.List.map int_of_n pc.pc_lengths in
    let sg = (match pc.pc_single with Some s -> Some (int_of_n s) | None -> None) in
    both (ok (rest = []) "reader does not consume all emitted bits")
      (both (ok (l = pad d asz && len d <= asz) "reader returns different code lengths") (ok (sg = single) "single-symbol result differs"))

let s_build limit asz (counts : int list) (d : int list) (bits : int list) (bs : string) =
  let nz = nz_count counts in
  if nz = 0 then "OK"
  else if nz = 1 then begin
    let s = ref 0 in Stdlib.List.iteri (fun k c -> if c <> 0 then s := k) counts;
    both (ok (Stdlib.List.for_all (fun x -> x = 0) d) "one-symbol code must leave all depths zero")
      (s_read asz d (Some !s) bs) end
  else both (s_tree limit counts d) (both (s_canon d bits) (s_read asz d None bs))

let spec (t : string list) : string =
  match t with
  | "T" :: l :: c :: [d] -> s_tree (i l) (il c) (il d)
  | "C" :: d :: [b] -> s_canon (il d) (il b)
  | "W" :: d :: tr :: [ex] -> s_rle (il d) (il tr) (il ex)
  | "H" :: d :: [bs] -> let d = il d in s_read (len d) d None bs
  | "B" :: a :: c :: d :: b :: [bs] -> s_build 15 (i a) (il c) (il d) (il b) bs
  | "F" :: m :: c :: d :: b :: [bs] -> s_build 14 (1 lsl (i m)) (il c) (il d) (il b) bs
  | "P" :: n :: m :: d :: s :: [bs] ->
    let d = il d and syms = il s in
    let used = Stdlib.List.filteri (fun k _ -> k < i n) syms in
    let d' = Stdlib.List.mapi (fun k x -> if Stdlib.List.mem k used then x else 0) d in
    s_read (1 lsl (i m)) d' None bs
  | "R" :: n :: b :: [v] ->
    ok (int_of_n (bits_to_N (Stdlib.List.rev (n_to_bits (nat_of_int (i n)) (nn (i b))))) = i v) "not the bit reversal"
  | "O" :: c :: c' :: [_] ->
    let c = il c and c' = il c' in
    ok (len c = len c' && Stdlib.List.for_all2 (fun x y -> x = 0 || y <> 0) c c') "a symbol that occurs lost its count"
  | "D" :: _ -> "OK"
  | _ -> "FAIL malformed answer (panic or wrong arity)"

let hash_str h s = let h = ref h in Stdlib.String.iter (fun c -> h := hmix !h (Char.code c)) s; hmix !h 10

let () = iter_lines (fun line ->
  match split_ws line with
  | ["T"; l; c] -> print_endline (f_t (i l) (nl c))
  | ["C"; d] -> print_endline (f_c (nl d))
  | ["W"; d] -> print_endline (f_w (nl d))
  | ["D"; d] -> print_endline (f_d (nl d))
  | ["O"; c] -> print_endline (f_o (nl c))
  | ["H"; d] -> print_endline (f_h (nl d))
  | ["B"; a; c] -> print_endline (f_b (i a) (nl c))
  | ["F"; m; c] -> print_endline (f_f (i m) (nl c))
  | ["P"; n; m; d; s] -> print_endline (f_p (i n) (i m) (nl d) (nl s))
  | ["R"; n; b] -> print_endline (f_r (i n) (i b))
  | ["Q"; "T"; l; c] -> print_endline (match m_t (i l) (nl c) with Done (_, r) -> string_of_int r | _ -> "-1")
  | ["Q"; "B"; a; c] ->
    let c = nl c in
    (* retries of the main tree (limit 15) as run by BuildAndStoreHuffmanTree *)
    print_endline (if nz_count (Stdlib.List.map int_of_n c) < 2 then "-1" else
                   match m_t 15 c with Done (_, r) -> string_of_int r | _ -> "-1"); ignore a
  | ["Q"; "H"; d] -> print_endline (string_of_int (q_h (nl d)))
  | ["Q"; "F"; m; c] -> print_endline (match m_f (i m) (nl c) with Done (_, r) -> string_of_int (int_of_n r) | _ -> "-1")
  | "S" :: rest -> print_endline (spec rest)
  | ["E"; nsym; maxc; lo; hi] ->
    let nsym = i nsym and radix = i maxc + 1 in
    let h = ref 0 and bad = ref 0 in
    for idx = i lo to i hi - 1 do
      let x = ref idx in
      let counts = Stdlib.List.init nsym (fun _ -> let c = !x mod radix in x := !x / radix; c) in
      let a = f_b nsym (Stdlib.List.map nn counts) in
      h := hash_str !h a;
      if spec ("B" :: string_of_int nsym :: sl (Stdlib.List.map nn counts) :: split_ws a) <> "OK" then incr bad
    done;
    Printf.printf "H %d %d\n" !h !bad
  | ["RH"; n] ->
    let h = ref 0 in
    for b = 0 to 65535 do h := hash_str !h (f_r (i n) b) done;
    Printf.printf "H %d\n" !h
  | [] -> ()
  | _ -> print_endline "BADREQ")
