(* C18 driver: one request per line on stdin, one canonical answer line on stdout.
     ins n | copy n | comb i c b | blen n | pdist dc nd np | cmd nd np ins copy code dc
     R <fn> lo hi [nd np]   -> hash over the half-open range (fn in ins copy blen pdist cmd) *)
let i = int_of_string
let f_ins n = Printf.sprintf "%d" (int_of_n (get_insert_length_code (n_of_int n)))
let f_copy n = Printf.sprintf "%d" (int_of_n (get_copy_length_code (n_of_int n)))
let f_comb a b u = Printf.sprintf "%d" (int_of_n (combine_length_codes (n_of_int a) (n_of_int b) (u <> 0)))
let f_blen n = let ((c, nb), e) = get_block_length_prefix_code (n_of_int n) in
  Printf.sprintf "%d %d %d" (int_of_n c) (int_of_n nb) (int_of_n e)
let f_pdist dc nd np = let (c, e) = prefix_encode_copy_distance (n_of_int dc) (n_of_int nd) (n_of_int np) in
  Printf.sprintf "%d %d" (int_of_n c) (int_of_n e)
let f_cmd nd np ins copy code dc =
  let (nd', np') = (n_of_int nd, n_of_int np) in
  let c = command_new nd' np' (n_of_int ins) (n_of_int copy) (n_of_int code) (n_of_int dc) in
  let r = restore_distance_code c.dist_prefix_ c.dist_extra_ nd' np' in
  let (ix, off) = distance_index_and_offset c.dist_prefix_ c.dist_extra_ nd' np' in
  let (nb, v) = store_command_extra c in
  Printf.sprintf "%d %d %d %d %d | %d | %d %d | %d %d | %d %s"
    (int_of_n c.insert_len_) (int_of_n c.copy_len_) (int_of_n c.dist_extra_) (int_of_n c.cmd_prefix_) (int_of_n c.dist_prefix_)
    (int_of_n r) (int_of_n ix) (int_of_z off) (int_of_n (cmd_copy_len c)) (int_of_n (cmd_copy_len_code c))
    (int_of_n nb) (string_of_n v)

let f_recmd nd0 np0 nd1 np1 ins copy code dc =
  let c = command_new (n_of_int nd0) (n_of_int np0) (n_of_int ins) (n_of_int copy) (n_of_int code) (n_of_int dc) in
  let c = recompute_distance_prefix (n_of_int nd0) (n_of_int np0) (n_of_int nd1) (n_of_int np1) c in
  let r = restore_distance_code c.dist_prefix_ c.dist_extra_ (n_of_int nd1) (n_of_int np1) in
  Printf.sprintf "%d %d %d %d %d | %d"
    (int_of_n c.insert_len_) (int_of_n c.copy_len_) (int_of_n c.dist_extra_) (int_of_n c.cmd_prefix_) (int_of_n c.dist_prefix_) (int_of_n r)

(* ---- executable specification (coq/spec/RfcTables.v) applied to an answer of the implementation ---- *)
let ri f c = int_of_n (f (n_of_int c))
let denotes base extra c v = c >= 0 && c < 24 && ri base c <= v && v < ri base c + (1 lsl (ri extra c))
let cell s = let ((a, b), u) = rfc_cell (n_of_int s) in (int_of_n a, int_of_n b, u)
let ok b why = if b then "OK" else "FAIL " ^ why
let s_ins n c = ok (denotes rfc_ins_base rfc_ins_extra c n) "insert code does not denote the length"
let s_copy n c = ok (denotes rfc_copy_base rfc_copy_extra c n) "copy code does not denote the length"
let s_blen n c nb e = ok (c >= 0 && c < 26 && nb = ri rfc_blen_extra c && e >= 0 && e < (1 lsl nb) && ri rfc_blen_base c + e = n)
    "block length code/extra do not denote the length"
let s_comb a b u s =
  let (a', b', impl) = cell s in
  ok (s >= 0 && s < 704 && a' = a && b' = b && (impl = (u <> 0 && a < 8 && b < 16))) "command symbol does not decompose to (ins, copy, implicit)"
let s_pdist dc nd np code extra =
  let sym = code land 1023 and nbits = code lsr 10 in
  if dc < 16 then ok (sym = dc && nbits = 0 && extra = 0) "short code changed"
  else
    let d = int_of_n (rfc_distance (n_of_int np) (n_of_int nd) (n_of_int sym) (n_of_int extra)) in
    let nb_ok = if sym < 16 + nd then nbits = 0 && extra = 0
      else nbits = 1 + (((sym - nd - 16) lsr np) lsr 1) && extra < (1 lsl nbits) in
    ok (d = dc - 15 && nb_ok && sym < 16 + nd + (62 lsl (np + 1))) "distance symbol/extra do not denote the distance"
let hash_str h s = let h = ref h in Stdlib.String.iter (fun c -> h := hmix !h (Char.code c)) s; hmix !h 10
let () = iter_lines (fun line ->
  match split_ws line with
  | ["ins"; n] -> print_endline (f_ins (i n))
  | ["copy"; n] -> print_endline (f_copy (i n))
  | ["comb"; a; b; u] -> print_endline (f_comb (i a) (i b) (i u))
  | ["blen"; n] -> print_endline (f_blen (i n))
  | ["pdist"; dc; nd; np] -> print_endline (f_pdist (i dc) (i nd) (i np))
  | ["cmd"; nd; np; ins; copy; code; dc] -> print_endline (f_cmd (i nd) (i np) (i ins) (i copy) (i code) (i dc))
  | ["recmd"; nd0; np0; nd1; np1; ins; copy; code; dc] ->
    print_endline (f_recmd (i nd0) (i np0) (i nd1) (i np1) (i ins) (i copy) (i code) (i dc))
  | ["S"; "recmd"; nd0; np0; nd1; np1; ins; copy; code; dc; il; cl; de; cp; dp; "|"; r] ->
    (* after the change of parameters the command must denote, under the NEW parameters and the RFC's tables, the
       distance it was built from; insert length, copy length word and command symbol as built *)
    let (nd0, np0, nd1, np1, ins, copy, code, dc) = (i nd0, i np0, i nd1, i np1, i ins, i copy, i code, i dc) in
    let (il, cl, de, cp, dp, r) = (i il, i cl, i de, i cp, i dp, i r) in
    let c0 = command_new (n_of_int nd0) (n_of_int np0) (n_of_int ins) (n_of_int copy) (n_of_int code) (n_of_int dc) in
    let explicit = int_of_n c0.cmd_prefix_ >= 128 && int_of_n (cmd_copy_len c0) <> 0 in
    let c1 = il = int_of_n c0.insert_len_ && cl = int_of_n c0.copy_len_ && cp = int_of_n c0.cmd_prefix_ in
    let c2 = if explicit then (s_pdist dc nd1 np1 dp de = "OK") && r = dc
             else dp = int_of_n c0.dist_prefix_ && de = int_of_n c0.dist_extra_ in
    print_endline (ok (c1 && c2) (Printf.sprintf "re-encoded command fields kept=%b distance=%b" c1 c2))
  | ["S"; "ins"; n; c] -> print_endline (s_ins (i n) (i c))
  | ["S"; "copy"; n; c] -> print_endline (s_copy (i n) (i c))
  | ["S"; "blen"; n; c; nb; e] -> print_endline (s_blen (i n) (i c) (i nb) (i e))
  | ["S"; "comb"; a; b; u; r] -> print_endline (s_comb (i a) (i b) (i u) (i r))
  | ["S"; "pdist"; dc; nd; np; c; e] -> print_endline (s_pdist (i dc) (i nd) (i np) (i c) (i e))
  | ["S"; "cmd"; nd; np; ins; copy; code; dc; il; cl; de; cp; dp; "|"; r; "|"; ix; off; "|"; clen; clcode; "|"; nb; v] ->
    let (nd, np, ins, copy, code, dc) = (i nd, i np, i ins, i copy, i code, i dc) in
    let (il, cl, de, cp, dp, r, ix, off, clen, clcode, nb) = (i il, i cl, i de, i cp, i dp, i r, i ix, i off, i clen, i clcode, i nb) in
    let ic = int_of_n (get_insert_length_code (n_of_int ins)) and cc = int_of_n (get_copy_length_code (n_of_int code)) in
    ignore cl;
    let (a', b', impl) = cell cp in
    let c1 = (s_pdist dc nd np dp de = "OK") in
    let c2 = (r = dc) && clen = copy && clcode = code && il = ins in
    let c3 = (if dc >= 16 then ix = 0 && off = dc - 15 else true) in
    let c4 = denotes rfc_ins_base rfc_ins_extra a' ins && denotes rfc_copy_base rfc_copy_extra b' code && (impl = ((dp land 1023) = 0 && a' < 8 && b' < 16)) && a' = ic && b' = cc in
    let ie = ri rfc_ins_extra a' and ce = ri rfc_copy_extra b' in
    let c5 = nb = ie + ce && v = string_of_int (((code - ri rfc_copy_base b') lsl ie) lor (ins - ri rfc_ins_base a')) in
    print_endline (ok (c1 && c2 && c3 && c4 && c5) (Printf.sprintf "command fields dist=%b restore=%b index=%b cell=%b extra=%b" c1 c2 c3 c4 c5))
  | "R" :: fn :: lo :: hi :: rest ->
    let h = ref 0 in
    let (nd, np) = (match rest with [a; b] -> (i a, i b) | _ -> (0, 0)) in
    for x = i lo to i hi - 1 do
      let s = (match fn with
        | "ins" -> f_ins x | "copy" -> f_copy x | "blen" -> f_blen x
        | "pdist" -> f_pdist x nd np
        | "cmd" -> f_cmd nd np (x land 0xffffff) (2 + (x * 7) land 0xffff) (2 + (x * 7) land 0xffff) x
        | _ -> failwith "bad fn") in
      h := hash_str !h s
    done;
    Printf.printf "H %d\n" !h
  | [] -> ()
  | _ -> print_endline "BADREQ")
