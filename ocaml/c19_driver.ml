(* C19 driver for the extracted coq/model/Hashers.v: same request lines as harness/src/bin/c19.rs
     X <q> <lgwin> <hint> <q95> <kinddesc> <maskbits> <seed> <style> <dlen> <tail> <rc> <ops...>
   (q, lgwin, hint, q95 are ignored here: the model is told the kind by <kinddesc>, which the
   harness printed for the hasher the real code built).  argv.(1) = "asfound" runs the two
   fast paths as they were before the C19 fix. *)
let variant = if Array.length Sys.argv > 1 && Sys.argv.(1) = "asfound" then AsFound else Repaired
let i = int_of_string
let nn = n_of_int

(* ---- data: identical to gen_bytes / make_data of the harness ---- *)
let gen_bytes (seed : int) (style : string) (n : int) : int array =
  let h = ref (hmix (seed land mask62) 12345) in
  let v = Array.make n 0 in
  for k = 0 to n - 1 do
    h := hmix !h k;
    let b = (!h lsr 17) land 0xff in
    v.(k) <- (match style with
      | "0" -> b
      | "1" -> Char.code "abcd".[b land 3]
      | "2" -> if b mod 5 = 0 then Char.code 'b' else Char.code 'a'
      | "3" -> let p = 1 + (seed mod 7) in if k >= p then v.(k - p) else b
      | _ -> 0)
  done; v

let explicit (style : string) : int array option =
  if Stdlib.String.length style > 0 && style.[0] = 'x' then
    Some (Array.of_list (hex_to_ints (Stdlib.String.sub style 1 (Stdlib.String.length style - 1))))
  else None

let make_data maskbits seed style dlen tail rc : int array * n =
  if maskbits = 0 then
    ((match explicit style with Some a -> a | None -> gen_bytes seed style dlen), uSIZE_MAX)
  else begin
    let n = 1 lsl maskbits in
    let base = (match explicit style with
      | Some a -> Array.init n (fun k -> if k < Array.length a then a.(k) else 0)
      | None -> gen_bytes seed style n) in
    let t = if rc then Array.init tail (fun j -> base.(j mod n))
            else gen_bytes (seed + 1) (match explicit style with Some _ -> "0" | None -> style) tail in
    (Array.append base t, nn (n - 1))
  end

let buf_of (a : int array) : buf =
  let len = Array.length a in
  { blen = nn len; bget = (fun x -> let k = int_of_n x in if k < len then nn a.(k) else N0) }

(* ---- states ---- *)
type hs = HB of basic_params * basic_state | HA of adv_state | H9 of h9_state | H10 of h10_state

let parse_kind (desc : string) : hs =
  match Stdlib.String.split_on_char '|' desc with
  | [k; c] ->
    let common = Stdlib.List.map (fun x -> nn (i x)) (Stdlib.String.split_on_char ',' c) in
    let spec ak hm sh bs bm bb = { ak = ak; f_hash_mask = nn hm; f_hash_shift = nn sh; f_bucket_size = nn bs; f_block_mask = nn bm; f_block_bits = nn bb } in
    let adv sp nl bl = HA { a_common = common; a_spec = sp; a_num = tnew (nn (i nl)) N0; a_buckets = tnew (nn (i bl)) N0 } in
    (match Stdlib.String.split_on_char ':' k with
     | ["H2"; l] -> HB (h2p, { b_common = common; b_buckets = tnew (nn (i l)) N0 })
     | ["H3"; l] -> HB (h3p, { b_common = common; b_buckets = tnew (nn (i l)) N0 })
     | ["H4"; l] -> HB (h4p, { b_common = common; b_buckets = tnew (nn (i l)) N0 })
     | ["H54"; l] -> HB (h54p, { b_common = common; b_buckets = tnew (nn (i l)) N0 })
     | ["H5"; sh; bs; bm; bb; nl; bl] -> adv (spec AK_H5 0 (i sh) (i bs) (i bm) (i bb)) nl bl
     | ["H5q5"; nl; bl] -> adv (spec AK_HQ5 0 0 0 0 0) nl bl
     | ["H5q7"; nl; bl] -> adv (spec AK_HQ7 0 0 0 0 0) nl bl
     | ["H6"; hm; sh; bs; bm; bb; nl; bl] -> adv (spec AK_H6 (i hm) (i sh) (i bs) (i bm) (i bb)) nl bl
     | ["H9"; nl; bl] -> H9 { h9_common = common; h9_num = tnew (nn (i nl)) N0; h9_buckets = tnew (nn (i bl)) N0 }
     | ["H10"; wm; inv; bl; fl] ->
       H10 { t_window_mask = nn (i wm); t_common = common; t_buckets = tnew (nn (i bl)) (nn (i inv));
             t_invalid_pos = nn (i inv); t_forest = tnew (nn (i fl)) N0 }
     | _ -> failwith "bad kind")
  | _ -> failwith "bad kind"

let store d mask h ix : hs res = match h with
  | HB (p, s) -> (match basic_store p d mask s ix with Ok s' -> Ok (HB (p, s')) | Panic -> Panic)
  | HA s -> (match adv_store d mask s ix with Ok s' -> Ok (HA s') | Panic -> Panic)
  | H9 s -> (match h9_store d mask s ix with Ok s' -> Ok (H9 s') | Panic -> Panic)
  | H10 s -> (match h10_store d mask s ix with Ok s' -> Ok (H10 s') | Panic -> Panic)

let rec stores d mask h (l : int list) : hs res = match l with
  | [] -> Ok h
  | x :: r -> (match store d mask h (nn x) with Ok h' -> stores d mask h' r | Panic -> Panic)

let lift f g = (match f with Ok s -> Ok (g s) | Panic -> Panic)

(* returns the new state and, for the clone op, PartialEq(original, clone) *)
let apply d mask h (op : string list) : (hs * bool option) res =
  let fin r = (match r with Ok x -> Ok (x, None) | Panic -> Panic) in
  match op with
  | ["S"; a; b] -> fin (stores d mask h (Stdlib.List.init (max 0 (i b - i a)) (fun k -> i a + k)))
  | ["B"; a; b] -> let (a, b) = (nn (i a), nn (i b)) in
    fin (match h with
      | HB (p, s) -> lift (basic_bulk_store_range variant p d mask s a b) (fun s -> HB (p, s))
      | HA s -> lift (adv_bulk_store_range d mask s a b) (fun s -> HA s)
      | H9 s -> lift (h9_bulk_store_range d mask s a b) (fun s -> H9 s)
      | H10 s -> lift (h10_bulk_store_range d mask s a b) (fun s -> H10 s))
  | ["R"; a; b] -> let (a, b) = (nn (i a), nn (i b)) in
    fin (match h with
      | HB (p, s) -> lift (basic_store_range variant p d mask s a b) (fun s -> HB (p, s))
      | HA s -> lift (adv_store_range variant d mask s a b) (fun s -> HA s)
      | H9 s -> lift (h9_store_range d mask s a b) (fun s -> H9 s)
      | H10 s -> lift (h10_store_range d mask s a b) (fun s -> H10 s))
  | ["V4"; x] -> fin (match h with
      | HA s -> lift (adv_store4vec4 d mask s (nn (i x))) (fun s -> HA s)
      | _ -> stores d mask h [i x; i x + 4; i x + 8; i x + 12])
  | ["VE"; x] -> fin (match h with
      | HA s -> lift (adv_store_even_vec4 d mask s (nn (i x))) (fun s -> HA s)
      | _ -> stores d mask h [i x; i x + 2; i x + 4; i x + 6])
  | ["C"] -> (match h with
      | HB (p, s) -> (match basic_clone s with Ok c -> Ok (HB (p, c), Some (basic_eqb s c)) | Panic -> Panic)
      | HA s -> (match adv_clone s with Ok c -> Ok (HA c, Some (adv_eqb s c)) | Panic -> Panic)
      | H9 s -> (match h9_clone s with Ok c -> Ok (H9 c, Some (h9_eqb s c)) | Panic -> Panic)
      | H10 s -> (match h10_clone s with Ok c -> Ok (H10 c, Some (h10_eqb s c)) | Panic -> Panic))
  | ["L"] -> Ok (h, None)
  | ["N"; v] ->
    (* only as the first op: every per-bucket counter starts at v (the tables are still untouched,
       so this is the counter table's initial value) *)
    Ok ((match h with
      | HA s -> HA { s with a_num = tnew s.a_num.tlen (nn (i v)) }
      | H9 s -> H9 { s with h9_num = tnew s.h9_num.tlen (nn (i v)) }
      | _ -> h), None)
  | _ -> failwith "bad op"

let rec split_ops (t : string list) : string list list =
  match t with
  | [] -> []
  | ("S" | "B" | "R" as o) :: a :: b :: r -> [o; a; b] :: split_ops r
  | ("V4" | "VE" | "N" as o) :: a :: r -> [o; a] :: split_ops r
  | ("C" | "L" as o) :: r -> [o] :: split_ops r
  | _ -> failwith "bad ops"

(* canonical dump: entries that differ from the table's initial value; num, buckets, forest *)
let dump (h : hs) (listing : bool) : string =
  let tabs = (match h with
    | HB (_, s) -> [(1, s.b_buckets)]
    | HA s -> [(0, s.a_num); (1, s.a_buckets)]
    | H9 s -> [(0, s.h9_num); (1, s.h9_buckets)]
    | H10 s -> [(1, s.t_buckets); (2, s.t_forest)]) in
  let n = ref 0 and hsum = ref 0 and b = Buffer.create 64 in
  Stdlib.List.iter (fun (tid, t) ->
    let def = int_of_n t.tdef in
    let es = Stdlib.List.map (fun (k, v) -> (int_of_n k, int_of_n v)) (tentries t) in
    let es = Stdlib.List.sort compare (Stdlib.List.filter (fun (_, v) -> v <> def) es) in
    Stdlib.List.iter (fun (k, v) ->
      incr n; hsum := hmix (hmix (hmix !hsum tid) k) v;
      if listing then Buffer.add_string b (Printf.sprintf " %s[%d]=%d" [|"num"; "buckets"; "forest"|].(tid) k v)) es) tabs;
  if listing then Printf.sprintf "n=%d h=%d |%s" !n !hsum (Buffer.contents b)
  else Printf.sprintf "n=%d h=%d" !n !hsum

let do_x (t : string list) : string =
  match t with
  | "X" :: _q :: _lgwin :: _hint :: _q95 :: kind :: maskbits :: seed :: style :: dlen :: tail :: rc :: ops ->
    let (arr, mask) = make_data (i maskbits) (i seed) style (i dlen) (i tail) (rc = "1") in
    let d = buf_of arr in
    let ops = split_ops ops in
    let listing = Stdlib.List.mem ["L"] ops in
    let rec go h ceq = function
      | [] -> Ok (h, ceq)
      | o :: r -> (match apply d mask h o with
          | Ok (h', c) -> go h' (match c with Some _ -> c | None -> ceq) r
          | Panic -> Panic) in
    (match go (parse_kind kind) None ops with
     | Panic -> "PANIC"
     | Ok (h, ceq) ->
       let dmp = dump h listing in
       (match ceq with
        | None -> "OK " ^ dmp
        | Some b ->
          let c = Printf.sprintf " ceq=%d" (if b then 1 else 0) in
          (match Stdlib.String.index_opt dmp '|' with
           | Some k -> "OK " ^ Stdlib.String.sub dmp 0 (k - 1) ^ c ^ " " ^ Stdlib.String.sub dmp k (Stdlib.String.length dmp - k)
           | None -> "OK " ^ dmp ^ c)))
  | _ -> "BADREQ"

let () = iter_lines (fun line ->
  let ans = (try do_x (split_ws line) with Failure m -> "BADREQ " ^ m | Invalid_argument m -> "BADREQ " ^ m) in
  print_endline ans)
