(* Concatenator driver (C16, C12, C03): same line protocol and answer format as
   harness/src/bin/concat.rs; the driver loop is the extracted coq/model/ConcatRun.v.
     RUN <N|F> <new|wK> <-|all|i,j,..> <[p:]cap,..> <fuel> <task>...     task = F | C<hex>|C- | X
     S16 <answer line of the implementation>      -> OK | FAIL ... | INV ...   (coq/spec/ConcatSpec.v)
     S12 <final1> <out1> <final2> <out2>          -> OK | FAIL
     PWS <b0> <b1>                                -> model parse_window_size vs rfc_wbits on a 2-byte prefix
     CSPEC <wK|new> <hex member>...               -> bit-level concatenation spec: OK <hex> | NONE
     SWEEP <api> <init> <restore> <caps> <b0> <slices|-> <cont,cont,..> <pre tasks joined by +|->
        for b1 in 0..255, for each continuation: member = b0 b1 cont, script = pre F chunks X
        -> n=<cases> hash=<over the answers> bad=<indices with PANIC/LOOP> spec=<failing c16_call_ok> inv=<..>
     TSWEEP <api> <init> <restore> <caps> <t0> <slices|-> <head,head,..> <post tasks joined by +|-> <pre tasks|->
        for t1 in 0..255, for each head: member = head t0 t1 (t0 t1 = the held-back tail), script = pre F chunks post X *)
let ns_of_hex s = if s = "-" then [] else Stdlib.List.map n_of_int (hex_to_ints s)
let hex_of_ns l = if l = [] then "-" else ints_to_hex (Stdlib.List.map int_of_n l)
let ints_of_csv s = if s = "-" || s = "" then [] else
  Stdlib.List.map int_of_string (Stdlib.List.filter (fun x -> x <> "") (Stdlib.String.split_on_char ',' s))
let rc_str rc = string_of_int (int_of_n (rcode_num rc))
let outcome_str o = match o with Done rc -> rc_str rc | Panicked -> "PANIC" | Looped -> "LOOP"
let buf_hash l = Stdlib.List.fold_left (fun h x -> hmix h (int_of_n x)) 0 l

let rec_str c =
  let i x = string_of_int (int_of_n x) in
  match c.cr_rc with
  | None -> Printf.sprintf "%s,P,%s,%s,%s,%s,%s,%s,0,%s" (i c.cr_op) (i c.cr_inlen) (i c.cr_in0) (i c.cr_in1) (i c.cr_cap) (i c.cr_off0) (i c.cr_off1) (hex_of_ns c.cr_state)
  | Some rc -> Printf.sprintf "%s,%s,%s,%s,%s,%s,%s,%s,%d,%s" (i c.cr_op) (rc_str rc) (i c.cr_inlen) (i c.cr_in0) (i c.cr_in1) (i c.cr_cap) (i c.cr_off0) (i c.cr_off1) (buf_hash c.cr_buf) (hex_of_ns c.cr_state)

let answer r =
  let tr = Stdlib.List.map rec_str r.rr_trace in
  Printf.sprintf "final=%s ncalls=%d out=%s trace=%s" (outcome_str r.rr_final) (Stdlib.List.length tr)
    (hex_of_ns r.rr_emitted) (if tr = [] then "-" else Stdlib.String.concat ";" tr)

let parse_task t =
  if t = "F" then TFile else if t = "X" then TFinish
  else TChunk (ns_of_hex (Stdlib.String.sub t 1 (Stdlib.String.length t - 1)))

let run_req api init restore caps fuel tasks =
  let rall = (restore = "all") in
  let rs = if rall then [] else Stdlib.List.map n_of_int (ints_of_csv restore) in
  let percall = Stdlib.String.length caps > 2 && Stdlib.String.sub caps 0 2 = "p:" in
  let caps = if percall then Stdlib.String.sub caps 2 (Stdlib.String.length caps - 2) else caps in
  let caps = Stdlib.List.map n_of_int (ints_of_csv caps) in
  let fuel = nat_of_int (int_of_string fuel) in
  let tasks = Stdlib.List.map parse_task tasks in
  let panic_at_init = "final=PANIC ncalls=0 out=- trace=-" in
  if api = "F" then begin
    let st = if init = "new" then broccoli_create
      else broccoli_create_with_window_size (n_of_int (int_of_string (Stdlib.String.sub init 1 (Stdlib.String.length init - 1)))) in
    match st with Panic -> panic_at_init | Val st -> answer (run_ffi fuel caps percall rall rs tasks st)
  end else begin
    let s = if init = "new" then Val bc_new
      else new_with_window_size (n_of_int (int_of_string (Stdlib.String.sub init 1 (Stdlib.String.length init - 1)))) in
    match s with Panic -> panic_at_init | Val s -> answer (run_native fuel caps percall rall rs tasks s)
  end

(* ---- parse an answer line back into call records ---- *)
let field line key =
  let toks = split_ws line in
  let pre = key ^ "=" in
  let l = Stdlib.String.length pre in
  match Stdlib.List.filter (fun t -> Stdlib.String.length t >= l && Stdlib.String.sub t 0 l = pre) toks with
  | t :: _ -> Stdlib.String.sub t l (Stdlib.String.length t - l)
  | [] -> ""
let rc_of_int k = match k with
  | 0 -> Some Success | 1 -> Some NeedsMoreInput | 2 -> Some NeedsMoreOutput
  | 124 -> Some BrotliFileNotCraftedForAppend | 125 -> Some InvalidWindowSize
  | 126 -> Some WindowSizeLargerThanPreviousFile | 127 -> Some BrotliFileNotCraftedForConcatenation
  | _ -> None
let parse_rec s =
  match Stdlib.String.split_on_char ',' s with
  | [op; rc; inlen; in0; in1; cap; off0; off1; _h; st] ->
    let n x = n_of_int (int_of_string x) in
    { cr_op = n op; cr_rc = (if rc = "P" then None else rc_of_int (int_of_string rc)); cr_inlen = n inlen; cr_in0 = n in0; cr_in1 = n in1;
      cr_cap = n cap; cr_off0 = n off0; cr_off1 = n off1; cr_buf = []; cr_state = ns_of_hex st }
  | _ -> failwith "bad record"
let outcome_of_str s = match s with
  | "PANIC" -> Panicked | "LOOP" -> Looped
  | k -> (match rc_of_int (int_of_string k) with Some rc -> Done rc | None -> Panicked)

let s16 line =
  let fin = field line "final" in
  let tr = field line "trace" in
  let recs = if tr = "-" || tr = "" then [] else Stdlib.List.map parse_rec (Stdlib.String.split_on_char ';' tr) in
  let rec first_bad k p = function [] -> None | c :: t -> if p c then first_bad (k + 1) p t else Some k in
  match first_bad 0 c16_call_ok recs with
  | Some k -> Printf.sprintf "FAIL call=%d %s" k (match (Stdlib.List.nth recs k).cr_rc with None -> "panic" | Some _ -> "cursor/result-code/progress rule")
  | None ->
    if fin = "PANIC" then "FAIL panic outside a stream/finish call"
    else if fin = "LOOP" then "FAIL no termination under the protocol (call budget exhausted)"
    else match first_bad 0 c16_state_ok recs with
      | Some k -> Printf.sprintf "INV call=%d state violates the invariant" k
      | None -> "OK"

(* ---- exhaustive sweeps: one request enumerates 256 second bytes x the given continuations ---- *)
let hash_str h s = let h = ref h in Stdlib.String.iter (fun c -> h := hmix !h (Char.code c)) s; hmix !h 10
let chunks_of (m : int list) (sizes : int list) : int list list =
  let rec take k l = if k = 0 then ([], l) else match l with [] -> ([], []) | x :: t -> let (a, b) = take (k - 1) t in (x :: a, b) in
  let rec go l sizes = match l with [] -> [] | _ ->
    (match sizes with
     | [] -> [l]
     | s :: st -> let (a, b) = take (max 1 s) l in a :: go b st) in
  go m sizes
let fuel_for ntasks total ncaps = (ncaps + 2) * (3 * total + 16 * ntasks + 64)
let task_list s = if s = "-" then [] else Stdlib.String.split_on_char '+' s
let task_bytes ts = Stdlib.List.fold_left (fun a t -> if Stdlib.String.length t > 1 && t.[0] = 'C' && t <> "C-" then a + (Stdlib.String.length t - 1) / 2 else a) 0 ts
(* for b1 in 0..255, for every member (gen b1): script = pre F chunks(member) post X *)
let sweep_core api init restore caps slices pre post (gen : int -> int list list) =
  let extra = task_bytes pre + task_bytes post in
  let capstr = if Stdlib.String.length caps > 2 && Stdlib.String.sub caps 0 2 = "p:" then Stdlib.String.sub caps 2 (Stdlib.String.length caps - 2) else caps in
  let ncaps = Stdlib.List.length (ints_of_csv capstr) in
  let slices = ints_of_csv slices in
  let h = ref 0 and n = ref 0 and bad = ref [] and spec = ref [] and inv = ref [] in
  for b1 = 0 to 255 do
    Stdlib.List.iter (fun m ->
      let cs = if slices = [] then [m] else chunks_of m slices in
      let tasks = pre @ ["F"] @ Stdlib.List.map (fun c -> "C" ^ ints_to_hex c) cs @ post @ ["X"] in
      let fuel = fuel_for (Stdlib.List.length tasks) (extra + Stdlib.List.length m) ncaps in
      let ans = run_req api init restore caps (string_of_int fuel) tasks in
      h := hash_str !h ans;
      let fin = field ans "final" in
      if fin = "PANIC" || fin = "LOOP" then bad := !n :: !bad;
      (match s16 ans with
       | "OK" -> ()
       | v when Stdlib.String.length v >= 3 && Stdlib.String.sub v 0 3 = "INV" -> inv := !n :: !inv
       | _ -> spec := !n :: !spec);
      incr n) (gen b1)
  done;
  let show l = if l = [] then "-" else Stdlib.String.concat "," (Stdlib.List.rev_map string_of_int l) in
  Printf.sprintf "n=%d hash=%d bad=%s spec=%s inv=%s" !n !h (show !bad) (show !spec) (show !inv)
let hex_list s = Stdlib.List.map (fun c -> if c = "-" then [] else hex_to_ints c) (Stdlib.String.split_on_char ',' s)
let sweep api init restore caps b0 slices conts pre =
  let conts = hex_list conts in
  sweep_core api init restore caps slices (task_list pre) [] (fun b1 -> Stdlib.List.map (fun c -> b0 :: b1 :: c) conts)
(* TSWEEP: member = head t0 t1, followed by the post tasks *)
let tsweep api init restore caps t0 slices heads post pre =
  let heads = hex_list heads in
  sweep_core api init restore caps slices (task_list pre) (task_list post) (fun t1 -> Stdlib.List.map (fun hd -> hd @ [t0; t1]) heads)

let () = iter_lines (fun line ->
  match split_ws line with
  | "RUN" :: api :: init :: restore :: caps :: fuel :: tasks -> print_endline (run_req api init restore caps fuel tasks)
  | "S16" :: _ -> print_endline (s16 line)
  | ["S12"; f1; o1; f2; o2] ->
    print_endline (if c12_agree (outcome_of_str f1) (ns_of_hex o1) (outcome_of_str f2) (ns_of_hex o2) then "OK" else "FAIL emitted bytes or final result differ")
  | ["PWS"; b0; b1] ->
    let (b0, b1) = (int_of_string b0, int_of_string b1) in
    let show = function None -> "none" | Some (w, k) -> Printf.sprintf "%d/%d" (int_of_n w) (int_of_n k) in
    let m = (match parse_window_size [n_of_int b0; n_of_int b1] with Panic -> "PANIC" | Val r -> show r) in
    print_endline (Printf.sprintf "%s %s" m (show (rfc_wbits (n_of_int (b0 + 256 * b1)))))
  | ["SWEEP"; api; init; restore; caps; b0; slices; conts; pre] ->
    print_endline (sweep api init restore caps (int_of_string b0) slices conts pre)
  | ["TSWEEP"; api; init; restore; caps; t0; slices; heads; post; pre] ->
    print_endline (tsweep api init restore caps (int_of_string t0) slices heads post pre)
  | "CSPEC" :: init :: members ->
    let ov = if init = "new" then None else Some (n_of_int (int_of_string (Stdlib.String.sub init 1 (Stdlib.String.length init - 1)))) in
    let ms = Stdlib.List.map ns_of_hex members in
    (* M = the hypothesis markers_ok of theorem C03_bits (coq/spec/ConcatMarker.v) on this list *)
    let mk = if markers_ok ov ms then " M=1" else " M=0" in
    (match concat_spec ov ms with
     | None -> print_endline ("NONE" ^ mk)
     | Some b -> print_endline ("OK " ^ hex_of_ns b ^ mk))
  | _ -> print_endline "BADREQ")
