(* Concatenator driver (C16, C12, C03): same line protocol and answer format as
   harness/src/bin/concat.rs; the driver loop is the extracted coq/model/ConcatRun.v.
     RUN <N|F> <new|wK> <-|all|i,j,..> <cap,..> <fuel> <task>...     task = F | C<hex>|C- | X
     S16 <answer line of the implementation>      -> OK | FAIL ... | INV ...   (coq/spec/ConcatSpec.v)
     S12 <final1> <out1> <final2> <out2>          -> OK | FAIL
     PWS <b0> <b1>                                -> model parse_window_size vs rfc_wbits on a 2-byte prefix
     CSPEC <wK|new> <hex member>...               -> bit-level concatenation spec: OK <hex> | NONE *)
let ns_of_hex s = if s = "-" then [] else Stdlib.List.map n_of_int (hex_to_ints s)
let hex_of_ns l = if l = [] then "-" else ints_to_hex (Stdlib.List.map int_of_n l)
let ints_of_csv s = if s = "-" || s = "" then [] else
  Stdlib.List.map int_of_string (Stdlib.List.filter (fun x -> x <> "") (Stdlib.String.split_on_char ',' s))
let rc_str rc = string_of_int (int_of_n (rcode_num rc))
let outcome_str o = match o with Done rc -> rc_str rc | Panicked -> "PANIC" | Looped -> "LOOP"
let buf_hash l = Stdlib.List.fold_left (fun h x -> hmix h (int_of_n x)) 0 l

let rec_str c =
  let i x = string_of_int (int_of_n x) in
  match c.cr_rc with
  | None -> Printf.sprintf "%s,P,%s,%s,%s,%s,%s,%s,0,%s" (i c.cr_op) (i c.cr_inlen) (i c.cr_in0) (i c.cr_in1) (i c.cr_cap) (i c.cr_off0) (i c.cr_off1) (hex_of_ns c.cr_state)
  | Some rc -> Printf.sprintf "%s,%s,%s,%s,%s,%s,%s,%s,%d,%s" (i c.cr_op) (rc_str rc) (i c.cr_inlen) (i c.cr_in0) (i c.cr_in1) (i c.cr_cap) (i c.cr_off0) (i c.cr_off1) (buf_hash c.cr_buf) (hex_of_ns c.cr_state)

let answer r =
  let tr = Stdlib.List.map rec_str r.rr_trace in
  Printf.sprintf "final=%s ncalls=%d out=%s trace=%s" (outcome_str r.rr_final) (Stdlib.List.length tr)
    (hex_of_ns r.rr_emitted) (if tr = [] then "-" else Stdlib.String.concat ";" tr)

let parse_task t =
  if t = "F" then TFile else if t = "X" then TFinish
  else TChunk (ns_of_hex (Stdlib.String.sub t 1 (Stdlib.String.length t - 1)))

let run_req api init restore caps fuel tasks =
  let rall = (restore = "all") in
  let rs = if rall then [] else Stdlib.List.map n_of_int (ints_of_csv restore) in
  let caps = Stdlib.List.map n_of_int (ints_of_csv caps) in
  let fuel = nat_of_int (int_of_string fuel) in
  let tasks = Stdlib.List.map parse_task tasks in
  let panic_at_init = "final=PANIC ncalls=0 out=- trace=-" in
  if api = "F" then begin
    let st = if init = "new" then broccoli_create
      else broccoli_create_with_window_size (n_of_int (int_of_string (Stdlib.String.sub init 1 (Stdlib.String.length init - 1)))) in
    match st with Panic -> panic_at_init | Val st -> answer (run_ffi fuel caps rall rs tasks st)
  end else begin
    let s = if init = "new" then Val bc_new
      else new_with_window_size (n_of_int (int_of_string (Stdlib.String.sub init 1 (Stdlib.String.length init - 1)))) in
    match s with Panic -> panic_at_init | Val s -> answer (run_native fuel caps rall rs tasks s)
  end

(* ---- parse an answer line back into call records ---- *)
let field line key =
  let toks = split_ws line in
  let pre = key ^ "=" in
  let l = Stdlib.String.length pre in
  match Stdlib.List.filter (fun t -> Stdlib.String.length t >= l && Stdlib.String.sub t 0 l = pre) toks with
  | t :: _ -> Stdlib.String.sub t l (Stdlib.String.length t - l)
  | [] -> ""
let rc_of_int k = match k with
  | 0 -> Some Success | 1 -> Some NeedsMoreInput | 2 -> Some NeedsMoreOutput
  | 124 -> Some BrotliFileNotCraftedForAppend | 125 -> Some InvalidWindowSize
  | 126 -> Some WindowSizeLargerThanPreviousFile | 127 -> Some BrotliFileNotCraftedForConcatenation
  | _ -> None
let parse_rec s =
  match Stdlib.String.split_on_char ',' s with
  | [op; rc; inlen; in0; in1; cap; off0; off1; _h; st] ->
    let n x = n_of_int (int_of_string x) in
    { cr_op = n op; cr_rc = (if rc = "P" then None else rc_of_int (int_of_string rc)); cr_inlen = n inlen; cr_in0 = n in0; cr_in1 = n in1;
      cr_cap = n cap; cr_off0 = n off0; cr_off1 = n off1; cr_buf = []; cr_state = ns_of_hex st }
  | _ -> failwith "bad record"
let outcome_of_str s = match s with
  | "PANIC" -> Panicked | "LOOP" -> Looped
  | k -> (match rc_of_int (int_of_string k) with Some rc -> Done rc | None -> Panicked)

let s16 line =
  let fin = field line "final" in
  let tr = field line "trace" in
  let recs = if tr = "-" || tr = "" then [] else Stdlib.List.map parse_rec (Stdlib.String.split_on_char ';' tr) in
  let rec first_bad k p = function [] -> None | c :: t -> if p c then first_bad (k + 1) p t else Some k in
  match first_bad 0 c16_call_ok recs with
  | Some k -> Printf.sprintf "FAIL call=%d %s" k (match (Stdlib.List.nth recs k).cr_rc with None -> "panic" | Some _ -> "cursor/result-code/progress rule")
  | None ->
    if fin = "PANIC" then "FAIL panic outside a stream/finish call"
    else if fin = "LOOP" then "FAIL no termination under the protocol (call budget exhausted)"
    else match first_bad 0 c16_state_ok recs with
      | Some k -> Printf.sprintf "INV call=%d state violates the invariant" k
      | None -> "OK"

let () = iter_lines (fun line ->
  match split_ws line with
  | "RUN" :: api :: init :: restore :: caps :: fuel :: tasks -> print_endline (run_req api init restore caps fuel tasks)
  | "S16" :: _ -> print_endline (s16 line)
  | ["S12"; f1; o1; f2; o2] ->
    print_endline (if c12_agree (outcome_of_str f1) (ns_of_hex o1) (outcome_of_str f2) (ns_of_hex o2) then "OK" else "FAIL emitted bytes or final result differ")
  | ["PWS"; b0; b1] ->
    let (b0, b1) = (int_of_string b0, int_of_string b1) in
    let show = function None -> "none" | Some (w, k) -> Printf.sprintf "%d/%d" (int_of_n w) (int_of_n k) in
    let m = (match parse_window_size [n_of_int b0; n_of_int b1] with Panic -> "PANIC" | Val r -> show r) in
    print_endline (Printf.sprintf "%s %s" m (show (rfc_wbits (n_of_int (b0 + 256 * b1)))))
  | _ -> print_endline "BADREQ")
