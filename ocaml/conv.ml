(* Common glue appended after an extracted model.ml (monolithic extraction, so the
   constructors XI/XO/XH, N0/Npos, Z0/Zpos/Zneg, O/S are in scope). *)
let rec pos_of_int (i : int) : positive =
  if i = 1 then XH else if i land 1 = 0 then XO (pos_of_int (i lsr 1)) else XI (pos_of_int (i lsr 1))
let n_of_int (i : int) : n = if i = 0 then N0 else if i < 0 then failwith "n_of_int: negative" else Npos (pos_of_int i)
let rec int_of_pos (p : positive) : int = match p with XH -> 1 | XO q -> 2 * int_of_pos q | XI q -> 2 * int_of_pos q + 1
let int_of_n (x : n) : int = match x with N0 -> 0 | Npos p -> int_of_pos p
let z_of_int (i : int) : z = if i = 0 then Z0 else if i > 0 then Zpos (pos_of_int i) else Zneg (pos_of_int (- i))
let int_of_z (x : z) : int = match x with Z0 -> 0 | Zpos p -> int_of_pos p | Zneg p -> - (int_of_pos p)
let rec nat_of_int (i : int) : nat = if i <= 0 then O else S (nat_of_int (i - 1))
let rec int_of_nat (x : nat) : int = match x with O -> 0 | S y -> 1 + int_of_nat y
(* arbitrary-size N from a decimal string (for values above 2^62) *)
let n_of_string (s : string) : n =
  let ten = n_of_int 10 in
  let acc = ref N0 in
  Stdlib.String.iter (fun c -> acc := N.add (N.mul !acc ten) (n_of_int (Char.code c - 48))) s; !acc
let string_of_n (x : n) : string =
  match x with N0 -> "0" | _ ->
  let ten = n_of_int 10 in
  let b = Buffer.create 20 in
  let rec go x = match x with N0 -> () | _ ->
    let (q, r) = N.div_eucl x ten in go q; Buffer.add_char b (Char.chr (48 + int_of_n r)) in
  go x; Buffer.contents b
let hex_to_ints (s : string) : int list =
  let l = Stdlib.String.length s / 2 in
  Stdlib.List.init l (fun i -> int_of_string ("0x" ^ Stdlib.String.sub s (2*i) 2))
let ints_to_hex (l : int list) : string =
  Stdlib.String.concat "" (Stdlib.List.map (fun b -> Printf.sprintf "%02x" b) l)
let split_ws (s : string) : string list =
  Stdlib.List.filter (fun x -> x <> "") (Stdlib.String.split_on_char ' ' (Stdlib.String.trim s))
(* rolling hash shared with the Rust harness: h' = (h * 1000003 + x) mod 2^62 *)
let mask62 = (1 lsl 62) - 1
let hmix (h : int) (x : int) : int = ((h * 1000003) + x) land mask62
let iter_lines (f : string -> unit) : unit =
  try while true do f (input_line stdin) done with End_of_file -> ()
