(* C02 / C06 driver: runs the extracted model of CompressMulti (model/Multi.v) on one recorded
   run of the implementation.  The abstract parts of the model are instantiated from the
   implementation's own trace (hook verif_multi): what each compress_stream call of each job
   answered, what the concatenator answered for each chunk, whether a job's index comparison
   failed.  Everything else - ranges, buffers, per-job parameters, prefix truncation, index mode,
   shared-hasher ranges, which chunks reach the concatenator, the result, the error kind, the
   hand-back - is computed by the model and printed in the canonical form that checks/c02.py
   derives from the implementation's trace.

   request:  M pr=<dev|rel> ver=<cur|rep|asf> sp=<inl|thr|pool> base=<n> done=<i,i,..|-> jf=<k|-> vf=<k> uw=<0|1>
               q=<q> w=<lgwin> f=<flag bits> hint=<n> t=<threads> n=<input len> cap=<out cap> ov=<overlap>
               calls=<job.res.availout.outoffset.fin;...|-> agree=<jobs whose comparison FAILED: i,i|->
               cat=<job.code.outlen;...|-> fin=<code.outlen|->
   answer:   RES=<..> back=<0|1> cat=<len,len,..> jobs=<i:s-e:cap:pre:post:dsize:q:w:mode;..> pieces=<s-e,..>
             G <pr> <i> <t> <n>      ->  s-e | PANIC      (get_range alone, any size)            *)

let kv (toks : string list) (key : string) : string option =
  let kl = Stdlib.String.length key in
  Stdlib.List.find_map (fun x ->
    if Stdlib.String.length x >= kl && Stdlib.String.sub x 0 kl = key
    then Some (Stdlib.String.sub x kl (Stdlib.String.length x - kl)) else None) toks
let kvd toks key d = match kv toks key with Some v -> v | None -> d
let split_on c s = if s = "-" || s = "" then [] else Stdlib.String.split_on_char c s
let nn (s : string) : n = n_of_string s
let sn (x : n) : string = string_of_n x
let rec zeros (k : int) (acc : n list) : n list = if k <= 0 then acc else zeros (k - 1) (N0 :: acc)

let cat_code_of (c : int) : cat_result =
  match c with 0 -> CSuccess | 1 -> CNeedsMoreInput | 2 -> CNeedsMoreOutput | k -> CError (n_of_int k)
let cat_name (c : cat_result) : string =
  match c with
  | CSuccess -> "Success" | CNeedsMoreInput -> "NeedsMoreInput" | CNeedsMoreOutput -> "NeedsMoreOutput"
  | CError k -> (match int_of_n k with
      | 124 -> "BrotliFileNotCraftedForAppend" | 125 -> "InvalidWindowSize"
      | 126 -> "WindowSizeLargerThanPreviousFile" | 127 -> "BrotliFileNotCraftedForConcatenation"
      | x -> "Code" ^ string_of_int x)
let err_name (e : thread_error) : string =
  match e with
  | InsufficientOutputSpace -> "InsufficientOutputSpace"
  | ConcatenationDidNotProcessFullFile -> "ConcatenationDidNotProcessFullFile"
  | ConcatenationError c -> "ConcatenationError(" ^ cat_name c ^ ")"
  | ConcatenationFinalizationError c -> "ConcatenationFinalizationError(" ^ cat_name c ^ ")"
  | OtherThreadPanic -> "OtherThreadPanic"
  | ThreadExecError -> "ThreadExecError"

let flags_of (p : params) : int =
  (if p.p_catable then 1 else 0) lor (if p.p_appendable then 2 else 0) lor (if p.p_magic then 4 else 0)
let mode_name (m : hasher_mode) : string =
  match m with HFresh -> "fresh" | HKept -> "kept" | HLocal -> "local" | HChecked -> "checked" | HSupplied -> "supplied"

let version_of (s : string) : version =
  match s with "rep" -> repaired | "asf" -> asFound | _ -> current

let handle (toks : string list) : string =
  match toks with
  | "G" :: pr :: i :: t :: nv :: _ ->
    let pr = if pr = "rel" then Release else Dev in
    (match get_range pr (nn i) (nn t) (nn nv) with
     | Ok (s, e) -> sn s ^ "-" ^ sn e
     | Panic -> "PANIC")
  | "M" :: rest ->
    let pr = if kvd rest "pr=" "dev" = "rel" then Release else Dev in
    let ver = version_of (kvd rest "ver=" "cur") in
    let kind = match kvd rest "sp=" "inl" with "thr" -> ThreadPerJob | "pool" -> Pool | _ -> Inline in
    let sc = { s_kind = kind; s_base = nn (kvd rest "base=" "0");
               s_done = Stdlib.List.map nn (split_on ',' (kvd rest "done=" "-"));
               s_join_fail = (match kvd rest "jf=" "-" with "-" -> None | k -> Some (nn k));
               s_view_fail = nn (kvd rest "vf=" "0");
               s_unwrap_ok = (kvd rest "uw=" "1" = "1") } in
    let f = int_of_string (kvd rest "f=" "0") in
    let p = { p_quality = z_of_int (int_of_string (kvd rest "q=" "5")); p_lgwin = z_of_int (int_of_string (kvd rest "w=" "22"));
              p_large_window = f land 16 <> 0; p_catable = f land 1 <> 0; p_appendable = f land 2 <> 0;
              p_magic = f land 4 <> 0; p_favor = f land 8 <> 0; p_size_hint = nn (kvd rest "hint=" "0") } in
    let t = nn (kvd rest "t=" "1") and nv = nn (kvd rest "n=" "0") and cap = nn (kvd rest "cap=" "0") in
    let ov = nn (kvd rest "ov=" "3") in
    (* oracles from the implementation's trace *)
    let calls : (int * int, call_outcome) Hashtbl.t = Hashtbl.create 32 in
    let ncalls : (int, int) Hashtbl.t = Hashtbl.create 32 in
    Stdlib.List.iter (fun c ->
      match Stdlib.String.split_on_char '.' c with
      | [j; r; ao; oo; fin] ->
        let j = int_of_string j in
        let k = (try Hashtbl.find ncalls j with Not_found -> 0) in
        Hashtbl.replace ncalls j (k + 1);
        Hashtbl.replace calls (j, k) { co_result = (r = "1"); co_avail_out = nn ao; co_out_offset = nn oo; co_finished = (fin = "1") }
      | _ -> ()) (split_on ';' (kvd rest "calls=" "-"));
    let disagree = Stdlib.List.map int_of_string (split_on ',' (kvd rest "agree=" "-")) in
    let cats : (int, int * int) Hashtbl.t = Hashtbl.create 32 in
    let ncat = ref 0 in
    Stdlib.List.iter (fun c ->
      match Stdlib.String.split_on_char '.' c with
      | [_; code; outlen] -> Hashtbl.replace cats !ncat (int_of_string code, int_of_string outlen); incr ncat
      | _ -> ()) (split_on ';' (kvd rest "cat=" "-"));
    let fin = match Stdlib.String.split_on_char '.' (kvd rest "fin=" "-") with
      | [code; outlen] -> Some (int_of_string code, int_of_string outlen) | _ -> None in
    let run_job (ji : job_input) (_ : job_plan) (k : n) : call_outcome =
      match Hashtbl.find_opt calls (int_of_n ji.ji_index, int_of_n k) with
      | Some c -> c
      | None -> { co_result = false; co_avail_out = n_of_int 1; co_out_offset = N0; co_finished = false } (* never decides *) in
    let job_bytes (_ : job_input) (pl : job_plan) : n list = zeros (int_of_n pl.jp_cap) [] in
    let index_agrees (ji : job_input) (_ : job_plan) : bool = not (Stdlib.List.mem (int_of_n ji.ji_index) disagree) in
    let cat_log = ref [] in
    let cat_stream (c : int) (chunk : n list) (out : n list) (_ : n) =
      cat_log := Stdlib.List.length chunk :: !cat_log;
      match Hashtbl.find_opt cats c with
      | Some (code, outlen) -> ((cat_code_of code, c + 1), zeros outlen [])
      | None -> ((CError (n_of_int 999), c + 1), out) (* the implementation never made this call *) in
    let cat_finish (_ : int) (out : n list) (_ : n) =
      match fin with
      | Some (code, outlen) -> (cat_code_of code, zeros outlen [])
      | None -> (CError (n_of_int 998), out) in
    let o = compress_multi run_job job_bytes index_agrees 0 cat_stream cat_finish ver pr (nat_of_int 8) ov sc p t nv true cap in
    let res, back = match o with
      | OPanic -> "PANIC", "?"
      | OHang -> "HANG", "?"
      | OReturned r ->
        (match r.r_result with
         | ROk k -> "OK n=" ^ sn k
         | RErr e -> "ERR:" ^ err_name e), (if r.r_back then "1" else "0") in
    let favor = p.p_favor && int_of_n t > 1 in
    let jobs =
      match job_inputs ver pr ov p t nv with
      | Panic -> "PANIC"
      | Ok jis ->
        Stdlib.String.concat ";" (Stdlib.List.map (fun ji ->
          match plan_job ver pr ji with
          | Panic -> sn ji.ji_index ^ ":PANIC"
          | Ok pl ->
            let dd = pl.jp_dict in
            Printf.sprintf "%s:%s-%s:%s:%d:%d:%s:%d:%d:%s" (sn ji.ji_index) (sn pl.jp_start) (sn pl.jp_end) (sn pl.jp_cap)
              (flags_of pl.jp_pre lor (match ji.ji_supplied with Some _ -> 8 | None -> 0))
              (flags_of dd.dd_params) (sn dd.dd_size) (int_of_z dd.dd_params.p_quality) (int_of_z dd.dd_params.p_lgwin)
              (mode_name dd.dd_mode)) jis) in
    let pieces =
      if not favor then "-" else
      match shared_ranges ver pr ov t nv (N.sub t (n_of_int 1)) with
      | Panic -> "PANIC"
      | Ok l -> if l = [] then "-" else Stdlib.String.concat "," (Stdlib.List.map (fun (s, e) -> sn s ^ "-" ^ sn e) l) in
    Printf.sprintf "RES=%s back=%s cat=%s jobs=%s pieces=%s" res back
      (match Stdlib.List.rev !cat_log with [] -> "-" | l -> Stdlib.String.concat "," (Stdlib.List.map string_of_int l))
      jobs pieces
  | _ -> "BADREQ"

let () =
  iter_lines (fun line ->
    let toks = split_ws line in
    if toks <> [] then begin
      (try print_string (handle toks) with e -> print_string ("MODEL-EXCEPTION " ^ Printexc.to_string e));
      print_newline ()
    end)
