(* Stream model driver.  Request line = the harness's script tokens
     P=<id>:<val>,...  D=<kind>:<len>:<seed>  C=<call>,<call>,...
   followed by one token X<i>=<rec>;<rec>... per call that has trace records, where
     rec = fast,is_last,ff,result,inplace,block,outhex,lb,lbb,ipos,lfp,lpp,hint,nk:noff
   Answer = per-call observation lines joined by " ; " in the harness's format (without
   the trace parts), or MISMATCH(n)/PANIC(n)/OUTOFFUEL at the call where the model stops. *)
let i = int_of_string
let nlist_of_hex (h : string) = if h = "-" then [] else Stdlib.List.map n_of_int (hex_to_ints h)
let hex_of_nlist (l : n list) = if l = [] then "-" else ints_to_hex (Stdlib.List.map int_of_n l)
let b s = s <> "0"
let nextout_of k o = match k with 0 -> NoNone | 1 -> NoDyn (n_of_int o) | _ -> NoTiny (n_of_int o)
let parse_rec (r : string) : answer =
  match Stdlib.String.split_on_char ',' r with
  | [fast; il; ff; res; inp; blk; out; lb; lbb; ipos; lfp; lpp; hint; no] ->
    let (nk, noff) = (match Stdlib.String.split_on_char ':' no with [a; c] -> (i a, i c) | _ -> failwith "no") in
    { a_fast = b fast; a_is_last = b il; a_force_flush = b ff; a_result = b res; a_inplace = b inp;
      a_block = n_of_int (i blk); a_out = nlist_of_hex out; a_lb = n_of_int (i lb); a_lbb = n_of_int (i lbb);
      a_ipos = n_of_string ipos; a_lfp = n_of_string lfp; a_lpp = n_of_string lpp; a_hint = n_of_string hint;
      a_no = nextout_of nk noff }
  | _ -> failwith ("bad rec " ^ r)
let ss_code = function SProcessing -> 0 | SFlushRequested -> 1 | SFinished -> 2 | SMetaHead -> 3 | SMetaBody -> 4
let no_str = function NoNone -> "0:0" | NoDyn o -> "1:" ^ string_of_n o | NoTiny o -> "2:" ^ string_of_n o
let state_string (s : st) =
  Printf.sprintf "%d %s %s %s %s %s %s %s %s %s %d %d" (ss_code s.sstate_) (string_of_n s.rem_meta)
    (string_of_n s.input_pos) (string_of_n s.last_flush_pos) (string_of_n s.last_processed_pos)
    (string_of_n s.last_bytes) (string_of_n s.last_bytes_bits) (string_of_n s.avail_out_) (string_of_n s.total_out_)
    (no_str s.next_out) (if s.last_emitted then 1 else 0) (if s.initialized then 1 else 0)
let meta_byte k = ((k * 7 + 3) land 0xff)
let run_line (toks : string list) : string =
  let params = ref [] and dlen = ref 0 and calls = ref [] in
  let traces = Hashtbl.create 16 in
  let cabi = Stdlib.List.mem "ABI=c" toks in
  Stdlib.List.iter (fun t ->
    let l = Stdlib.String.length t in
    if l > 2 && Stdlib.String.sub t 0 2 = "P=" then
      params := Stdlib.List.filter (fun x -> x <> "") (Stdlib.String.split_on_char ',' (Stdlib.String.sub t 2 (l - 2)))
    else if l > 2 && Stdlib.String.sub t 0 2 = "D=" then
      (match Stdlib.String.split_on_char ':' (Stdlib.String.sub t 2 (l - 2)) with
       | [_; n; _] -> dlen := i n | _ -> failwith "D")
    else if l > 2 && Stdlib.String.sub t 0 2 = "C=" then
      calls := Stdlib.List.filter (fun x -> x <> "") (Stdlib.String.split_on_char ',' (Stdlib.String.sub t 2 (l - 2)))
    else if l > 1 && t.[0] = 'X' then begin
      let eq = Stdlib.String.index t '=' in
      let k = i (Stdlib.String.sub t 1 (eq - 1)) in
      let recs = Stdlib.List.filter (fun x -> x <> "") (Stdlib.String.split_on_char ';' (Stdlib.String.sub t (eq + 1) (l - eq - 1))) in
      Hashtbl.replace traces k (Stdlib.List.map parse_rec recs)
    end) toks;
  let s = ref init_st in
  let u32 v = if v < 0 then v + 4294967296 else v in
  Stdlib.List.iter (fun kv ->
    match Stdlib.String.split_on_char ':' kv with
    | [k; v] -> let (_, s') = set_parameter !s (n_of_int (i k)) (n_of_int (u32 (i v))) in s := s'
    | _ -> failwith "P") !params;
  let cursor = ref 0 and mcursor = ref 0 and total_arg = ref 0 in
  let out = Buffer.create 256 in
  let stop = ref false in
  let bad_answers = ref 0 in
  let bad_answers3 = ref 0 in
  Stdlib.List.iteri (fun idx call ->
    if not !stop then begin
      if idx > 0 then Buffer.add_string out " ; ";
      let recs = (try Hashtbl.find traces idx with Not_found -> []) in
      Stdlib.List.iter (fun a -> if not (answer_ok a) then incr bad_answers) recs;
      (* the further hypotheses of the round-trip theorems C01_stream_roundtrip_main_path(_meta) on every recorded
         answer, main path and quality 0/1 fast path alike (answer_ok3 of proofs/Roundtrip_defs.v: size, clean tail, and the pending bits the
         back end was invoked on are the first bits it wrote): the first answer of a call sees the encoder's pending
         bits at call entry, later ones what the previous answer left *)
      (if call.[0] <> 's' && call.[0] <> 't' then begin
        let s1 = ensure_initialized !s in
        let rec chk lb lbb = function
          | [] -> ()
          | a :: t -> (if not (answer_ok3 lb lbb a) then begin incr bad_answers3;
              if Sys.getenv_opt "VERIF_DEBUG3" <> None then
                prerr_endline (Printf.sprintf "answer_ok3 fails at call %d: answer_ok=%b size_ok=%b tail_clean=%b carry_kept=%b pending=%d/%d a_lb=%d a_lbb=%d last=%b outlen=%d"
                  idx (answer_ok a) (size_ok a) (tail_clean a) (carry_keptb lb lbb a) (int_of_n lb) (int_of_n lbb) (int_of_n a.a_lb) (int_of_n a.a_lbb) a.a_is_last
                  (Stdlib.List.length a.a_out)) end); chk a.a_lb a.a_lbb t in
        chk s1.last_bytes s1.last_bytes_bits recs end);
      let h = call.[0] and rest = Stdlib.String.sub call 1 (Stdlib.String.length call - 1) in
      let fin s' = Printf.sprintf "%d %d" (if is_finished s' then 1 else 0) (if has_more_output s' then 1 else 0) in
      match h with
      | 's' ->
        (match Stdlib.String.split_on_char ':' rest with
         | [k; v] ->
           let (r, s') = set_parameter !s (n_of_int (i k)) (n_of_int (u32 (i v))) in
           s := s';
           Buffer.add_string out (Printf.sprintf "s %d 0 0 - %s %d | %s" (if r then 1 else 0) (fin s') !total_arg (state_string s'))
         | _ -> failwith "s")
      | 't' ->
        (match take_output !s (n_of_int (i rest)) with
         | Done (bs, s') ->
           s := s';
           Buffer.add_string out (Printf.sprintf "t 1 0 0 %s %s %d | %s" (hex_of_nlist bs) (fin s') !total_arg (state_string s'))
         | Panic w -> stop := true; Buffer.add_string out (Printf.sprintf "PANIC(%d)" (int_of_n w))
         | Mismatch w -> stop := true; Buffer.add_string out (Printf.sprintf "MISMATCH(%d)" (int_of_n w))
         | OutOfFuel -> stop := true; Buffer.add_string out "OUTOFFUEL")
      | _ ->
        let op = (match h with 'p' -> OpProcess | 'f' -> OpFlush | 'e' -> OpFinish | _ -> OpMeta) in
        let (a, c) = (match Stdlib.String.split_on_char '/' rest with [a; c] -> (a, i c) | _ -> failwith "call") in
        let is_meta = (op = OpMeta) in
        let want = if a = "R" then (let r = int_of_n (!s).rem_meta in if r = 4294967295 then 0 else r) else i a in
        (* before initialisation rem_meta is 0 in the model and u32::MAX only after; the harness reads the real field,
           which is 0 before the first call as well (remaining_metadata_bytes_ initialised to 0) *)
        let offered = if is_meta then want else Stdlib.min want (!dlen - !cursor) in
        let payload = if is_meta then Stdlib.List.init (Stdlib.min offered (c + 64)) (fun k -> n_of_int (meta_byte (!mcursor + k))) else [] in
        let s_in = upd_misc !s (!s).last_emitted recs in
        (match compress_stream_from (if cabi then s_in.total_out_ else n_of_int !total_arg) s_in op payload (n_of_int offered) (n_of_int c) with
         | Done ((r, s'), x) ->
           let leftover = Stdlib.List.length s'.oracle in
           if leftover <> 0 then begin stop := true; Buffer.add_string out (Printf.sprintf "MISMATCH(leftover %d)" leftover) end
           else begin
             let consumed = int_of_n x.in_off in
             if is_meta then mcursor := !mcursor + consumed else cursor := !cursor + consumed;
             total_arg := int_of_n x.total_arg;
             s := s';
             Buffer.add_string out (Printf.sprintf "c %d %d %d %s %s %d | %s" (if r then 1 else 0) offered consumed
               (hex_of_nlist x.produced) (fin s') !total_arg (state_string s'))
           end
         | Panic w -> stop := true; Buffer.add_string out (Printf.sprintf "PANIC(%d)" (int_of_n w))
         | Mismatch w -> stop := true; Buffer.add_string out (Printf.sprintf "MISMATCH(%d)" (int_of_n w))
         | OutOfFuel -> stop := true; Buffer.add_string out "OUTOFFUEL")
    end) !calls;
  if !bad_answers > 0 then Buffer.add_string out (Printf.sprintf " ## BADANSWERS=%d" !bad_answers);
  if !bad_answers3 > 0 then Buffer.add_string out (Printf.sprintf " ## BADANSWERS3=%d" !bad_answers3);
  Buffer.contents out
(* S <obs>;<obs>...   obs = kind,op,offered,cap,ret,consumed,produced,fin,more,finacc,flushing *)
let spec_line (t : string) : string =
  let obs = Stdlib.List.filter (fun x -> x <> "") (Stdlib.String.split_on_char ';' t) in
  let parse o = match Stdlib.String.split_on_char ',' o with
    | [k; op; off; cap; ret; cons; prod; fin; more; fa; fl] ->
      { o_kind = (match k with "c" -> KStream | "t" -> KTake | _ -> KSetParam);
        o_op = (match op with "0" -> CProcess | "1" -> CFlush | "2" -> CFinish | _ -> CMeta);
        o_offered = n_of_int (i off); o_cap = n_of_int (i cap); o_ret = b ret; o_consumed = n_of_int (i cons);
        o_produced = n_of_int (i prod); o_fin = b fin; o_more = b more; o_finish_accepted = b fa; o_flush_pending = b fl }
    | _ -> failwith ("bad obs " ^ o) in
  match mon_run mon0 (Stdlib.List.map parse obs) N0 with
  | None -> "OK"
  | Some (k, c) -> Printf.sprintf "FAIL call=%d code=%d" (int_of_n k) (int_of_n c)
let () = iter_lines (fun line ->
  let toks = split_ws line in
  if toks = [] then () else
  if Stdlib.List.hd toks = "S" then print_endline (try spec_line (Stdlib.List.nth toks 1) with e -> "DRIVER-ERROR " ^ Printexc.to_string e) else
  print_endline (try run_line toks with e -> "DRIVER-ERROR " ^ Printexc.to_string e))
