"""setup_cmd: build the whole framework from files on disk (offline)."""
import json, os, sys, glob, re
ROOT = os.path.dirname(os.path.abspath(__file__))
sys.path.insert(0, os.path.join(ROOT, "tools"))
import vlib


def main():
    rc_all = 0
    ch, er = vlib.coq_regen()
    for e in er:
        print("GENERROR", e)
        rc_all = 1
    for d in glob.glob(os.path.join(vlib.COQ, "extract", "Extract*.v")):
        name = re.sub(r"^Extract", "", os.path.basename(d)[:-2])
        os.makedirs(os.path.join(vlib.BUILD, "ocaml", name.lower()), exist_ok=True)
    vlib.coq_makefile()
    # build what the registered checks need (property files + extraction units); files of
    # properties still under construction must not break the setup
    man = json.load(open(os.path.join(ROOT, "MANIFEST.json")))
    targets = []
    for c in man.get("checks", []):
        pf = os.path.join(vlib.COQ, "props", c["property_id"] + ".v")
        if os.path.exists(pf):
            targets.append("props/%s.vo" % c["property_id"])
    for d in glob.glob(os.path.join(vlib.COQ, "extract", "Extract*.v")):
        targets.append("extract/" + os.path.basename(d)[:-2] + ".vo")
    rc, out = vlib.sh("timeout 3000 make -k -j16 %s 2>&1 | tail -40" % " ".join(targets), cwd=vlib.COQ, timeout=3100)
    print(out)
    for d in sorted(glob.glob(os.path.join(vlib.ROOT, "ocaml", "*_driver.ml"))):
        name = os.path.basename(d)[:-len("_driver.ml")].upper()
        okx, logx = vlib.coq_extract(name)
        ok, log, exe = vlib.ocaml_build(name, os.path.basename(d))
        print("ocaml", name, "ok" if (ok and okx) else "FAILED " + (log if okx else logx)[-2000:])
        if not (ok and okx):
            rc_all = 1
    hd = os.path.join(ROOT, "harness")
    if not os.path.exists(os.path.join(hd, "Cargo.lock")):
        open(os.path.join(hd, "Cargo.lock"), "w").write(open(os.path.join(vlib.REPO, "Cargo.lock")).read())
    for prof in ("", "--release"):
        rc, out = vlib.sh("timeout 3000 cargo build --offline %s --bins 2>&1 | tail -15" % prof, cwd=hd,
                          env={"RUSTFLAGS": "--cfg " + vlib.GUARD}, timeout=3100)
        print(out)
        if "error" in out and "Finished" not in out:
            rc_all = 1
    return rc_all


if __name__ == "__main__":
    sys.exit(main())
