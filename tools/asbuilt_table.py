#!/usr/bin/env python3
"""Regenerates DESIGN.md section 4.0 (between ASBUILT-BEGIN/END) from MANIFEST.json and the evidence files."""
import json, os, re
ROOT = os.path.dirname(os.path.dirname(os.path.abspath(__file__)))
m = json.load(open(os.path.join(ROOT, "MANIFEST.json")))
out = []
for c in sorted(m["checks"], key=lambda c: c["property_id"]):
    p = c["property_id"]
    ev = {}
    try:
        ev = json.load(open(os.path.join(ROOT, "evidence", p + ".json")))
    except Exception:
        pass
    th = ev.get("coverage", {}).get("property_theorems", [])
    names = ", ".join("`%s`" % (t["name"] if isinstance(t, dict) else str(t)) for t in th)
    out.append("**%s** — technique: %s.  \nTheorems checked on every run (`coq/props/%s.v`, each `exact <lemma>` + `Print Assumptions` = closed): %s.  \n%s  \n*Limits / trusted:* %s\n"
               % (p, c["technique"], p, names or "(see props file)", c["level_claimed"]["text"], c.get("level_note", "")))
text = "\n".join(out)
pth = os.path.join(ROOT, "DESIGN.md")
s = open(pth).read()
a, b = s.index("<!-- ASBUILT-BEGIN -->"), s.index("<!-- ASBUILT-END -->")
s = s[:a] + "<!-- ASBUILT-BEGIN -->\n" + text + "\n" + s[b:]
open(pth, "w").write(s)
print(len(out), "properties")
