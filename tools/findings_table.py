#!/usr/bin/env python3
"""Regenerates DESIGN.md section 6.4 (between FINDINGS-BEGIN/END) from known_findings.json."""
import json, os, re
ROOT = os.path.dirname(os.path.dirname(os.path.abspath(__file__)))
k = json.load(open(os.path.join(ROOT, "known_findings.json")))
def short(t, n):
    t = re.sub(r"\s+", " ", str(t or "")).strip().replace("|", "/")
    return t if len(t) <= n else t[:n - 1].rsplit(" ", 1)[0] + " ..."
rows = ["| property | id | status | what |", "|---|---|---|---|"]
for e in sorted(k, key=lambda e: (e.get("property", ""), e.get("status", ""), e.get("id", ""))):
    st = e.get("status")
    st = "fixed `%s`" % e.get("commit", "?") if st == "fixed" else "**known** (matcher: `%s`)" % short(e.get("matcher", ""), 80)
    rows.append("| %s | %s | %s | %s |" % (e.get("property"), e.get("id"), st, short(e.get("what"), 420)))
p = os.path.join(ROOT, "DESIGN.md")
s = open(p).read()
a, b = s.index("<!-- FINDINGS-BEGIN -->"), s.index("<!-- FINDINGS-END -->")
s = s[:a] + "<!-- FINDINGS-BEGIN -->\n" + "\n".join(rows) + "\n" + s[b:]
open(p, "w").write(s)
print(len(k), "entries;", sum(1 for e in k if e.get("status") != "fixed"), "known")
