"""C09: the release sites and table sizes of the encoder's allocator protocol, regenerated from
/repo/src into coq/gen/GenAlloc.v.  The model (coq/model/Alloc.v) takes `cleanup`'s field list,
the "does this exit destroy the instance" booleans and the hasher table sizes from here, so the
theorems of props/C09.v are re-checked against what the code does now: drop one free_cell from
cleanup, or the destroy call from an exit, and the proofs no longer go through."""
import re

FIELD_CODE = {"storage_": 0, "commands_": 1, "ringbuffer_": 2, "hasher_": 3, "large_table_": 4,
              "command_buf_": 5, "literal_buf_": 6}


def _b(x):
    return "true" if x else "false"


def _strip_comments(t):
    t = re.sub(r"/\*.*?\*/", "", t, flags=re.S)
    return re.sub(r"//[^\n]*", "", t)


def generate():
    import gen_tables as gt
    out = []
    enc = gt.src("src/enc/encode.rs")
    enc_nc = _strip_comments(enc)

    # --- the long-lived allocations of BrotliEncoderStateStruct (fields whose type is allocator memory)
    m = re.search(r"pub struct BrotliEncoderStateStruct<Alloc: BrotliAlloc>\s*\{(.*?)\n\}", enc_nc, re.S)
    if not m:
        raise gt.GenError("encode.rs: struct BrotliEncoderStateStruct not found")
    fields = []
    for fm in re.finditer(r"(?:pub\s+)?(\w+)\s*:\s*([^,\n]+(?:<[^\n]*>)?[^,\n]*),", m.group(1)):
        name, ty = fm.group(1), fm.group(2)
        if "AllocatedMemory" in ty or "UnionHasher<" in ty or "RingBuffer<" in ty:
            fields.append(name)
    unknown = [f for f in fields if f not in FIELD_CODE]
    if unknown:
        raise gt.GenError("encode.rs: BrotliEncoderStateStruct has allocator-backed fields the C09 model does not know: %s" % unknown)
    out.append("(* fields of BrotliEncoderStateStruct holding allocator memory: %s *)" % ", ".join(fields))
    out.append("Definition alloc_state_fields : list N := %s." % gt.coq_list(sorted(FIELD_CODE[f] for f in fields)))

    # --- cleanup: which fields it hands back, in order
    body = _strip_comments(gt.fn_body_any(enc, "cleanup", "encode.rs"))
    sites = []
    for sm in re.finditer(r"free_cell\(\s*&mut self\.m8,\s*core::mem::take\(&mut self\.(\w+)\)|RingBufferFree\(&mut self\.m8,\s*&mut self\.(ringbuffer_)\)|DestroyHasher\(&mut self\.m8,\s*&mut self\.(hasher_)\)", body):
        name = sm.group(1) or sm.group(2) or sm.group(3)
        if name not in FIELD_CODE:
            raise gt.GenError("encode.rs cleanup: frees unknown field %s" % name)
        sites.append(FIELD_CODE[name])
    # the order of independent free_cell statements is immaterial to the ledger: canonical order
    out.append("Definition cleanup_frees : list N := %s." % gt.coq_list(sorted(set(sites))))
    pub_destroy = _strip_comments(gt.fn_body_any(enc, "BrotliEncoderDestroyInstance", "encode.rs"))
    out.append("Definition destroy_instance_calls_cleanup : bool := %s." % _b(re.search(r"\bs\.cleanup\(\)", pub_destroy)))

    # --- set_custom_dictionary: is the replaced hasher released first
    body = _strip_comments(gt.fn_body_any(enc, "set_custom_dictionary_with_optional_precomputed_hasher", "encode.rs"))
    a = re.search(r"DestroyHasher\(&mut self\.m8,\s*&mut self\.hasher_\)", body)
    b = re.search(r"self\.hasher_\s*=\s*opt_hasher\s*;", body)
    if not b:
        raise gt.GenError("encode.rs set_custom_dictionary...: `self.hasher_ = opt_hasher;` not found")
    out.append("Definition dict_frees_old_hasher : bool := %s." % _b(a and a.start() < b.start()))
    out.append("Definition dict_destroys_orig_hasher : bool := %s." % _b(re.search(r"DestroyHasher\(m16,\s*&mut orig_hasher\)", body)))
    # the hasher arrives by value: it has to be owned by the state before the function can return
    first_ret = re.search(r"\breturn\b", body)
    out.append("Definition dict_installs_hasher_before_any_return : bool := %s." % _b(first_ret is None or b.start() < first_ret.start()))
    # the condition under which the dictionary is ignored
    ig = re.search(r"if\s+dict_size == 0\s*\|\|\s*self\.params\.quality == 0\s*\|\|\s*self\.params\.quality == 1(\s*\|\|\s*size <= 1)?\s*\{", body)
    if not ig:
        raise gt.GenError("encode.rs set_custom_dictionary...: the `dictionary ignored` condition was not recognised")
    out.append("Definition dict_ignores_one_byte : bool := %s." % _b(ig.group(1)))
    # a dictionary longer than the window is cut; a supplied hasher indexed the uncut one
    cut = re.search(r"if\s+size > max_dict_size\s*\{(.*?)\n        \}\n", body, re.S)
    if not cut:
        raise gt.GenError("encode.rs set_custom_dictionary...: `if size > max_dict_size` not found")
    drops = re.search(r"if\s+has_optional_hasher\s*\{(.*?)\}", cut.group(1), re.S)
    out.append("Definition dict_cut_discards_supplied_hasher : bool := %s." % _b(drops))
    out.append("Definition dict_cut_frees_supplied_hasher : bool := %s." % _b(drops and re.search(r"DestroyHasher\(&mut self\.m8,\s*&mut self\.hasher_\)", drops.group(1))))

    # --- one-shot: which allocator builds the quality-10 hasher
    body = _strip_comments(gt.fn_body_any(enc, "encoder_compress", "encode.rs"))
    m = re.search(r"s_orig\.hasher_\s*=\s*BrotliMakeHasher\(([^,]+),", body)
    if not m:
        raise gt.GenError("encode.rs encoder_compress: `s_orig.hasher_ = BrotliMakeHasher(..` not found")
    out.append("Definition oneshot_hasher_from_state_alloc : bool := %s." % _b(m.group(1).strip() == "&mut s_orig.m8"))
    out.append("Definition oneshot_destroys : bool := %s." % _b(re.search(r"BrotliEncoderDestroyInstance\(s\)", body)))

    # --- which configurations compress_stream sends to compress_stream_fast
    m = re.search(r"if\s*\(self\.params\.quality == 0i32 \|\| self\.params\.quality == 1i32\)((?:\s*&&\s*!self\.params\.\w+)*)\s*\{[^}]*?return self\.compress_stream_fast\(", enc_nc, re.S)
    if not m:
        raise gt.GenError("encode.rs compress_stream: dispatch to compress_stream_fast not found")
    excl = re.findall(r"!self\.params\.(\w+)", m.group(1))
    unknown = [x for x in excl if x not in ("catable", "magic_number")]
    if unknown:
        raise gt.GenError("encode.rs compress_stream: fast-path dispatch depends on parameters the C09 abstraction does not know: %s" % unknown)
    out.append("Definition fast_path_excludes_catable : bool := %s." % _b("catable" in excl))
    out.append("Definition fast_path_excludes_magic : bool := %s." % _b("magic_number" in excl))

    # --- hasher table sizes
    def alloc_arg(fn):
        b = gt.fn_body_any(enc, fn, "encode.rs")
        mm = re.search(r"alloc_cell\(\s*(\d+)\s*\+\s*(\d+)\s*\)", b)
        if not mm:
            raise gt.GenError("encode.rs %s: alloc_cell(A + B) not found" % fn)
        return int(mm.group(1)) + int(mm.group(2))
    for k in ("H2", "H3", "H4", "H54"):
        out.append("Definition %s_buckets : N := %d." % (k.lower(), alloc_arg("Initialize" + k)))
    m = re.search(r"static\s+kCompressFragmentTwoPassBlockSize\s*:\s*usize\s*=\s*\(1i32\s*<<\s*(\d+)\)\s*as\s*usize\s*;", enc)
    if not m:
        raise gt.GenError("encode.rs: kCompressFragmentTwoPassBlockSize not found")
    out.append("Definition two_pass_block_bits : N := %d." % int(m.group(1)))
    br = gt.src("src/enc/backward_references/mod.rs")
    out.append("Definition h9_bucket_bits : N := %d." % gt.const(br, "H9_BUCKET_BITS", "backward_references/mod.rs"))
    out.append("Definition h9_block_bits : N := %d." % gt.const(br, "H9_BLOCK_BITS", "backward_references/mod.rs"))
    h10 = gt.src("src/enc/backward_references/hash_to_binary_tree.rs")
    out.append("Definition h10_bucket_bits : N := %d." % gt.const(h10, "BUCKET_BITS", "hash_to_binary_tree.rs"))

    # --- wrappers
    wr = _strip_comments(gt.src("src/enc/writer.rs"))
    m = re.search(r"Drop\s+for\s+CompressorWriterCustomIo<[^{]*\{\s*fn drop\(&mut self\)\s*\{(.*?)\n    \}\n", wr, re.S)
    if not m:
        raise gt.GenError("writer.rs: Drop for CompressorWriterCustomIo not found")
    out.append("Definition writer_drop_destroys : bool := %s." % _b(re.search(r"BrotliEncoderDestroyInstance\(&mut self\.state\)\s*;\s*$", m.group(1).strip())))
    rd = _strip_comments(gt.src("src/enc/reader.rs"))
    m = re.search(r"Drop\s+for\s+StateWrapper<Alloc>\s*\{\s*fn drop\(&mut self\)\s*\{(.*?)\n    \}\n", rd, re.S)
    if not m:
        raise gt.GenError("reader.rs: Drop for StateWrapper not found")
    out.append("Definition reader_drop_destroys : bool := %s." % _b(re.search(r"BrotliEncoderDestroyInstance\(&mut self\.0\)", m.group(1))))
    if not re.search(r"state\s*:\s*StateWrapper<Alloc>", rd):
        raise gt.GenError("reader.rs: CompressorReaderCustomIo.state is no longer a StateWrapper")

    # --- copy adapter: every `return` after the state exists is preceded by the destroy call, and so is the tail
    md = _strip_comments(gt.src("src/enc/mod.rs"))
    body = gt.fn_body_any(md, "BrotliCompressCustomIoCustomDict", "enc/mod.rs")
    i0 = body.find("BrotliEncoderStateStruct::new(alloc)")
    if i0 < 0:
        raise gt.GenError("enc/mod.rs BrotliCompressCustomIoCustomDict: state creation not found")
    rest = body[i0:]
    # every way out once the state exists - `return` and the `?` operator alike - has the destroy
    # call in front of it (in the text since the last opening brace, i.e. on the same path)
    returns = [mm.start() for mm in re.finditer(r"\breturn\b", rest)]
    tries = [mm.start() for mm in re.finditer(r"\?\s*;", rest)]
    loop_end = rest.rfind("BrotliEncoderDestroyInstance(s)")
    def destroyed_before(pos):
        return "BrotliEncoderDestroyInstance(s)" in rest[rest.rfind("{", 0, pos):pos]
    out.append("Definition copy_returns : N := %d." % len(returns))
    out.append("Definition copy_returns_destroying : N := %d." % sum(1 for r in returns if destroyed_before(r)))
    inner_tries = [t for t in tries if t < loop_end]
    out.append("Definition copy_try_exits : N := %d." % len(inner_tries))
    out.append("Definition copy_try_exits_destroying : N := %d." % sum(1 for t in inner_tries if destroyed_before(t)))
    # ... and per arm of the sink match: the sink failed / the sink accepted nothing
    def arm_of(pos):
        b0 = rest.rfind("{", 0, pos)
        head = rest[max(0, b0 - 40):b0]
        return "err" if re.search(r"Err\(e\)\s*=>\s*$", head) else ("zero" if re.search(r"if\s+size == 0\s*$", head) else "other")
    arms = {"err": [], "zero": [], "other": []}
    for t in inner_tries:
        arms[arm_of(t)].append(destroyed_before(t))
    if arms["other"]:
        raise gt.GenError("enc/mod.rs BrotliCompressCustomIoCustomDict: a `?` inside the loop in an arm the C09 model does not know")
    out.append("Definition copy_sink_error_try_destroys : bool := %s." % _b(all(arms["err"])))
    out.append("Definition copy_sink_zero_try_destroys : bool := %s." % _b(all(arms["zero"])))
    tail_ok = loop_end > max(returns or [0]) and "read_err?" in rest[loop_end:]
    out.append("Definition copy_tail_destroys : bool := %s." % _b(tail_ok))

    # --- threads
    th = _strip_comments(gt.src("src/enc/threading.rs"))
    body = gt.fn_body_any(th, "compress_part", "threading.rs")
    d = body.find("BrotliEncoderDestroyInstance(&mut state)")
    mm = body.find("match compression_result")
    out.append("Definition part_destroys_before_result : bool := %s." % _b(0 <= d < mm))
    out.append("Definition part_error_frees_chunk : bool := %s." % _b(re.search(r"Err\(e\)\s*=>\s*\{\s*<Alloc as Allocator<u8>>::free_cell\(&mut state\.m8,\s*mem\)", body)))
    out.append("Definition part_returns_state_alloc : bool := %s." % _b(len(re.findall(r"alloc:\s*state\.m8", body)) == 2))
    body = gt.fn_body_any(th, "CompressMulti", "threading.rs")
    n_ok_arms = len(re.findall(r"Ok\(compressed_out\)(?:\s+if [^=]*)?\s*=>", body))
    n_frees = len(re.findall(r"free_cell\(\s*&mut cur_result\.alloc,\s*compressed_out\.data_backing,?\s*\)", body))
    out.append("Definition stitch_frees_with_result_alloc : bool := %s." % _b(n_ok_arms >= 1 and n_frees == n_ok_arms))
    out.append("Definition stitch_hands_back_alloc : bool := %s." % _b(re.search(r"thread\.0\s*=\s*InternalSendAlloc::A\(cur_result\.alloc,", body)))
    out.append("Definition multi_clones_with_thread_alloc : bool := %s." % _b(re.search(r"let \(alloc, out_hasher\) = alloc_per_thread\[thread_index\]\.unwrap_view_mut\(\);\s*\*out_hasher = hasher\.clone_with_alloc\(alloc\);", body)))
    jm = re.search(r"InternalSendAlloc::Join\(join\)\s*=>\s*match join\.join\(\)\s*\{\s*Ok\(result\)\s*=>\s*result,\s*Err\(err\)\s*=>\s*\{(.*?)\n                    \}", body, re.S)
    if not jm:
        raise gt.GenError("threading.rs CompressMulti: the join arm of the stitching loop was not recognised")
    out.append("Definition join_failure_keeps_stitching : bool := %s." % _b("continue;" in jm.group(1) and not re.search(r"\breturn\b", jm.group(1))))
    out.append("Definition stitch_frees_chunks_after_failure : bool := %s." % _b(re.search(r"Ok\(compressed_out\) if compression_result\.is_err\(\) => \{.*?free_cell\(\s*&mut cur_result\.alloc,\s*compressed_out\.data_backing,?\s*\)", body, re.S) or not re.search(r"if compression_result\.is_err\(\)", body)))
    u = body.find("spawner_and_input.unwrap()")
    if u < 0:
        raise gt.GenError("threading.rs CompressMulti: `spawner_and_input.unwrap()` (input handed back) not found")
    lp = body.find("for (index, thread) in alloc_per_thread.iter_mut().enumerate()")
    early = re.search(r"compression_result\?\s*;|return\s+Err", body[lp:u][body[lp:u].rfind("thread.0 = InternalSendAlloc::A("):]) if lp >= 0 else True
    out.append("Definition multi_restores_input_on_error : bool := %s." % _b(not early))
    body = gt.fn_body_any(th, "CompressMultiSlice", "threading.rs")
    out.append("Definition slice_frees_input_with_alloc0 : bool := %s." % _b(re.search(r"alloc_per_thread\[0\]\.0\s*\{\s*<Alloc as Allocator<u8>>::free_cell\(alloc,\s*owned_input\.unwrap\(\)\)", body)))

    # --- C ABI
    fc = _strip_comments(gt.src("src/ffi/compressor.rs"))
    body = gt.fn_body_any(fc, "BrotliEncoderDestroyInstance", "ffi/compressor.rs")
    a = re.search(r"BrotliEncoderDestroyInstance\(&mut \(\*state_ptr\)\.compressor\)|\(\*state_ptr\)\.compressor\.cleanup\(\)", body)
    b = re.search(r"core::ptr::read\(state_ptr\)", body)
    out.append("Definition ffi_destroy_cleans : bool := %s." % _b(a and b and a.start() < b.start()))
    fm = _strip_comments(gt.src("src/ffi/multicompress/mod.rs"))
    body = gt.fn_body_any(fm, "help_brotli_encoder_compress_single", "ffi/multicompress/mod.rs")
    out.append("Definition ffi_single_cleans : bool := %s." % _b(re.search(r"BrotliEncoderDestroyInstance\(&mut encoder\)", body)))
    return out
