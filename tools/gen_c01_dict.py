"""C01: instantiate the decoder spec's Section parameters (RFC 7932 appendix A static dictionary,
appendix B transform list) from the data the decoder crate ships:
    brotli-decompressor-4.0.3/src/dictionary/mod.rs   (kBrotliDictionary, offsets by length)
    brotli-decompressor-4.0.3/src/transform.rs        (kPrefixSuffix, kTransforms)
Writes  <outdir>/dict.bin        122784 dictionary bytes
        <outdir>/dict_offsets.txt 25 offsets by word length
        <outdir>/transforms.txt  121 lines "<prefix hex or -> <type 0..20> <suffix hex or ->"
The Coq spec (coq/spec/Decoder.v) is parametric in both; the OCaml driver loads these files."""
import glob, os, re, sys


def crate_dir():
    c = sorted(glob.glob(os.path.expanduser("~/.cargo/registry/src/*/brotli-decompressor-4.0.3/src")))
    if not c:
        raise RuntimeError("brotli-decompressor-4.0.3 sources not found under ~/.cargo/registry/src")
    return c[0]


def int_list(body):
    return [int(x, 0) for x in re.findall(r"0x[0-9a-fA-F]+|\d+", body)]


def array_body(text, name):
    m = re.search(r"%s\s*:\s*\[[^\]]*\]\s*=\s*\[(.*?)\];" % re.escape(name), text, re.S)
    if not m:
        raise RuntimeError("array %s not found" % name)
    return m.group(1)


def generate(outdir):
    src = crate_dir()
    d = open(os.path.join(src, "dictionary", "mod.rs")).read()
    offsets = int_list(array_body(d, "kBrotliDictionaryOffsetsByLength"))
    bits = int_list(array_body(d, "kBrotliDictionarySizeBitsByLength"))
    data = int_list(array_body(d, "kBrotliDictionary"))
    assert len(offsets) == 25 and len(bits) == 25 and len(data) == 122784, (len(offsets), len(bits), len(data))
    # consistency of the shipped layout with RFC 7932 section 8 (NDBITS, DOFFSET)
    off = 0
    for l in range(25):
        assert offsets[l] == off or bits[l] == 0, "offset table inconsistent at length %d" % l
        if bits[l]:
            off += l << bits[l]
    assert off == 122784
    t = open(os.path.join(src, "transform.rs")).read()
    consts = {m.group(1): int(m.group(2)) for m in re.finditer(r"const\s+(k\w+)\s*:\s*u8\s*=\s*(\d+)\s*;", t)}
    ps = int_list(array_body(t, "kPrefixSuffix"))
    body = re.search(r"pub const kTransforms.*?=\s*\[(.*?)\];", t, re.S).group(1)
    trs = re.findall(r"Transform\s*\{\s*prefix_id:\s*(\w+),\s*transform:\s*(\w+),\s*suffix_id:\s*(\w+),?\s*\}", body)
    assert len(trs) == 121, len(trs)

    def cstr(o):
        e = ps.index(0, o)
        return ps[o:e]

    os.makedirs(outdir, exist_ok=True)
    open(os.path.join(outdir, "dict.bin"), "wb").write(bytes(data))
    open(os.path.join(outdir, "dict_offsets.txt"), "w").write(" ".join(str(x) for x in offsets) + "\n" + " ".join(str(x) for x in bits) + "\n")
    with open(os.path.join(outdir, "transforms.txt"), "w") as f:
        for p, ty, s in trs:
            hx = lambda l: "".join("%02x" % b for b in l) or "-"
            f.write("%s %d %s\n" % (hx(cstr(consts[p])), consts[ty], hx(cstr(consts[s]))))
    return len(data), len(trs)


if __name__ == "__main__":
    print(generate(sys.argv[1] if len(sys.argv) > 1 else os.path.join(os.path.dirname(os.path.dirname(os.path.abspath(__file__))), "build", "ocaml", "c01")))
