"""Static dictionary and the 121 word transforms as data for the extracted C14 / C10 drivers.
Source: brotli-decompressor-4.0.3 (the crate /repo links its dictionary and
TransformDictionaryWord from): src/dictionary/mod.rs, src/transform.rs.
Output (text): line 1 = dictionary hex, line 2 = offsets by length, then one line per
transform: <prefix hex or -> <elementary transform number> <suffix hex or ->."""
import glob, os, re, sys


def crate_dir():
    c = sorted(glob.glob(os.path.expanduser("~/.cargo/registry/src/*/brotli-decompressor-4.0.3")))
    if not c:
        raise RuntimeError("brotli-decompressor-4.0.3 sources not found under ~/.cargo/registry/src")
    return c[0]


def array_after(text, anchor):
    i = text.index(anchor)
    j = text.index("=", i)
    k = text.index("];", j)
    body = text[j + 1:k]
    return [int(x, 0) for x in re.findall(r"0x[0-9a-fA-F]+|\b\d+\b", body.split("[", 1)[1])]


def generate(path):
    d = crate_dir()
    dt = open(os.path.join(d, "src/dictionary/mod.rs")).read()
    offsets = array_after(dt, "kBrotliDictionaryOffsetsByLength")
    bits = array_after(dt, "kBrotliDictionarySizeBitsByLength")
    words = array_after(dt, "pub static kBrotliDictionary")
    assert len(offsets) == 25 and len(bits) == 25 and len(words) == 122784, (len(offsets), len(bits), len(words))
    tt = open(os.path.join(d, "src/transform.rs")).read()
    consts = {m.group(1): int(m.group(2)) for m in re.finditer(r"const\s+(k\w+)\s*:\s*u8\s*=\s*(\d+)\s*;", tt)}
    ps = array_after(tt, "const kPrefixSuffix")
    assert len(ps) == 208

    def cstr(i):
        out = []
        while ps[i] != 0:
            out.append(ps[i])
            i += 1
        return bytes(out)
    body = tt[tt.index("kTransforms"):]
    body = body[:body.index("];")]
    trs = re.findall(r"prefix_id:\s*(\w+),\s*transform:\s*(\w+),\s*suffix_id:\s*(\w+)", body)
    assert len(trs) == 121, len(trs)
    lines = [bytes(words).hex(), " ".join(str(x) for x in offsets)]
    for p, t, s in trs:
        lines.append("%s %d %s" % (cstr(consts[p]).hex() or "-", consts[t], cstr(consts[s]).hex() or "-"))
    text = "\n".join(lines) + "\n"
    os.makedirs(os.path.dirname(path), exist_ok=True)
    if not os.path.exists(path) or open(path).read() != text:
        open(path, "w").write(text)
    return {"ndbits": bits, "offsets": offsets, "transforms": len(trs)}


if __name__ == "__main__":
    print(generate(sys.argv[1]))
