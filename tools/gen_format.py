"""C01: constants and tables of the configuration / ring-buffer / format code, regenerated into
coq/gen/GenFormat.v (section "Format" of tools/gen_tables.py).

  constants.rs   kUTF8ContextLookup, kSigned3BitContextLookup, BROTLI_NUM_HISTOGRAM_DISTANCE_SYMBOLS,
                 BROTLI_MAX_NPOSTFIX, BROTLI_MAX_NDIRECT
  encode.rs      SanitizeParams / ComputeLgBlock / ComputeRbBits / ChooseDistanceParams / WrapPosition literals,
                 BROTLI_*_DISTANCE_BITS, BROTLI_NUM_DISTANCE_SHORT_CODES, RingBufferWrite's position fold
  metablock.rs   BrotliInitDistanceParams' bound table
  hq.rs          length of the distance histogram of ZopfliCostModel::set_from_commands and the cap of
                 distance_histogram_size
"""
import re


def generate():
    import gen_tables as gt
    out = []
    c = gt.src("src/enc/constants.rs")
    e = gt.src("src/enc/encode.rs")
    mb = gt.src("src/enc/metablock.rs")
    hq = gt.src("src/enc/backward_references/hq.rs")
    out.append("Definition kUTF8ContextLookup : list N := %s." % gt.coq_list(gt.static_array(c, "kUTF8ContextLookup", "constants.rs")))
    out.append("Definition kSigned3BitContextLookup : list N := %s." % gt.coq_list(gt.static_array(c, "kSigned3BitContextLookup", "constants.rs")))
    for n in ("BROTLI_NUM_HISTOGRAM_DISTANCE_SYMBOLS", "BROTLI_MAX_NPOSTFIX", "BROTLI_MAX_NDIRECT"):
        out.append("Definition %s : N := %d." % (n, gt.const(c, n, "constants.rs")))
    for n in ("BROTLI_LARGE_MAX_DISTANCE_BITS", "BROTLI_MAX_DISTANCE_BITS", "BROTLI_NUM_DISTANCE_SHORT_CODES",
              "BROTLI_MAX_ALLOWED_DISTANCE", "BROTLI_MAX_DISTANCE"):
        out.append("Definition ENC_%s : N := %d." % (n, gt.const(e, n, "encode.rs")))
    # ---- SanitizeParams
    b = gt.fn_body(e, "SanitizeParams", "encode.rs")
    m = re.search(r"(\w+)\.quality\s*=\s*min\(\s*%s\s*,\s*max\(\s*%s\s*,\s*\1\.quality\s*\)\s*\)" % (gt.LIT, gt.LIT), b)
    if not m:
        raise gt.GenError("SanitizeParams: quality clamp not found")
    out.append("Definition SAN_QMAX : Z := %d." % gt.parse_num(m.group(2), "SanitizeParams"))
    out.append("Definition SAN_QMIN : Z := %d." % gt.parse_num(m.group(3), "SanitizeParams"))
    m = re.search(r"if\s+\w+\.lgwin\s*<\s*%s\s*\{\s*\w+\.lgwin\s*=\s*%s;\s*\}\s*else\s+if\s+\w+\.lgwin\s*>\s*%s\s*\{\s*if\s+\w+\.large_window[^{]*\{\s*if\s+\w+\.lgwin\s*>\s*%s\s*\{\s*\w+\.lgwin\s*=\s*%s;\s*\}\s*\}\s*else\s*\{\s*\w+\.lgwin\s*=\s*%s;"
                  % ((gt.LIT,) * 6), b)
    if not m:
        raise gt.GenError("SanitizeParams: lgwin clamp not found")
    v = [gt.parse_num(m.group(i), "SanitizeParams") for i in range(1, 7)]
    if v[0] != v[1] or v[2] != v[5] or v[3] != v[4]:
        raise gt.GenError("SanitizeParams: lgwin clamp literals inconsistent %r" % (v,))
    out.append("Definition SAN_WMIN : Z := %d." % v[0])
    out.append("Definition SAN_WMAX : Z := %d." % v[2])
    out.append("Definition SAN_WMAX_LARGE : Z := %d." % v[3])
    # ---- ComputeLgBlock
    b = gt.fn_body(e, "ComputeLgBlock", "encode.rs")
    m = re.search(r"let\s+mut\s+(\w+)\s*:\s*i32\s*=\s*\w+\.lgblock;\s*if\s+\w+\.quality\s*==\s*%s\s*\|\|\s*\w+\.quality\s*==\s*%s\s*\{\s*\1\s*=\s*\w+\.lgwin;\s*\}\s*else\s+if\s+\w+\.quality\s*<\s*%s\s*\{\s*\1\s*=\s*%s;\s*\}\s*else\s+if\s+\1\s*==\s*%s\s*\{\s*\1\s*=\s*%s;\s*if\s+\w+\.quality\s*>=\s*%s\s*&&\s*\(\w+\.lgwin\s*>\s*\1\)\s*\{\s*\1\s*=\s*min\(\s*%s\s*,\s*\w+\.lgwin\s*\);\s*\}\s*\}\s*else\s*\{\s*\1\s*=\s*min\(\s*%s\s*,\s*max\(\s*%s\s*,\s*\1\s*\)\s*\);"
                  % ((gt.LIT,) * 10), b)
    if not m:
        raise gt.GenError("ComputeLgBlock: shape not recognised")
    v = [gt.parse_num(m.group(i), "ComputeLgBlock") for i in range(2, 12)]
    names = ["LGB_Q0", "LGB_Q1", "LGB_QLOW", "LGB_LOW", "LGB_UNSET", "LGB_DEFAULT", "LGB_QHIGH", "LGB_HIGH", "LGB_MAX", "LGB_MIN"]
    for n, x in zip(names, v):
        out.append("Definition %s : Z := %d." % (n, x))
    # ---- ComputeRbBits
    b = gt.fn_body(e, "ComputeRbBits", "encode.rs")
    m = re.search(r"%s\s*\+\s*max\(\s*\w+\.lgwin\s*,\s*\w+\.lgblock\s*\)" % gt.LIT, b)
    if not m:
        raise gt.GenError("ComputeRbBits: `k + max(lgwin, lgblock)` not found")
    out.append("Definition RB_EXTRA_BITS : Z := %d." % gt.parse_num(m.group(1), "ComputeRbBits"))
    # ---- RingBufferWrite: the fold of pos_ beyond 2^k
    b = gt.fn_body_any(e, "RingBufferWrite", "encode.rs")
    m = re.search(r"let\s+(\w+)\s*:\s*u64\s*=\s*\((\w+)\.pos_\s+as\s+u64\)\.wrapping_add\(\w+\s+as\s+u64\);\s*\2\.pos_\s*=\s*if\s+\1\s*>\s*1u64\s*<<\s*%s\s*\{\s*\(\1\s*&\s*\(1u64\s*<<\s*%s\)\.wrapping_sub\(1\)\s*\|\s*1u64\s*<<\s*%s\)\s*as\s+u32\s*\}\s*else\s*\{\s*\1\s+as\s+u32\s*\}" % ((gt.LIT,) * 3), b)
    if not m:
        raise gt.GenError("RingBufferWrite: position fold (u64 form) not found")
    v = [gt.parse_num(m.group(i), "RingBufferWrite") for i in range(3, 6)]
    if len(set(v)) != 1:
        raise gt.GenError("RingBufferWrite: fold literals differ %r" % (v,))
    out.append("Definition RB_FOLD_BITS : N := %d." % v[0])
    # ---- WrapPosition
    b = gt.fn_body(e, "WrapPosition", "encode.rs")
    m = re.search(r"let\s+mut\s+(\w+)\s*:\s*u32\s*=\s*(\w+)\s+as\s+u32;\s*let\s+(\w+)\s*:\s*u64\s*=\s*\2\s*>>\s*%s;\s*if\s+\3\s*>\s*%s\s*\{\s*\1\s*=\s*\1\s*&\s*\(1u32\s*<<\s*%s\)\.wrapping_sub\(1\)\s*\|\s*\(\(\3\.wrapping_sub\(1\)\s*&\s*1\)\s*as\s*u32\)\.wrapping_add\(1\)\s*<<\s*%s;\s*\}\s*\1\s*\}" % ((gt.LIT,) * 4), b)
    if not m:
        raise gt.GenError("WrapPosition: shape not recognised")
    v = [gt.parse_num(m.group(i), "WrapPosition") for i in range(4, 8)]
    if not (v[0] == v[2] == v[3]):
        raise gt.GenError("WrapPosition: shift literals differ %r" % (v,))
    out.append("Definition WRAP_BITS : N := %d." % v[0])
    out.append("Definition WRAP_GB_THRESHOLD : N := %d." % v[1])
    # ---- ChooseDistanceParams
    b = gt.fn_body(e, "ChooseDistanceParams", "encode.rs")
    m = re.search(r"if\s+\w+\.quality\s*>=\s*%s\s*\{\s*if\s+\w+\.mode\s*==\s*BrotliEncoderMode::BROTLI_MODE_FONT\s*\{\s*(\w+)\s*=\s*%s;\s*(\w+)\s*=\s*%s;\s*\}\s*else\s*\{\s*\2\s*=\s*\w+\.dist\.distance_postfix_bits;\s*\4\s*=\s*\w+\.dist\.num_direct_distance_codes;" % ((gt.LIT,) * 3), b)
    if not m:
        raise gt.GenError("ChooseDistanceParams: FONT branch not found")
    out.append("Definition DIST_MIN_QUALITY : Z := %d." % gt.parse_num(m.group(1), "ChooseDistanceParams"))
    out.append("Definition DIST_FONT_NPOSTFIX : N := %d." % gt.parse_num(m.group(3), "ChooseDistanceParams"))
    out.append("Definition DIST_FONT_NDIRECT : N := %d." % gt.parse_num(m.group(5), "ChooseDistanceParams"))
    # ---- BrotliInitDistanceParams
    b = gt.fn_body(mb, "BrotliInitDistanceParams", "metablock.rs")
    m = re.search(r"let\s+\w+\s*:\s*\[u32;\s*BROTLI_MAX_NPOSTFIX\s*\+\s*1\]\s*=\s*\[([^\]]*)\];", b)
    if not m:
        raise gt.GenError("BrotliInitDistanceParams: bound table not found")
    out.append("Definition DIST_BOUND : list N := %s." % gt.coq_list([gt.parse_num(t, "bound") for t in m.group(1).split(",") if t.strip()]))
    # ---- hq.rs: the distance histogram of set_from_commands and the cap of distance_histogram_size
    sizes = {"BROTLI_MAX_EFFECTIVE_DISTANCE_ALPHABET_SIZE": None, "BROTLI_SIMPLE_DISTANCE_ALPHABET_SIZE": None}
    sizes["BROTLI_MAX_EFFECTIVE_DISTANCE_ALPHABET_SIZE"] = gt.const(hq, "BROTLI_MAX_EFFECTIVE_DISTANCE_ALPHABET_SIZE", "hq.rs")
    m = re.search(r"pub const BROTLI_SIMPLE_DISTANCE_ALPHABET_SIZE\s*:\s*usize\s*=\s*encode::BROTLI_NUM_DISTANCE_SHORT_CODES\s*as\s*usize\s*\+\s*\(\s*%s\s*\*\s*encode::BROTLI_LARGE_MAX_DISTANCE_BITS\s*as\s*usize\s*\)\s*;" % gt.LIT, hq)
    if not m:
        raise gt.GenError("hq.rs: BROTLI_SIMPLE_DISTANCE_ALPHABET_SIZE expression not recognised")
    sizes["BROTLI_SIMPLE_DISTANCE_ALPHABET_SIZE"] = (gt.const(e, "BROTLI_NUM_DISTANCE_SHORT_CODES", "encode.rs")
                                                      + gt.parse_num(m.group(1), "hq.rs") * gt.const(e, "BROTLI_LARGE_MAX_DISTANCE_BITS", "encode.rs"))
    b = gt.fn_body(hq, "set_from_commands", "hq.rs")
    m = re.search(r"let\s+mut\s+(\w+)\s*=\s*\[0u32;\s*(\w+)\s*\];\s*let\s+mut\s+cost_literal", b)
    if not m:
        raise gt.GenError("hq.rs set_from_commands: histogram_dist declaration not found")
    hist_name = m.group(1)
    tok = m.group(2)
    if tok in sizes:
        n = sizes[tok]
    elif tok.isdigit():
        n = int(tok)
    else:
        raise gt.GenError("hq.rs: unknown size constant %s" % tok)
    out.append("Definition HQ_HIST_DIST_LEN : N := %d." % n)
    out.append("Definition HQ_SIMPLE_DISTANCE_ALPHABET_SIZE : N := %d." % sizes["BROTLI_SIMPLE_DISTANCE_ALPHABET_SIZE"])
    m = re.search(r"distance_histogram_size\s*:\s*min\(\s*dist\.alphabet_size\s*,\s*%s\s*\)" % gt.LIT, hq)
    if not m:
        raise gt.GenError("hq.rs: distance_histogram_size cap not found")
    out.append("Definition HQ_DIST_HIST_CAP : N := %d." % gt.parse_num(m.group(1), "hq.rs"))
    # ---- the last-distance cache around meta-blocks that are re-emitted uncompressed (WriteMetaBlockInternal),
    #      its hand-over to the next meta-block (encode_data) and its poisoning for catable streams (ensure_initialized)
    def nocomment(t):
        t = re.sub(r"//[^\n]*", "", t)
        return re.sub(r"/\*.*?\*/", "", t, flags=re.S)
    w = nocomment(gt.fn_body_any(e, "WriteMetaBlockInternal", "encode.rs"))
    restore = r"(\w+)\[\.\.4\]\.clone_from_slice\(&(\w+)\[\.\.4\]\);"
    m1 = re.search(r"if\s+!should_compress\((?:[^()]|\([^()]*\))*\)\s*\{(.*?)store_uncompressed_meta_block\(", w, re.S)
    if not m1:
        raise gt.GenError("WriteMetaBlockInternal: `if !should_compress(..) { .. store_uncompressed_meta_block(` not found")
    r1 = re.search(restore, m1.group(1))
    m2 = re.search(r"if\s+bytes\s*\+\s*4\s*\+\s*saved_byte_location\s*<\s*\(\*storage_ix\s*>>\s*3\)\s*\{(.*?)store_uncompressed_meta_block\(", w, re.S)
    if not m2:
        raise gt.GenError("WriteMetaBlockInternal: the `bytes + 4 + saved_byte_location < (*storage_ix >> 3)` fallback not found")
    r2 = re.search(restore, m2.group(1))
    sig = re.search(r"(\w+)\s*:\s*&\[i32;\s*kNumDistanceCacheEntries\],\s*(\w+)\s*:\s*&mut\s*\[i32;\s*16\]", w)
    if not sig:
        raise gt.GenError("WriteMetaBlockInternal: saved / current distance cache parameters not found")
    saved_name, cur_name = sig.group(1), sig.group(2)
    ok1 = bool(r1) and r1.group(1) == cur_name and r1.group(2) == saved_name
    ok2 = bool(r2) and r2.group(1) == cur_name and r2.group(2) == saved_name
    out.append("Definition WMB_RESTORES_WHEN_NOT_COMPRESSING : bool := %s." % ("true" if ok1 else "false"))
    out.append("Definition WMB_RESTORES_WHEN_BIGGER_THAN_INPUT : bool := %s." % ("true" if ok2 else "false"))
    ed = nocomment(gt.fn_body_any(e, "encode_data", "encode.rs"))
    out.append("Definition ENC_SAVES_CACHE_AFTER_BLOCK : bool := %s." %
               ("true" if re.search(r"self\.saved_dist_cache_\s*\.clone_from_slice\(self\.dist_cache_\.split_at\(4\)\.0\);", ed) else "false"))
    ei = nocomment(gt.fn_body_any(e, "ensure_initialized", "encode.rs"))
    mc = re.search(r"if\s+self\.params\.catable\s*\{(.*?)\}\s*self\.is_initialized_\s*=\s*true;", ei, re.S)
    if not mc:
        raise gt.GenError("ensure_initialized: the catable branch not found")
    pd = re.search(r"for\s+(\w+)\s+in\s+self\.dist_cache_\.iter_mut\(\)\s*\{\s*\*\1\s*=\s*%s;\s*\}" % gt.LIT, mc.group(1))
    psv = re.search(r"for\s+(\w+)\s+in\s+self\.saved_dist_cache_\.iter_mut\(\)\s*\{\s*\*\1\s*=\s*%s;\s*\}" % gt.LIT, mc.group(1))
    out.append("Definition CATABLE_POISON_DIST_CACHE : option Z := %s." % (("Some %d%%Z" % gt.parse_num(pd.group(2), "poison")) if pd else "None"))
    out.append("Definition CATABLE_POISON_SAVED_DIST_CACHE : option Z := %s." % (("Some %d%%Z" % gt.parse_num(psv.group(2), "poison")) if psv else "None"))
    # SetCost is handed the histogram and distance_histogram_size
    if not re.search(r"SetCost\(\s*&" + re.escape(hist_name) + r"\[\.\.\],\s*self\.distance_histogram_size\s*as\s*usize,", b):
        raise gt.GenError("hq.rs set_from_commands: SetCost(&histogram_dist[..], self.distance_histogram_size ..) not found")
    return out
