"""Section Hashers (C19) of the translator: constants of the match-index (hasher) kinds, copied
out of src/enc/backward_references/{mod.rs,hash_to_binary_tree.rs}.  Registered in
gen_tables.SECTIONS["Hashers"]; output coq/gen/GenHashers.v."""
import re
import gen_tables as G


def impl_body(text, trait, ty, anchor):
    """text of `impl<..> Trait for Ty<..> { ... }`"""
    m = re.search(r"impl[^{;]*?\b" + re.escape(trait) + r"\s+for\s+" + re.escape(ty) + r"\b[^{]*\{", text)
    if not m:
        raise G.GenError("%s: impl %s for %s not found" % (anchor, trait, ty))
    i = m.end() - 1
    depth = 0
    for j in range(i, len(text)):
        if text[j] == "{":
            depth += 1
        elif text[j] == "}":
            depth -= 1
            if depth == 0:
                return text[m.start():j + 1]
    raise G.GenError("%s: impl %s for %s unbalanced" % (anchor, trait, ty))


def fnb(text, name, anchor):
    """function text from `fn name` to its closing brace (tolerates nested generics)"""
    m = re.search(r"fn\s+" + re.escape(name) + r"\b", text)
    if not m:
        raise G.GenError("%s: fn %s not found" % (anchor, name))
    i = text.index("{", m.end())
    depth = 0
    for j in range(i, len(text)):
        if text[j] == "{":
            depth += 1
        elif text[j] == "}":
            depth -= 1
            if depth == 0:
                return text[m.start():j + 1]
    raise G.GenError("%s: fn %s unbalanced" % (anchor, name))


_SUF = r"(?:u8|u16|u32|u64|usize|i8|i16|i32|i64|isize)"


def const_expr(expr, anchor):
    """value of a constant expression made of literals, << - + * and parentheses"""
    e = re.sub(r"//[^\n]*", "", expr)
    e = re.sub(r"\s+as\s+\(?\w+\)?", "", e)
    e = re.sub(r"(?<=[0-9a-fA-F_])_?" + _SUF + r"\b", "", e)
    e = e.replace("_", "").strip()
    if not re.match(r"^[0-9a-fA-Fx\s()<>+*\-]+$", e) or not e:
        raise G.GenError("%s: not a constant expression: %r" % (anchor, expr.strip()))
    try:
        v = eval(e, {"__builtins__": {}}, {})
    except Exception as ex:  # noqa
        raise G.GenError("%s: cannot evaluate %r (%s)" % (anchor, expr.strip(), ex))
    if not isinstance(v, int) or v < 0:
        raise G.GenError("%s: %r is not a natural number" % (anchor, expr.strip()))
    return v


def const_fn(impl, name, anchor):
    """value of `fn name(&self) -> T { <constant expression> }` inside an impl block"""
    body = fnb(impl, name, anchor)
    inner = body[body.index("{") + 1: body.rindex("}")]
    return const_expr(inner, anchor + "::" + name)


def generate():
    out = []
    t = G.src("src/enc/backward_references/mod.rs")
    D = lambda n, v: out.append("Definition %s : N := %d." % (n, v))
    for n in ("kHashMul32", "kHashMul64", "kHashMul64Long"):
        D(n, G.const(t, n, "backward_references/mod.rs"))
    # BasicHasher kinds
    for k in ("H2", "H3", "H4", "H54"):
        imp = impl_body(t, "BasicHashComputer", k + "Sub", "mod.rs")
        D(k + "_BUCKET_BITS", const_fn(imp, "BUCKET_BITS", k))
        D(k + "_BUCKET_SWEEP", const_fn(imp, "BUCKET_SWEEP", k))
        hb = fnb(imp, "HashBytes", k)
        m = re.search(r"\(BROTLI_UNALIGNED_LOAD64\(\w+\)\s*<<\s*\(([^;]*?)\)\)\s*\.wrapping_mul\(kHashMul64\)\s*;", hb, re.S)
        if not m:
            raise G.GenError(k + "::HashBytes: `(LOAD64(data) << (..)).wrapping_mul(kHashMul64)` not found")
        D(k + "_HASH_SHL", const_expr(m.group(1), k + "::HashBytes shl"))
        m = re.search(r"\(\w+\s*>>\s*\(([^;]*?)\)\)\s*as\s+u32", hb, re.S)
        if not m:
            raise G.GenError(k + "::HashBytes: `(h >> (..)) as u32` not found")
        D(k + "_HASH_SHR", const_expr(m.group(1), k + "::HashBytes shr"))
    # BasicHasher: Store / StoreRangeOptBasic shape constants
    imp = impl_body(t, "AnyHasher", "BasicHasher", "mod.rs")
    st = fnb(imp, "Store", "BasicHasher")
    D("BASIC_SWEEP_SHIFT", G.nums_in(st, r"\(\w+\s*>>\s*" + G.LIT + r"\)\.wrapping_rem\(self\.buckets_\.BUCKET_SWEEP\(\)\s*as\s*usize\)",
                                     "BasicHasher::Store `(ix >> 3).wrapping_rem(BUCKET_SWEEP)`", 1)[0])
    ob = fnb(t, "StoreRangeOptBasic", "mod.rs")
    m = re.search(r"let\s+(\w+)\s*=\s*" + G.LIT + r"\s*;\s*if\s+\w+\s*>=\s*\w+\s*\+\s*(\w+)\s*\*\s*2\s*\{", ob)
    if not m or m.group(1) != m.group(3):
        raise G.GenError("StoreRangeOptBasic: `let lookahead = N; if ix_end >= ix_start + lookahead * 2` not found")
    D("OPT_BASIC_LOOKAHEAD", G.parse_num(m.group(2), "StoreRangeOptBasic lookahead"))
    D("OPT_BASIC_CHUNK", G.nums_in(ob, r"let\s+\w+\s*=\s*\(\w+\s*-\s*\w+\)\s*/\s*" + G.LIT, "StoreRangeOptBasic chunk", 1)[0])
    D("OPT_BASIC_WORD", G.nums_in(ob, r"split_at\(\w+\)\.1\.split_at\(" + G.LIT + r"\)", "StoreRangeOptBasic word", 1)[0])
    # AdvHasher specialisations
    for k, ty in (("HQ5", "HQ5Sub"), ("HQ7", "HQ7Sub")):
        imp = impl_body(t, "AdvHashSpecialization", ty, "mod.rs")
        for f in ("hash_shift", "bucket_size", "block_bits", "block_size", "block_mask", "get_hash_mask", "HashTypeLength", "StoreLookahead"):
            D("%s_%s" % (k, f), const_fn(imp, f, ty))
    imp = impl_body(t, "AdvHashSpecialization", "H5Sub", "mod.rs")
    for f in ("get_hash_mask", "HashTypeLength", "StoreLookahead"):
        D("H5_%s" % f, const_fn(imp, f, "H5Sub"))
    imp = impl_body(t, "AdvHashSpecialization", "H6Sub", "mod.rs")
    for f in ("HashTypeLength", "StoreLookahead"):
        D("H6_%s" % f, const_fn(imp, f, "H6Sub"))
    ob = fnb(t, "StoreRangeOptBatch", "mod.rs")
    if not re.search(r"if\s+\w+\s*>=\s*\w+\s*\+\s*(\w+)\s*\*\s*2\s*&&\s*\1\s*==\s*4\s*\{", ob):
        raise G.GenError("StoreRangeOptBatch: entry condition changed")
    D("OPT_BATCH_CHUNK", G.nums_in(ob, r"let\s+\w+\s*=\s*\(\w+\s*-\s*\w+\)\s*/\s*" + G.LIT, "StoreRangeOptBatch chunk", 1)[0])
    mf = fnb(t, "BulkStoreRangeOptMemFetch", "mod.rs")
    D("MEMFETCH_REG_SIZE", G.nums_in(mf, r"const\s+REG_SIZE\s*:\s*usize\s*=\s*" + G.LIT, "MemFetch REG_SIZE", 1)[0])
    if not re.search(r"if\s+\w+\s*==\s*usize::MAX\s*&&\s*\w+\s*>\s*\w+\s*\+\s*REG_SIZE\s*&&\s*\w+\s*==\s*4\s*\{", mf):
        raise G.GenError("BulkStoreRangeOptMemFetch: entry condition changed")
    # H9
    for n in ("H9_BUCKET_BITS", "H9_BLOCK_BITS"):
        D(n, G.const(t, n, "mod.rs"))
    # H10
    h = G.src("src/enc/backward_references/hash_to_binary_tree.rs")
    D("H10_BUCKET_BITS", G.const(h, "BUCKET_BITS", "hash_to_binary_tree.rs"))
    imp = impl_body(h, "H10Params", "H10DefaultParams", "hash_to_binary_tree.rs")
    D("H10_MAX_TREE_SEARCH_DEPTH", const_fn(imp, "max_tree_search_depth", "H10DefaultParams"))
    D("H10_MAX_TREE_COMP_LENGTH", const_fn(imp, "max_tree_comp_length", "H10DefaultParams"))
    sf = fnb(h, "StoreAndFindMatchesH10", "hash_to_binary_tree.rs")
    D("H10_DEPTH", G.nums_in(sf, r"let\s+mut\s+depth_remaining\s*=\s*" + G.LIT, "H10 depth_remaining", 1)[0])
    D("H10_COMP_CAP", G.nums_in(sf, r"let\s+max_comp_len\s*=\s*min\(max_length,\s*" + G.LIT + r"\)", "H10 max_comp_len", 1)[0])
    D("H10_REROOT_MIN", G.nums_in(sf, r"let\s+should_reroot_tree\s*=\s*max_length\s*>=\s*" + G.LIT, "H10 reroot", 1)[0])
    imp = impl_body(h, "AnyHasher", "H10", "hash_to_binary_tree.rs")
    sr = fnb(imp, "StoreRange", "H10")
    D("H10_RANGE_TAIL", G.nums_in(sr, r"ix_start\.wrapping_add\(" + G.LIT + r"\)\s*<=\s*ix_end", "H10 StoreRange tail", 1)[0])
    D("H10_RANGE_THIN_MIN", G.nums_in(sr, r"ix_start\.wrapping_add\(" + G.LIT + r"\)\s*<=\s*i\b", "H10 StoreRange thin threshold", 1)[0])
    D("H10_RANGE_STEP", G.nums_in(sr, r"j\s*=\s*j\.wrapping_add\(" + G.LIT + r"\)", "H10 StoreRange step", 1)[0])
    st = fnb(imp, "Store", "H10")
    D("H10_WINDOW_GAP", G.nums_in(st, r"window_mask_\.wrapping_sub\(" + G.LIT + r"\)\.wrapping_add\(1\)", "H10 max_backward", 1)[0])
    return out
