"""C11: literal constants and two structural anchors of the reader / writer / copy adapters
(src/enc/reader.rs, src/enc/writer.rs, src/enc/mod.rs), regenerated into coq/gen/GenIO.v."""
import re


def generate():
    import gen_tables as gt
    out = []
    rd = gt.src("src/enc/reader.rs")
    wr = gt.src("src/enc/writer.rs")
    md = gt.src("src/enc/mod.rs")
    m = re.search(r"else\s+if\s+self\.input_offset\s*\+\s*(\d+)\s*>\s*self\.input_buffer\.slice_mut\(\)\.len\(\)\s*&&\s*\w+\s*<\s*self\.input_offset", rd)
    if not m:
        raise gt.GenError("reader.rs copy_to_front: `input_offset + K > len && avail_in < input_offset` not found")
    out.append("Definition IO_COPY_TO_FRONT_SLACK : nat := %d." % int(m.group(1)))
    for name, text, fn in (("READER", rd, "reader.rs"), ("WRITER", wr, "writer.rs")):
        m = re.search(r"if\s+buffer_size\s*==\s*0\s*\{\s*(\d+)\s*\}\s*else\s*\{\s*buffer_size\s*\}", text)
        if not m:
            raise gt.GenError("%s: `if buffer_size == 0 { K } else { buffer_size }` not found" % fn)
        out.append("Definition IO_%s_DEFAULT_BUFFER : nat := %d." % (name, int(m.group(1))))
    # the loop of CustomRead::read (`while <output cursor> == 0`) and whether it is guarded against an
    # empty caller buffer (local / parameter names are not part of the anchors)
    m = re.search(r"fn\s+read\s*\(\s*&mut\s+self\s*,\s*(\w+)\s*:\s*&mut\s*\[u8\]\s*\)\s*->\s*Result<usize,\s*ErrType>\s*\{(.*?)\n    \}\n", rd, re.S)
    loop = re.search(r"while\s+\w+\s*==\s*0\s*\{", m.group(2)) if m else None
    if not m or not loop:
        raise gt.GenError("reader.rs: CustomRead::read with its `while <cursor> == 0` loop not found")
    body, par = m.group(2), re.escape(m.group(1))
    guard = re.search(r"^\s*if\s+" + par + r"\.is_empty\(\)\s*\{\s*(?://[^\n]*\n\s*)*return\s+Ok\(0\);\s*\}", body, re.M)
    guarded = bool(guard) and loop.start() > guard.start()
    out.append("Definition io_reader_guards_empty_buffer : bool := %s." % ("true" if guarded else "false"))
    # the write loop of the copy adapter and whether a zero-length write ends it
    m = re.search(r"while\s+\w+\s*<\s*\w+\s*\{\s*match\s+\w+\.write\((.*?)\n                \}\n", md, re.S)
    if not m:
        raise gt.GenError("enc/mod.rs: the `while <offset> < <limit> { match w.write(..) {..} }` loop not found")
    z = re.search(r"Ok\((\w+)\)\s*=>\s*\{\s*if\s+\1\s*==\s*0\s*\{(.*?)\}\s*\w+\s*\+=\s*\1;", m.group(1), re.S)
    zero_err = bool(z) and "return Err(" in z.group(2)
    out.append("Definition io_copy_zero_write_is_error : bool := %s." % ("true" if zero_err else "false"))
    return out
