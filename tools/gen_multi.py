"""C02/C06: constants and structural anchors of the multi-threaded orchestration
(src/enc/threading.rs, src/enc/encode.rs, src/enc/fixed_queue.rs), regenerated into coq/gen/GenMulti.v.
The booleans say which of the repaired code paths are present; model/Multi.v builds `Current`
from them and props/C02.v, props/C06.v pin `Current = Repaired`."""
import re


def _fn_body(text, header_re, what, gt):
    m = re.search(header_re, text)
    if not m:
        raise gt.GenError("%s: function header not found" % what)
    i = text.index("{", m.end() - 1) if text[m.end() - 1] != "{" else m.end() - 1
    depth, j = 0, i
    while j < len(text):
        if text[j] == "{":
            depth += 1
        elif text[j] == "}":
            depth -= 1
            if depth == 0:
                return text[i:j + 1]
        j += 1
    raise gt.GenError("%s: unbalanced braces" % what)


def _strip(text):
    """drop line comments and cfg(brotli_verif) hook statements / blocks (add-only, not part of the logic)"""
    text = re.sub(r"//[^\n]*", "", text)
    out, i = [], 0
    pat = re.compile(r"#\[cfg\(all\(brotli_verif[^\]]*\]\s*")
    while True:
        m = pat.search(text, i)
        if not m:
            out.append(text[i:])
            break
        out.append(text[i:m.start()])
        j = m.end()
        # the hooked item: a `{ .. }` block, or a statement up to its `;` at bracket depth 0
        depth, k = 0, j
        if text[j] == "{":
            while k < len(text):
                if text[k] == "{":
                    depth += 1
                elif text[k] == "}":
                    depth -= 1
                    if depth == 0:
                        k += 1
                        break
                k += 1
        else:
            while k < len(text):
                c = text[k]
                if c in "([{":
                    depth += 1
                elif c in ")]}":
                    depth -= 1
                elif c == ";" and depth == 0:
                    k += 1
                    break
                k += 1
        i = k
    return "".join(out)


def generate():
    """names of locals and parameters are not part of the anchors (\\w+ with back-references);
    struct fields, methods, constants and the shape of the expressions are"""
    import gen_tables as gt
    out = []
    th = gt.src("src/enc/threading.rs")
    en = gt.src("src/enc/encode.rs")
    fq = gt.src("src/enc/fixed_queue.rs")
    W = r"(\w+)"
    m = re.search(r"pub\s+const\s+MAX_THREADS\s*:\s*usize\s*=\s*(\d+)\s*;", fq)
    if not m:
        raise gt.GenError("fixed_queue.rs: MAX_THREADS not found")
    out.append("Definition MULTI_MAX_THREADS : N := %d." % int(m.group(1)))
    # get_range: the exact expression
    m = re.search(r"fn\s+get_range\s*\(\s*" + W + r"\s*:\s*usize\s*,\s*" + W + r"\s*:\s*usize\s*,\s*" + W + r"\s*:\s*usize\s*,?\s*\)\s*->\s*Range<usize>\s*\{\s*"
                  r"\(\(\1\s*\*\s*\3\)\s*/\s*\2\)\s*\.\.\s*\(\(\(\1\s*\+\s*1\)\s*\*\s*\3\)\s*/\s*\2\)\s*\}", th)
    out.append("Definition multi_get_range_is_floor_split : bool := %s." % ("true" if m else "false"))
    # set_custom_dictionary_with_optional_precomputed_hasher
    sd = _strip(_fn_body(en, r"pub\s+fn\s+set_custom_dictionary_with_optional_precomputed_hasher\s*\(", "encode.rs set_custom_dictionary_with_optional_precomputed_hasher", gt))
    m = re.search(r"let\s+" + W + r"\s*:\s*usize\s*=\s*\(1usize\s*<<\s*self\.params\.lgwin\)\.wrapping_sub\((\d+)\)\s*;", sd)
    if not m:
        raise gt.GenError("encode.rs: <max dictionary size> = (1 << lgwin) - K not found")
    maxd = re.escape(m.group(1))
    out.append("Definition MULTI_DICT_GAP : N := %d." % int(m.group(2)))
    # `if dict_size == 0 || quality == 0 || quality == 1 [|| size <= K] {`: dictionaries of at most K bytes are ignored (K = 0: only the empty one)
    m = re.search(r"if\s+\w+\s*==\s*0\s*\|\|\s*self\.params\.quality\s*==\s*0\s*\|\|\s*self\.params\.quality\s*==\s*1\s*(?:\|\|\s*\w+\s*<=\s*(\d+)\s*)?\{", sd)
    if not m:
        raise gt.GenError("encode.rs: the early return of set_custom_dictionary (empty dictionary, quality 0/1) not found")
    out.append("Definition MULTI_DICT_MIN : N := %d." % (int(m.group(1)) if m.group(1) else 0))
    # the window is the sanitized one: max_dict_size is computed after ensure_initialized()
    pos_init = sd.find("ensure_initialized()")
    pos_max = sd.find(".wrapping_sub(")
    out.append("Definition multi_dict_window_after_sanitize : bool := %s." % ("true" if 0 <= pos_init < pos_max else "false"))
    m = re.search(r"if\s+\w+\s*>\s*" + maxd + r"\s*\{(.*?)\n        \}\n", sd, re.S)
    if not m:
        raise gt.GenError("encode.rs: `if size > <max dictionary size> {` block not found")
    blk = m.group(1)
    discard = bool(re.search(r"if\s+" + W + r"\s*\{[^}]*DestroyHasher\([^)]*&mut\s+self\.hasher_\)\s*;[^}]*\1\s*=\s*false\s*;", blk, re.S))
    out.append("Definition multi_discards_truncated_hasher : bool := %s." % ("true" if discard else "false"))
    m = re.search(r"if\s+cfg!\(debug_assertions\)\s*\|\|\s*!\w+\s*\{", sd)
    chk = re.search(r"debug_assert!\(\w+\s*==\s*self\.hasher_\)", sd) or re.search(r"debug_assert!\(self\.hasher_\s*==\s*\w+\)", sd)
    out.append("Definition multi_dev_profile_compares_hasher : bool := %s." % ("true" if (m and chk) else "false"))
    # SanitizeParams
    sp = _strip(_fn_body(en, r"pub\s+fn\s+SanitizeParams\s*\(", "encode.rs SanitizeParams", gt))
    m = re.search(r"\w+\.quality\s*=\s*min\((\d+)i32,\s*max\((\d+)i32,\s*\w+\.quality\)\)", sp)
    m2 = re.search(r"if\s+\w+\.lgwin\s*<\s*(\d+)i32\s*\{\s*\w+\.lgwin\s*=\s*(\d+)i32;\s*\}\s*else\s+if\s+\w+\.lgwin\s*>\s*(\d+)i32\s*\{", sp)
    m3 = re.search(r"if\s+\w+\.lgwin\s*>\s*(\d+)i32\s*\{\s*\w+\.lgwin\s*=\s*(\d+)i32;", sp)
    if not (m and m2 and m3):
        raise gt.GenError("encode.rs SanitizeParams: quality / lgwin clamps not found")
    out.append("Definition MULTI_QUALITY_MAX : Z := %d." % int(m.group(1)))
    out.append("Definition MULTI_LGWIN_MIN : Z := %d." % int(m2.group(1)))
    out.append("Definition MULTI_LGWIN_MAX : Z := %d." % int(m2.group(3)))
    out.append("Definition MULTI_LGWIN_LARGE_MAX : Z := %d." % int(m3.group(1)))
    # compress_part: how the loop over compress_stream ends
    cp = _strip(_fn_body(th, r"fn\s+compress_part\s*<", "threading.rs compress_part", gt))
    fin = bool(re.search(r"if\s+" + W + r"\s*&&\s*\w+\.is_finished\(\)\s*\{\s*\w+\s*=\s*Ok\(\w+\);\s*break;\s*\}\s*else\s+if\s+!\1\s*\|\|\s*\w+\s*==\s*0\s*\{", cp))
    old = bool(re.search(r"if\s+\w+\s*\{\s*\w+\s*=\s*Ok\(\w+\);\s*break;\s*\}\s*else\s+if\s+\w+\s*==\s*0\s*\{", cp))
    if fin == old:
        raise gt.GenError("threading.rs compress_part: neither (or both) of the known forms of the loop exit found")
    out.append("Definition multi_part_requires_finished : bool := %s." % ("true" if fin else "false"))
    ov = all(re.search(r"if\s+\w+\s*!=\s*0\s*\{[^}]*\.params\." + fld + r"\s*=\s*" + val + r"\s*;", cp, re.S) for fld, val in (("catable", "true"), ("magic_number", "false"))) \
        and bool(re.search(r"\n    \w+\.params\.appendable\s*=\s*true\s*;", cp))
    out.append("Definition multi_job_flag_overrides : bool := %s." % ("true" if ov else "false"))
    # CompressMulti
    cm = _strip(_fn_body(th, r"pub\s+fn\s+CompressMulti\s*<", "threading.rs CompressMulti", gt))
    contiguous = bool(re.search(r"if\s+" + W + r"\.end\s*>\s*" + W + r"\s*&&\s*\1\.end\s*-\s*\2\s*>\s*" + W + r"\s*\{\s*\w+\.BulkStoreRange\(\s*[^;]*?,\s*usize::MAX,\s*\3,\s*\1\.end\s*-\s*\2,?\s*\);\s*\3\s*=\s*\1\.end\s*-\s*\2;", cm))
    asfound = bool(re.search(r"if\s+" + W + r"\.end\s*-\s*\1\.start\s*>\s*\w+\s*\{\s*\w+\.BulkStoreRange\(", cm))
    if contiguous == asfound:
        raise gt.GenError("threading.rs CompressMulti: neither (or both) of the known forms of the shared-hasher loop found")
    out.append("Definition multi_shared_ranges_contiguous : bool := %s." % ("true" if contiguous else "false"))
    m = re.search(r"let\s+mut\s+" + W + r"\s*=\s*Ok\(0usize\);", cm)
    first = False
    if m:
        cr = re.escape(m.group(1))
        first = bool(re.search(r"Ok\(\w+\)\s+if\s+" + cr + r"\.is_err\(\)\s*=>", cm)) and \
            bool(re.search(r"Err\(" + W + r"\)\s*=>\s*\{\s*if\s+" + cr + r"\.is_ok\(\)\s*\{\s*" + cr + r"\s*=\s*Err\(\1\);\s*\}\s*\}", cm))
    overwrite = bool(re.search(r"let\s+mut\s+\w+\s*=\s*Err\(BrotliEncoderThreadError::InsufficientOutputSpace\);", cm))
    if first == overwrite:
        raise gt.GenError("threading.rs CompressMulti: neither (or both) of the known forms of the stitching result found")
    out.append("Definition multi_first_error_decides : bool := %s." % ("true" if first else "false"))
    early = len(re.findall(r"return\s+Err\(", cm))
    # the only early return left is the one inside the favor_cpu_efficiency loop (failed view)
    out.append("Definition MULTI_EARLY_RETURNS : N := %d." % early)
    cont = bool(re.search(r"Err\(" + W + r"\)\s*=>\s*\{\s*if\s+" + W + r"\.is_ok\(\)\s*\{\s*\2\s*=\s*Err\(\1\);\s*\}\s*continue;\s*\}", cm)) and \
        bool(re.search(r"Err\(\w+\)\s*=>\s*\{\s*if\s+" + W + r"\.is_ok\(\)\s*\{\s*\1\s*=\s*Err\(BrotliEncoderThreadError::OtherThreadPanic\);\s*\}\s*continue;\s*\}", cm))
    out.append("Definition multi_join_failure_continues : bool := %s." % ("true" if cont else "false"))
    # the input goes back to its owner after the stitching loop
    back = bool(re.search(r"if\s+let\s+Ok\(" + W + r"\)\s*=\s*\w+\.unwrap\(\)\s*\{\s*\*" + W + r"\s*=\s*Owned::new\(\1\.0\);", cm))
    out.append("Definition multi_hands_input_back : bool := %s." % ("true" if back else "false"))
    return out
