#!/usr/bin/env python3
"""Translator: regenerates coq/gen/*.v from /repo/src on every check.

Deliberately small: it copies literal tables and numeric constants (found by anchored
regular expressions) out of the Rust sources into Coq definitions over N / Z.  The
hand-written models under coq/model refer to these names, so every theorem is
re-checked against the numbers the code contains now.  If an anchor no longer matches
the generator raises GenError naming the anchor; the caller then reports the
regenerated part as "no longer shown".
"""
import os, re, sys

REPO = os.environ.get("VERIF_REPO", "/repo")


class GenError(Exception):
    pass


def src(path):
    with open(os.path.join(REPO, path), encoding="utf-8") as f:
        return f.read()


_num = re.compile(r"^(-?)(0x[0-9a-fA-F_]+|[0-9_]+)(?:_?(?:u8|u16|u32|u64|usize|i8|i16|i32|i64|isize))?$")


def parse_num(tok, anchor):
    tok = tok.strip()
    # forms like `4i32 as u8`, `(1 as u32)`
    tok = re.sub(r"\s+as\s+\(?\w+\)?", "", tok).strip("() ")
    m = _num.match(tok)
    if not m:
        raise GenError("%s: cannot parse numeric literal %r" % (anchor, tok))
    v = int(m.group(2).replace("_", ""), 0)
    return -v if m.group(1) else v


def static_array(text, name, anchor):
    """pub static NAME: [T; N] = [a, b, c];  -> list of ints"""
    m = re.search(r"(?:pub(?:\(crate\))?\s+)?(?:static|const)\s+" + re.escape(name) + r"\s*:\s*\[[^;\]]+;\s*[^\]]+\]\s*=\s*\[(.*?)\]\s*;", text, re.S)
    if not m:
        raise GenError("%s: static array %s not found" % (anchor, name))
    body = re.sub(r"//[^\n]*", "", m.group(1))
    body = re.sub(r"/\*.*?\*/", "", body, flags=re.S)
    toks = [t for t in (x.strip() for x in body.split(",")) if t]
    return [parse_num(t, anchor + ":" + name) for t in toks]


def struct_array(text, name, fields, anchor):
    m = re.search(r"static\s+" + re.escape(name) + r"\s*:\s*\[[^\]]+\]\s*=\s*\[(.*?)\n\];", text, re.S)
    if not m:
        raise GenError("%s: struct array %s not found" % (anchor, name))
    out = []
    for sm in re.finditer(r"\{(.*?)\}", m.group(1), re.S):
        d = {}
        for fm in re.finditer(r"(\w+)\s*:\s*([^,\n]+)", sm.group(1)):
            d[fm.group(1)] = parse_num(fm.group(2), anchor + ":" + name)
        out.append(tuple(d[f] for f in fields))
    if not out:
        raise GenError("%s: struct array %s empty" % (anchor, name))
    return out


def const(text, name, anchor):
    m = re.search(r"(?:pub(?:\(crate\))?\s+)?(?:const|static)\s+" + re.escape(name) + r"\s*:\s*\w+\s*=\s*([^;]+);", text)
    if not m:
        raise GenError("%s: const %s not found" % (anchor, name))
    return parse_num(m.group(1), anchor + ":" + name)


def fn_body(text, name, anchor):
    """text of the function `name` (from `fn name` to the matching closing brace)."""
    m = re.search(r"fn\s+" + re.escape(name) + r"\s*(?:<[^>]*>)?\s*\(", text)
    if not m:
        raise GenError("%s: fn %s not found" % (anchor, name))
    i = text.index("{", m.end())
    depth = 0
    for j in range(i, len(text)):
        if text[j] == "{":
            depth += 1
        elif text[j] == "}":
            depth -= 1
            if depth == 0:
                return text[m.start():j + 1]
    raise GenError("%s: fn %s unbalanced" % (anchor, name))


def nums_in(body, pattern, anchor, count=None):
    """all numeric captures of `pattern` in `body`, in order."""
    res = [parse_num(m.group(1), anchor) for m in re.finditer(pattern, body)]
    if count is not None and len(res) != count:
        raise GenError("%s: expected %d matches of %r, found %d" % (anchor, count, pattern, len(res)))
    return res


def coq_list(xs, scope="N"):
    return "[" + "; ".join(str(x) for x in xs) + "]%" + scope


def coq_zlist(xs):
    return "[" + "; ".join(("(%d)" % x) if x < 0 else str(x) for x in xs) + "]%Z"


LIT = r"(-?(?:0x[0-9a-fA-F_]+|[0-9][0-9_]*)(?:_?(?:u8|u16|u32|u64|usize|i8|i16|i32|i64|isize))?)"


# ---------------------------------------------------------------------------------
# sections: each returns a list of Coq definition lines
# ---------------------------------------------------------------------------------

def gen_arith():
    out = []
    c = src("src/enc/constants.rs")
    for n in ("kInsBase", "kInsExtra", "kCopyBase", "kCopyExtra"):
        out.append("Definition %s : list N := %s." % (n, coq_list(static_array(c, n, "constants.rs"))))
    b = src("src/enc/brotli_bit_stream.rs")
    pr = struct_array(b, "kBlockLengthPrefixCode", ("offset", "nbits"), "brotli_bit_stream.rs")
    out.append("Definition kBlockLengthPrefixCode_offset : list N := %s." % coq_list([p[0] for p in pr]))
    out.append("Definition kBlockLengthPrefixCode_nbits : list N := %s." % coq_list([p[1] for p in pr]))
    out.append("Definition BROTLI_NUM_BLOCK_LEN_SYMBOLS : N := %d." % const(c, "BROTLI_NUM_BLOCK_LEN_SYMBOLS", "constants.rs"))
    e = src("src/enc/encode.rs")
    for n in ("BROTLI_NUM_DISTANCE_SHORT_CODES", "BROTLI_MAX_ALLOWED_DISTANCE", "BROTLI_MAX_DISTANCE_BITS",
              "BROTLI_LARGE_MAX_DISTANCE_BITS"):
        out.append("Definition %s : N := %d." % (n, const(e, n, "encode.rs")))
    out.append("Definition BROTLI_WINDOW_GAP : N := %d." % const(c, "BROTLI_WINDOW_GAP", "constants.rs"))
    cmd = src("src/enc/command.rs")
    # thresholds of GetInsertLengthCode: `insertlen < K` in order, and the additive constants
    body = fn_body(cmd, "GetInsertLengthCode", "command.rs")
    th = nums_in(body, r"insertlen\s*<\s*" + LIT, "GetInsertLengthCode thresholds", 5)
    out.append("Definition ins_thresholds : list N := %s." % coq_list(th))
    subs = nums_in(body, r"insertlen\.wrapping_sub\(" + LIT + r"\)", "GetInsertLengthCode subs", 3)
    out.append("Definition ins_subs : list N := %s." % coq_list(subs))
    adds = nums_in(body, r"\.wrapping_add\(" + LIT + r"\)", "GetInsertLengthCode adds", 2)
    out.append("Definition ins_adds : list N := %s." % coq_list(adds))
    tail = nums_in(body, r"\n\s*" + LIT + r"\s+as\s+u16", "GetInsertLengthCode tail codes", 3)
    out.append("Definition ins_tailcodes : list N := %s." % coq_list(tail))
    body = fn_body(cmd, "GetCopyLengthCode", "command.rs")
    th = nums_in(body, r"copylen\s*<\s*" + LIT, "GetCopyLengthCode thresholds", 3)
    out.append("Definition copy_thresholds : list N := %s." % coq_list(th))
    subs = nums_in(body, r"copylen\.wrapping_sub\(" + LIT + r"\)", "GetCopyLengthCode subs", 4)
    out.append("Definition copy_subs : list N := %s." % coq_list(subs))
    adds = nums_in(body, r"\.wrapping_add\(" + LIT + r"\)", "GetCopyLengthCode adds", 2)
    out.append("Definition copy_adds : list N := %s." % coq_list(adds))
    tail = nums_in(body, r"\n\s*" + LIT + r"\s+as\s+u16", "GetCopyLengthCode tail codes", 1)
    out.append("Definition copy_tailcodes : list N := %s." % coq_list(tail))
    body = fn_body(cmd, "combine_length_codes", "command.rs")
    magic = nums_in(body, r"\(\s*" + LIT + r"\s*>>\s*sub_offset", "combine_length_codes magic", 1)
    out.append("Definition combine_magic : N := %d." % magic[0])
    consts = nums_in(body, LIT, "combine_length_codes literals")
    out.append("Definition combine_literals : list N := %s." % coq_list(consts))
    body = fn_body(b, "BlockLengthPrefixCode", "brotli_bit_stream.rs")
    bl = nums_in(body, r"len\s*>=\s*" + LIT, "BlockLengthPrefixCode thresholds", 3)
    out.append("Definition blen_thresholds : list N := %s." % coq_list(bl))
    bs = nums_in(body, r"\n\s*" + LIT + r"\s*\n", "BlockLengthPrefixCode starts", 4)
    out.append("Definition blen_starts : list N := %s." % coq_list(bs))
    body = fn_body(cmd, "ComputeDistanceCode", "command.rs")
    dm = nums_in(body, r"\(\s*" + LIT + r"\s*>>\s*\(4usize\)", "ComputeDistanceCode magics", 2)
    out.append("Definition dist_short_magics : list N := %s." % coq_list(dm))
    body = fn_body(cmd, "distance_index_and_offset", "command.rs")
    tm = re.search(r"let table[^=]*=\s*\[(.*?)\];", body, re.S)
    if not tm:
        raise GenError("distance_index_and_offset: table not found")
    pairs = re.findall(r"\(\s*(\d+)\s*,\s*(-?\d+)\s*\)", tm.group(1))
    if len(pairs) != 16:
        raise GenError("distance_index_and_offset: table has %d entries" % len(pairs))
    out.append("Definition short_dist_table : list (N * Z) := [%s]." % "; ".join("(%s%%N, (%s)%%Z)" % p for p in pairs))
    return out


SECTIONS = {"Arith": gen_arith}


def render(section):
    lines = SECTIONS[section]()
    hdr = ["(* GENERATED by tools/gen_tables.py from %s/src -- do not edit. *)" % REPO,
           "From Coq Require Import List NArith ZArith.", "Import ListNotations.", ""]
    return "\n".join(hdr + lines) + "\n"


def write_if_changed(path, text):
    try:
        with open(path) as f:
            if f.read() == text:
                return False
    except FileNotFoundError:
        pass
    with open(path, "w") as f:
        f.write(text)
    return True


def regenerate(outdir, sections=None):
    """returns (changed: list of files, errors: list of str)"""
    changed, errors = [], []
    for s in (sections or SECTIONS):
        path = os.path.join(outdir, "Gen%s.v" % s)
        try:
            if write_if_changed(path, render(s)):
                changed.append(path)
        except GenError as e:
            errors.append("Gen%s: %s" % (s, e))
    return changed, errors


if __name__ == "__main__":
    here = os.path.dirname(os.path.abspath(__file__))
    ch, er = regenerate(os.path.join(here, "..", "coq", "gen"))
    for c in ch:
        print("regenerated", c)
    for e in er:
        print("GENERROR", e)
    sys.exit(1 if er else 0)
